#!/usr/bin/env python3
"""Regenerates MANIFEST.json from the table below (single source of truth for what is claimed)."""
import json, subprocess

CLAIMED = {
  # id: (engine, technique, level text, level note, design ref)
}
def sched(txt): return txt

T_SCHED = "stateless exhaustive exploration of the real server under a controlled scheduler (all task orders incl. long postponement of a task, select! start indices, preemptions and whole-thread stalls at hooked points, within a deviation bound), history oracle"
T_SEQ = "exhaustive enumeration of all operation sequences up to a depth on the real server, compared step by step with a reference model; plus deviation-bounded schedule exploration of litmus programs"
T_INPUT = "bounded-exhaustive enumeration of inputs on the real code against an independent reference"
T_FAULT = "exhaustive enumeration of endpoint answer sequences (fault injection at the transport seam) on the real push loop under the controlled scheduler"
T_LOOM = "loom: exhaustive thread interleavings and C11 atomic behaviours of the real flow_control.rs up to a preemption bound; Notify model bound to tokio by exhaustive conformance sequences"

NOTE_DSCHED = "trusted: tokio 1.40.0 (+ verif_hook patch redirecting spawn and the select! start index), tonic/prost, the harness' reference oracle; interleavings at poll-step + hooked preemption-point granularity (nested single-poll preemption, or a stall while all other tasks run until idle); small worlds (<=3 topics, <=3 subscriptions, <=4 clients; single large-count units beyond that); virtual time moved only at harness-chosen instants"

import os
props = [json.loads(l) for l in open('/verif/properties.jsonl')]
claimed = json.load(open('/verif/claims.json'))
checks = []
na = []
for p in props:
    pid = p['id']
    c = claimed.get(pid)
    if not c or not c.get('claimed'):
        na.append({"property_id": pid, "reason": (c or {}).get('reason', 'check not built yet (work in progress); will be claimed once its machinery exists')})
        continue
    checks.append({
        "property_id": pid,
        "quick_cmd": f"./check {pid} --tier quick",
        "thorough_cmd": f"./check {pid} --tier thorough",
        "evidence_file": f"/verif/evidence/{pid}.json",
        "replay_cmd_template": f"./check {pid} --replay {{path}}",
        "engine": c.get('engine', 'dsched'),
        "level_claimed": {"category": "model_checking", "text": c['text'], "design_ref": c.get('design_ref', f"DESIGN.md section 4, {pid}")},
        "level_note": c.get('note', NOTE_DSCHED),
        "technique": {"sched": T_SCHED, "seq": T_SEQ, "input": T_INPUT, "fault": T_FAULT, "loom": T_LOOM}.get(c.get('technique'), c.get('technique')),
    })
commits = subprocess.run(['git','-C','/repo','log','--format=%h %s'],capture_output=True,text=True).stdout.splitlines()
hook_commits = [l.split()[0] for l in commits if l.split(' ',1)[1].startswith('verif:')]
fix_commits = [l for l in commits if l.split(' ',1)[1].startswith('fix:')]
m = {
  "version": 1,
  "setup_cmd": "./setup.sh",
  "hooks": {
    "guard": "deltio_verif",
    "enable": "RUSTFLAGS=\"--cfg deltio_verif\" (set in /verif/harness/.cargo/config.toml); the harness additionally patches tokio 1.40.0 via [patch.crates-io] (patches/tokio-verif-hook.patch), never in /repo",
    "baseline_off_cmd": "cd /repo && cargo test --workspace --no-fail-fast --offline",
    "source_commits": hook_commits,
    "add_only": False,
  },
  "engines": [
    {"name": "dsched", "path": "/verif/harness", "serves_properties": [c['property_id'] for c in checks if c['engine']=='dsched'], "kind_free_text": "deterministic exhaustive scheduler/enumerator running the real deltio server in-process (fresh paused current-thread tokio runtime per execution), stateless DFS over the choice vector with costed deviations"},
    {"name": "loom-fc", "path": "/verif/loom-fc", "serves_properties": [c['property_id'] for c in checks if c['engine']=='loom-fc'], "kind_free_text": "loom model checking of /repo/src/subscriptions/flow_control.rs (copied at build time, imports rewritten to loom)"},
  ],
  "checks": checks,
  "not_applicable": na,
  "notes": "Fix commits in /repo: " + "; ".join(fix_commits) + ". See DESIGN.md and known_findings.txt.",
}
json.dump(m, open('/verif/MANIFEST.json','w'), indent=1)
print("claimed:", [c['property_id'] for c in checks]); print("not claimed:", [n['property_id'] for n in na])
