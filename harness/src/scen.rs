//! Helpers shared by the scenarios.
use crate::explore::*;
use crate::report::*;
use crate::world::*;
use futures::future::LocalBoxFuture;
use std::sync::{Arc, Mutex};

pub const T0: &str = "projects/p/topics/t0";
pub const T1: &str = "projects/p/topics/t1";
pub const S0: &str = "projects/p/subscriptions/s0";
pub const S1: &str = "projects/p/subscriptions/s1";
pub const S2: &str = "projects/p/subscriptions/s2";
pub const SQ: &str = "projects/q/subscriptions/s0";
pub const TQ: &str = "projects/q/topics/t0";
pub const ALL_SUBS: [&str; 4] = [S0, S1, S2, SQ];

#[derive(Clone, Debug)]
pub struct Ev {
    pub who: String,
    pub what: String,
    pub step: u64,
    pub t_ms: i64,
}

#[derive(Clone, Default)]
pub struct Log(pub Arc<Mutex<Vec<Ev>>>);

impl Log {
    pub fn push(&self, cx: &Ctx, who: &str, what: impl Into<String>) {
        let ev = Ev { who: who.to_string(), what: what.into(), step: cx.step(), t_ms: cx.now_ms() };
        self.0.lock().unwrap().push(ev);
    }
    pub fn all(&self) -> Vec<Ev> {
        self.0.lock().unwrap().clone()
    }
    pub fn of(&self, who: &str) -> Vec<Ev> {
        self.0.lock().unwrap().iter().filter(|e| e.who == who).cloned().collect()
    }
    pub fn last_of(&self, who: &str) -> Option<Ev> {
        self.of(who).pop()
    }
    /// order-preserving key (who:what), without steps/times
    pub fn key(&self) -> String {
        self.0.lock().unwrap().iter().map(|e| format!("{}:{}", e.who, e.what)).collect::<Vec<_>>().join(" ")
    }
    /// key that ignores the order between different clients
    pub fn key_per_client(&self) -> String {
        let mut v: Vec<String> = vec![];
        let evs = self.0.lock().unwrap();
        let mut whos: Vec<&String> = evs.iter().map(|e| &e.who).collect();
        whos.sort();
        whos.dedup();
        for w in whos {
            v.push(format!("{}[{}]", w, evs.iter().filter(|e| &e.who == w).map(|e| e.what.clone()).collect::<Vec<_>>().join(",")));
        }
        v.join(" ")
    }
}

pub fn res<T: std::fmt::Debug>(r: &Result<T, Code>) -> String {
    match r {
        Ok(_) => "OK".into(),
        Err(c) => format!("{:?}", c),
    }
}

pub type ScenFn = Arc<dyn Fn(Ctx) -> LocalBoxFuture<'static, ScenarioOut> + Send + Sync>;

pub fn explore_unit(name: impl Into<String>, desc: impl Into<String>, bounds: Bounds, cfg: ExecCfg, f: ScenFn) -> Unit {
    let name: String = name.into();
    let n2 = name.clone();
    let run: RunFn = Arc::new(move |prefix: &[u32], _record: bool| {
        CURRENT_EXEC.with(|c| *c.borrow_mut() = Some((n2.clone(), prefix.to_vec())));
        let f = f.clone();
        crate::report::enter_exec(&n2, prefix);
        let r = run_exec(prefix, &cfg, move |cx| f(cx));
        crate::report::leave_exec();
        r
    });
    Unit::explore(name, desc, bounds, run)
}

#[macro_export]
macro_rules! scen {
    ([$($cap:ident),*] |$cx:ident| $body:block) => {{
        // captured values are cloned into the closure, the originals stay usable
        $(let $cap = $cap.clone();)*
        std::sync::Arc::new(move |$cx: $crate::world::Ctx| -> futures::future::LocalBoxFuture<'static, $crate::world::ScenarioOut> {
            $(let $cap = $cap.clone();)*
            Box::pin(async move $body)
        })
    }};
    (|$cx:ident| $body:block) => {
        $crate::scen!([] |$cx| $body)
    };
}

/// `?`-style early return of a Verdict inside a scenario body.
#[macro_export]
macro_rules! tryv {
    ($e:expr) => {
        match $e {
            Ok(v) => v,
            Err(verdict) => return $crate::world::ScenarioOut::from(verdict),
        }
    };
}

/// Sequential setup call that must succeed (anything else is a property-independent failure of the basics).
#[macro_export]
macro_rules! must {
    ($cx:expr, $label:expr, $fut:expr) => {{
        let r = $crate::tryv!($cx.settle($label, $fut).await);
        match r {
            Ok(v) => v,
            Err(code) => return $crate::world::ScenarioOut::viol(format!("setup/{}", $label), format!("setup step {} failed with {:?}", $label, code)),
        }
    }};
}
