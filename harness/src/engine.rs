//! DSCHED core: a controller that owns the scheduling of every spawned task, every `select!`
//! start index and every hooked preemption point of one execution, and records them as a
//! vector of choices.  One `Shared` per execution.
use deltio::verif::{Hooks, PushSendFuture};
use std::collections::HashMap;
use std::sync::{Arc, Mutex};
use std::task::{Context, Wake, Waker};
use tokio::verif_hook::{Controller, Poller};

#[derive(Clone, Copy, Debug, PartialEq, Eq)]
pub enum Kind {
    /// which runnable task runs next (answer k = delay the first k)
    Sched,
    /// start index of one poll of a `select!`
    Select,
    /// preemption at a hooked point (answer k>0 = run the k-th runnable task nested)
    Point,
    /// the task stalls at a hooked point while every other task runs until nothing is runnable (answer 1 = stall):
    /// on the multi-threaded runtime a worker thread can be descheduled for arbitrarily long between two steps
    Stall,
    /// the runnable task that is next in line is set aside until nothing else is runnable (answer 1): a task can sit
    /// in a busy worker's queue for arbitrarily long
    Postpone,
    /// harness-level data choice (operation, input, fault, abort instant): cost 0
    Data,
}

#[derive(Clone, Debug)]
pub struct ChoicePoint {
    pub kind: Kind,
    pub site: &'static str,
    pub n: u32,
    pub chosen: u32,
}

impl ChoicePoint {
    pub fn cost(&self, alt: u32) -> usize {
        match self.kind {
            Kind::Data => 0,
            _ => alt as usize,
        }
    }
}

pub struct Task {
    pub label: String,
    pub runnable: bool,
    pub done: bool,
    pub polling: bool,
    pub kill: bool,
    pub since: u64,
    pub polls: u32,
    /// set by a `Postpone` choice: the task is not scheduled while anything else is runnable; cleared when it runs
    pub postponed: bool,
    pub poller: Option<Poller>,
}

/// Answers of a scripted push endpoint.
#[derive(Clone, Debug, PartialEq, Eq, Hash)]
pub enum PushAnswer {
    Status(u16),
    ConnError,
    /// no answer for this many ms, then the status
    Delay(u64, u16),
}

#[derive(Clone, Debug)]
pub struct PushAttempt {
    pub at_ms: i64,
    pub step: u64,
    pub url: String,
    pub method: String,
    pub content_type: String,
    pub body: Vec<u8>,
    pub answer: PushAnswer,
}

pub struct Shared {
    pub tasks: Vec<Task>,
    pub step: u64,
    pub depth: usize,
    pub prefix: Vec<u32>,
    pub points: Vec<ChoicePoint>,
    pub labels: HashMap<String, usize>,
    pub caps: (usize, usize),
    /// while frozen, scheduling/select/point choices take their default and are not recorded
    pub frozen: bool,
    /// preemption points enabled at all
    pub points_on: bool,
    pub stalls_on: bool,
    pub postpone_on: bool,
    pub trace: Vec<(u8, u32)>,
    pub panics: Vec<String>,
    pub diverged: Option<String>,
    pub pending_label: Option<String>,
    /// push seam
    pub push_log: Vec<PushAttempt>,
    pub t0: Option<tokio::time::Instant>,
    /// chooses the answer for the n-th push attempt (data choice made by the scenario)
    pub push_menu: Vec<PushAnswer>,
    /// instrumented locks currently held (creation site, exclusive) and the nesting edges seen: (held, acquired)
    pub locks_held: Vec<(String, bool)>,
    pub lock_edges: std::collections::BTreeSet<(String, bool, String, bool)>,
}

impl Shared {
    pub fn new(prefix: Vec<u32>, caps: (usize, usize)) -> Self {
        Shared {
            tasks: vec![],
            step: 0,
            depth: 0,
            prefix,
            points: vec![],
            labels: Default::default(),
            caps,
            frozen: false,
            points_on: true,
            stalls_on: true,
            postpone_on: true,
            trace: vec![],
            panics: vec![],
            diverged: None,
            pending_label: None,
            push_log: vec![],
            t0: None,
            push_menu: vec![PushAnswer::Status(200)],
            locks_held: vec![],
            lock_edges: Default::default(),
        }
    }

    pub fn pick(&mut self, kind: Kind, site: &'static str, n: usize) -> usize {
        if n <= 1 {
            return 0;
        }
        if self.frozen && kind != Kind::Data {
            return 0;
        }
        let i = self.points.len();
        let mut chosen = if i < self.prefix.len() { self.prefix[i] } else { 0 };
        if chosen as usize >= n {
            if self.diverged.is_none() {
                self.diverged = Some(format!(
                    "replay divergence at point {} ({:?} {}): prefix says {} but arity is {}",
                    i, kind, site, chosen, n
                ));
            }
            chosen = 0;
        }
        self.points.push(ChoicePoint { kind, site, n: n as u32, chosen });
        chosen as usize
    }

    pub fn runnable_sorted(&self) -> Vec<usize> {
        let mut v: Vec<usize> = (0..self.tasks.len())
            .filter(|&i| self.tasks[i].runnable && !self.tasks[i].done && !self.tasks[i].polling)
            .collect();
        v.sort_by(|&a, &b| {
            (self.tasks[a].since, &self.tasks[a].label).cmp(&(self.tasks[b].since, &self.tasks[b].label))
        });
        // postponed tasks wait until nothing else is runnable
        if v.iter().any(|&i| !self.tasks[i].postponed) {
            v.retain(|&i| !self.tasks[i].postponed);
        }
        v
    }

    pub fn trace_strings(&self) -> Vec<String> {
        self.trace
            .iter()
            .map(|(d, t)| format!("{}{}", "  ".repeat(*d as usize), self.tasks[*t as usize].label))
            .collect()
    }
}

pub type Sh = Arc<Mutex<Shared>>;

pub struct Ctl(pub Sh);

thread_local! {
    pub static CUR: std::cell::RefCell<Option<Sh>> = const { std::cell::RefCell::new(None) };
}

pub fn tokio_chooser(n: u32, _loc: &'static std::panic::Location<'static>) -> Option<u32> {
    CUR.with(|c| c.borrow().clone()).map(|sh| {
        let mut s = sh.lock().unwrap();
        s.pick(Kind::Select, "select", n as usize) as u32
    })
}

struct TaskWaker {
    id: usize,
    shared: Sh,
}

impl Wake for TaskWaker {
    fn wake(self: Arc<Self>) {
        self.wake_by_ref()
    }
    fn wake_by_ref(self: &Arc<Self>) {
        let mut s = self.shared.lock().unwrap();
        let step = s.step;
        if let Some(t) = s.tasks.get_mut(self.id) {
            if !t.done && !t.runnable {
                t.runnable = true;
                t.since = step;
            }
        }
    }
}

/// Polls task `id` once.
pub fn step_task(shared: &Sh, id: usize) {
    let mut poller = {
        let mut s = shared.lock().unwrap();
        s.step += 1;
        let d = s.depth as u8;
        s.trace.push((d, id as u32));
        let t = &mut s.tasks[id];
        t.runnable = false;
        t.postponed = false;
        t.polling = true;
        t.polls += 1;
        match t.poller.take() {
            Some(p) => p,
            None => {
                t.polling = false;
                t.done = true;
                return;
            }
        }
    };
    let waker = Waker::from(Arc::new(TaskWaker { id, shared: shared.clone() }));
    let mut cx = Context::from_waker(&waker);
    let r = std::panic::catch_unwind(std::panic::AssertUnwindSafe(|| tokio::verif_hook::with_budget(|| poller(&mut cx))));
    let mut s = shared.lock().unwrap();
    let t = &mut s.tasks[id];
    t.polling = false;
    match r {
        Ok(true) => {
            t.done = true;
        }
        Ok(false) => {
            if t.kill {
                t.done = true;
            } else {
                t.poller = Some(poller);
                return;
            }
        }
        Err(e) => {
            t.done = true;
            let msg = if let Some(m) = e.downcast_ref::<String>() {
                m.clone()
            } else if let Some(m) = e.downcast_ref::<&str>() {
                m.to_string()
            } else {
                "panic".to_string()
            };
            let l = format!("{}: {}", t.label, msg);
            s.panics.push(l);
        }
    }
    drop(s);
    drop(poller);
}

impl Controller for Ctl {
    fn spawn(&self, label: Option<String>, site: &'static std::panic::Location<'static>, poller: Poller) -> usize {
        let mut s = self.0.lock().unwrap();
        let label = label
            .or_else(|| s.pending_label.take())
            .unwrap_or_else(|| format!("{}:{}", site.file().rsplit('/').next().unwrap(), site.line()));
        s.pending_label = None;
        let n = s.labels.entry(label.clone()).or_insert(0);
        *n += 1;
        let label = format!("{}#{}", label, n);
        let since = s.step;
        s.tasks.push(Task { label, runnable: true, done: false, polling: false, kill: false, since, polls: 0, postponed: false, poller: Some(poller) });
        s.tasks.len() - 1
    }

    fn dropped(&self, id: usize) {
        let p = {
            let mut s = self.0.lock().unwrap();
            let t = &mut s.tasks[id];
            if t.polling {
                t.kill = true;
                None
            } else {
                t.done = true;
                t.poller.take()
            }
        };
        drop(p);
    }
}

impl Hooks for Ctl {
    fn label(&self, label: String) {
        self.0.lock().unwrap().pending_label = Some(label);
    }

    fn point(&self, site: &'static str) {
        loop {
            let id = {
                let mut s = self.0.lock().unwrap();
                if !s.points_on || s.frozen || s.depth >= 2 {
                    return;
                }
                let r = s.runnable_sorted();
                if r.is_empty() {
                    return;
                }
                let k = s.pick(Kind::Point, site, r.len() + 1);
                if k == 0 {
                    if s.stalls_on && s.depth == 0 && s.pick(Kind::Stall, site, 2) == 1 {
                        None
                    } else {
                        return;
                    }
                } else {
                    s.depth += 1;
                    Some(r[k - 1])
                }
            };
            match id {
                Some(id) => {
                    step_task(&self.0, id);
                    self.0.lock().unwrap().depth -= 1;
                }
                None => {
                    // stall: everybody else runs, in the default order and without further choices, until nothing is
                    // runnable (tasks that wait for this one stay blocked); then this task carries on
                    let was = {
                        let mut s = self.0.lock().unwrap();
                        s.depth += 1;
                        std::mem::replace(&mut s.frozen, true)
                    };
                    for _ in 0..2_000 {
                        let next = self.0.lock().unwrap().runnable_sorted().first().copied();
                        match next {
                            Some(id) => step_task(&self.0, id),
                            None => break,
                        }
                    }
                    let mut s = self.0.lock().unwrap();
                    s.depth -= 1;
                    s.frozen = was;
                    return;
                }
            }
        }
    }

    fn order(&self, site: &'static str, n: usize) -> usize {
        self.0.lock().unwrap().pick(Kind::Data, site, n)
    }

    fn capacity(&self, kind: &'static str, default: usize) -> usize {
        let s = self.0.lock().unwrap();
        match kind {
            "topic" if s.caps.0 > 0 => s.caps.0,
            "subscription" if s.caps.1 > 0 => s.caps.1,
            _ => default,
        }
    }

    fn lock_event(&self, lock: &'static std::panic::Location<'static>, exclusive: bool, acquire: bool) {
        let name = format!("{}:{}", lock.file().rsplit('/').next().unwrap_or(""), lock.line());
        let mut s = self.0.lock().unwrap();
        if acquire {
            let held = s.locks_held.clone();
            for (h, hx) in held {
                s.lock_edges.insert((h, hx, name.clone(), exclusive));
            }
            s.locks_held.push((name, exclusive));
        } else if let Some(p) = s.locks_held.iter().rposition(|(n, x)| *n == name && *x == exclusive) {
            s.locks_held.remove(p);
        }
    }

    fn push_send(&self, request: reqwest::RequestBuilder) -> PushSendFuture {
        let sh = self.0.clone();
        Box::pin(async move {
            let built = request.build();
            let req = match built {
                Ok(r) => r,
                Err(e) => return Err(e),
            };
            let body = req.body().and_then(|b| b.as_bytes()).map(|b| b.to_vec()).unwrap_or_default();
            let ct = req
                .headers()
                .get("content-type")
                .map(|v| v.to_str().unwrap_or("?").to_string())
                .unwrap_or_default();
            let answer = {
                let mut s = sh.lock().unwrap();
                let menu = s.push_menu.clone();
                let k = s.pick(Kind::Data, "push-answer", menu.len());
                let answer = menu[k].clone();
                let at_ms = s.t0.map(|t0| (tokio::time::Instant::now() - t0).as_millis() as i64).unwrap_or(0);
                let step = s.step;
                s.push_log.push(PushAttempt {
                    at_ms,
                    step,
                    url: req.url().to_string(),
                    method: req.method().to_string(),
                    content_type: ct,
                    body,
                    answer: answer.clone(),
                });
                answer
            };
            let respond = |status: u16| {
                let r = http::Response::builder().status(status).body(Vec::<u8>::new()).unwrap();
                Ok(reqwest::Response::from(r))
            };
            match answer {
                PushAnswer::Status(s) => respond(s),
                PushAnswer::Delay(ms, s) => {
                    tokio::time::sleep(std::time::Duration::from_millis(ms)).await;
                    respond(s)
                }
                PushAnswer::ConnError => {
                    // a genuine reqwest::Error (there is no public constructor): a request whose URL cannot be parsed
                    thread_local! { static CLIENT: reqwest::Client = reqwest::Client::new(); }
                    Err(CLIENT.with(|c| c.get("http://").build().unwrap_err()))
                }
            }
        })
    }
}

/// Runs controlled tasks until none is runnable.  Every iteration lets tokio drain its own queue
/// (shells, timers) once.
pub async fn run_until_quiescent(shared: &Sh, max_steps: usize) -> Result<usize, String> {
    run_until(shared, max_steps, &|_| false).await
}

/// Like `run_until_quiescent`, but also stops (before the next step) as soon as `stop` holds.
pub async fn run_until(shared: &Sh, max_steps: usize, stop: &dyn Fn(&Shared) -> bool) -> Result<usize, String> {
    let mut steps = 0;
    let mut idle_rounds = 0;
    loop {
        if stop(&shared.lock().unwrap()) {
            return Ok(steps);
        }
        let id = {
            let mut s = shared.lock().unwrap();
            let r = s.runnable_sorted();
            if r.is_empty() {
                None
            } else {
                let k = s.pick(Kind::Sched, "sched", r.len());
                if k == 0 && r.len() > 1 && s.postpone_on && s.pick(Kind::Postpone, "postpone", 2) == 1 {
                    // the task that is next in line is set aside until nothing else is runnable
                    s.tasks[r[0]].postponed = true;
                    Some(r[1])
                } else {
                    Some(r[k])
                }
            }
        };
        match id {
            None => {
                idle_rounds += 1;
                if idle_rounds >= 2 {
                    return Ok(steps);
                }
                tokio::task::yield_now().await;
            }
            Some(id) => {
                idle_rounds = 0;
                step_task(shared, id);
                tokio::task::yield_now().await;
                steps += 1;
                if steps > max_steps {
                    return Err(format!("step limit {} exceeded", max_steps));
                }
            }
        }
    }
}
