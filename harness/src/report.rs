//! Units, evidence files, replay files, known findings.
use crate::explore::*;
use serde_json::{json, Value};
use std::sync::{Arc, Mutex};
use std::time::Instant;

pub struct EnumViolation {
    pub sig: String,
    pub detail: String,
    pub case: String,
}

#[derive(Default)]
pub struct EnumReport {
    pub evaluations: u64,
    /// distinct cases (inputs / sequences) enumerated
    pub cases: u64,
    pub steps: u64,
    pub validated: u64,
    pub outcomes: std::collections::BTreeMap<String, u64>,
    pub violations: Vec<EnumViolation>,
    pub samples: Vec<String>,
    pub exhaustive: bool,
    pub note: String,
}

pub type EnumFn = Arc<dyn Fn(Option<&str>, &dyn Fn(&str) -> bool) -> EnumReport + Send + Sync>;

pub enum UnitKind {
    Explore { bounds: Bounds, run: RunFn },
    Enumerate { run: EnumFn },
}

pub struct Unit {
    pub name: String,
    pub desc: String,
    pub kind: UnitKind,
}

impl Unit {
    pub fn explore(name: impl Into<String>, desc: impl Into<String>, bounds: Bounds, run: RunFn) -> Unit {
        Unit { name: name.into(), desc: desc.into(), kind: UnitKind::Explore { bounds, run } }
    }
    pub fn enumerate(name: impl Into<String>, desc: impl Into<String>, run: EnumFn) -> Unit {
        Unit { name: name.into(), desc: desc.into(), kind: UnitKind::Enumerate { run } }
    }
}

pub struct Known {
    pub entries: Vec<(String, String, String)>, // (property, sig, text)
}

impl Known {
    pub fn load() -> Known {
        let mut entries = vec![];
        if let Ok(s) = std::fs::read_to_string("/verif/known_findings.txt") {
            for l in s.lines() {
                let l = l.trim();
                if let Some(rest) = l.strip_prefix("known:") {
                    let mut prop = String::new();
                    let mut sig = String::new();
                    for w in rest.split_whitespace() {
                        if let Some(p) = w.strip_prefix("property=") {
                            prop = p.to_string();
                        }
                        if let Some(p) = w.strip_prefix("sig=") {
                            sig = p.to_string();
                        }
                    }
                    if !prop.is_empty() && !sig.is_empty() {
                        entries.push((prop, sig, rest.trim().to_string()));
                    }
                }
            }
        }
        Known { entries }
    }
    pub fn is_known(&self, prop: &str, sig: &str) -> Option<&str> {
        self.entries.iter().find(|(p, s, _)| p == prop && s == sig).map(|(_, _, t)| t.as_str())
    }
}

fn hash_str(s: &str) -> u64 {
    let mut h: u64 = 0xcbf29ce484222325;
    for b in s.bytes() {
        h ^= b as u64;
        h = h.wrapping_mul(0x100000001b3);
    }
    h
}

pub struct Progress {
    pub prop: String,
    pub tier: String,
    pub start: Instant,
    pub evaluations: u64,
    pub transitions: u64,
    pub states: u64,
    pub validated: u64,
    pub units: Vec<Value>,
    pub samples: Vec<Value>,
    pub outcomes: std::collections::BTreeSet<String>,
    pub violations: u64,
    pub known_hits: u64,
    pub exhaustive: bool,
    pub caps: Vec<String>,
    pub current_unit: String,
}

pub static PROGRESS: Mutex<Option<Progress>> = Mutex::new(None);

/// Where replays and evidence go: /verif, unless VERIF_OUT_DIR says otherwise (used by the mutation lab,
/// which runs a scratch copy of the harness against a scratch copy of the repository).
pub fn out_dir() -> String {
    std::env::var("VERIF_OUT_DIR").unwrap_or_else(|_| "/verif".to_string())
}

pub fn write_replay(prop: &str, unit: &str, sig: &str, detail: &str, payload: Value) -> String {
    let _ = std::fs::create_dir_all(format!("{}/replays", out_dir()));
    let safe: String = format!("{}-{}", unit, sig).chars().map(|c| if c.is_ascii_alphanumeric() || c == '-' || c == '_' { c } else { '_' }).take(80).collect();
    let path = format!("{}/replays/{}-{}-{:08x}.json", out_dir(), prop, safe, hash_str(&format!("{}{}{}", unit, sig, payload)) as u32);
    let doc = json!({ "property": prop, "unit": unit, "signature": sig, "detail": detail, "replay": payload });
    let _ = std::fs::write(&path, serde_json::to_string_pretty(&doc).unwrap());
    path
}

pub fn write_evidence(p: &Progress) {
    let _ = std::fs::create_dir_all(format!("{}/evidence", out_dir()));
    let seed: i64 = std::env::var("VERIF_SEED").ok().and_then(|s| s.parse().ok()).unwrap_or(0);
    let doc = json!({
        "property_id": p.prop,
        "tier": p.tier,
        "seed": seed,
        "level": "model_checking",
        "coverage": {
            "states": p.states.max(1),
            "transitions": p.transitions.max(1),
            "traces_validated_against_impl": p.validated,
            "samples": if p.samples.is_empty() { vec![json!("none")] } else { p.samples.clone() },
            "evaluations": p.evaluations.max(1),
            "distinct_nontrivial": p.outcomes.len(),
            "rule": "every execution of every unit within its stated deviation bound / every case of every enumerated set is run on the real code (no sampling; VERIF_SEED is unused); 'states' = distinct choice-tree nodes (explore units) + distinct cases (enumerate units); 'transitions' = task polls executed; distinct_nontrivial = number of distinct observable outcomes (histories/answers) seen, counted per unit",
            "exhaustive": p.exhaustive,
            "caps_hit": p.caps,
            "known_findings_seen": p.known_hits,
            "units": p.units,
        },
        "assumptions": [
            "tokio 1.40.0 (+ the verif_hook patch, which only redirects spawn and the select! start index), tonic, prost are trusted and run for real",
            "interleavings at the granularity poll step + hooked preemption point (nested), within the reported deviation bounds",
            "virtual time advances only at harness-chosen instants"
        ],
        "wall_s": p.start.elapsed().as_secs_f64(),
        "violations": p.violations,
    });
    let path = format!("{}/evidence/{}.json", out_dir(), p.prop);
    let tmp = format!("{}.tmp", path);
    let _ = std::fs::write(&tmp, serde_json::to_string_pretty(&doc).unwrap());
    let _ = std::fs::rename(&tmp, &path);
}

/// Executions in progress, per worker thread (for the watchdog).
pub static IN_FLIGHT: Mutex<Vec<(std::thread::ThreadId, String, Vec<u32>, Instant)>> = Mutex::new(Vec::new());

pub fn enter_exec(unit: &str, prefix: &[u32]) {
    let id = std::thread::current().id();
    let mut g = IN_FLIGHT.lock().unwrap();
    g.retain(|e| e.0 != id);
    g.push((id, unit.to_string(), prefix.to_vec(), Instant::now()));
}

pub fn leave_exec() {
    let id = std::thread::current().id();
    IN_FLIGHT.lock().unwrap().retain(|e| e.0 != id);
}

/// A single execution that runs for longer than this is a step that never returns (an unbounded loop inside one
/// poll): the explorer cannot preempt it, so a watchdog reports it as a violation of the property being checked.
pub const EXEC_WALL_LIMIT_S: u64 = 120;

pub fn start_watchdog() {
    std::thread::spawn(|| loop {
        std::thread::sleep(std::time::Duration::from_secs(1));
        let stuck = IN_FLIGHT.lock().unwrap().iter().find(|e| e.3.elapsed().as_secs() > EXEC_WALL_LIMIT_S).cloned();
        if let Some((_, unit, prefix, _)) = stuck {
            stuck_report(&unit, &prefix);
        }
    });
}

fn stuck_report(unit: &str, prefix: &[u32]) {
    let mut guard = PROGRESS.lock().unwrap();
    if let Some(p) = guard.as_mut() {
        let sig = "hang/step-never-returns".to_string();
        let detail = format!("one execution has been running for more than {} s of wall-clock time: a poll of some task loops without ever yielding", EXEC_WALL_LIMIT_S);
        let path = write_replay(&p.prop, unit, &sig, &detail, json!({"choices": prefix}));
        p.violations += 1;
        p.exhaustive = false;
        write_evidence(p);
        println!("VIOLATION property={} replay={}", p.prop, path);
        println!("  unit={} sig={} detail={}", unit, sig, detail);
        std::process::exit(1);
    }
}

/// Called from the panic hook for non-unwinding panics (process is about to abort).
pub fn abort_report(msg: &str) {
    let cur = crate::world::CURRENT_EXEC.with(|c| c.borrow().clone());
    // several workers may hit the same abort at once: the first one reports and exits the process
    let mut tries = 0;
    let mut guard = loop {
        match PROGRESS.try_lock() {
            Ok(g) => break g,
            Err(_) => {
                tries += 1;
                if tries > 200 {
                    eprintln!("abort while reporting: {}", msg);
                    std::process::exit(3);
                }
                std::thread::sleep(std::time::Duration::from_millis(50));
            }
        }
    };
    if let Some(p) = guard.as_mut() {
        let (unit, choices) = cur.unwrap_or((p.current_unit.clone(), vec![]));
        let sig = "abort/non-unwinding-panic".to_string();
        let path = write_replay(&p.prop, &unit, &sig, msg, json!({"choices": choices}));
        let known = Known::load();
        if let Some(t) = known.is_known(&p.prop, &sig) {
            println!("KNOWN-FINDING: property={} {}", p.prop, t);
            p.known_hits += 1;
            p.exhaustive = false;
            p.caps.push("process aborted on a known finding; exploration cut short".into());
            write_evidence(p);
            std::process::exit(0);
        }
        p.violations += 1;
        p.exhaustive = false;
        write_evidence(p);
        println!("VIOLATION property={} replay={}", p.prop, path);
        println!("  unit={} sig={} detail={}", unit, sig, msg);
        std::process::exit(1);
    }
    eprintln!("abort outside a check: {}", msg);
    std::process::exit(3);
}

/// Runs all units of a property, writes evidence, prints verdict lines; returns the exit code.
pub fn run_property(prop: &str, tier: &str, units: Vec<Unit>, threads: usize, only_unit: Option<&str>) -> i32 {
    let known = Known::load();
    *PROGRESS.lock().unwrap() = Some(Progress {
        prop: prop.to_string(),
        tier: tier.to_string(),
        start: Instant::now(),
        evaluations: 0,
        transitions: 0,
        states: 0,
        validated: 0,
        units: vec![],
        samples: vec![],
        outcomes: Default::default(),
        violations: 0,
        known_hits: 0,
        exhaustive: true,
        caps: vec![],
        current_unit: String::new(),
    });
    start_watchdog();
    let mut exit = 0;
    let mut printed_known: std::collections::BTreeSet<String> = Default::default();
    let stop_at_first = std::env::var("VERIF_STOP_AT_FIRST").is_ok();
    for u in units {
        if let Some(o) = only_unit {
            if u.name != o {
                continue;
            }
        }
        if stop_at_first && PROGRESS.lock().unwrap().as_ref().unwrap().violations > 0 {
            // mutation lab only: one violation is all it wants to know
            PROGRESS.lock().unwrap().as_mut().unwrap().exhaustive = false;
            break;
        }
        PROGRESS.lock().unwrap().as_mut().unwrap().current_unit = u.name.clone();
        let is_known = |sig: &str| known.is_known(prop, sig).is_some();
        match &u.kind {
            UnitKind::Explore { bounds, run } => {
                // thorough tier: deep bounds, but each unit gets a wall-clock budget; exploration is lowest-cost-first, so a
                // unit that runs out of budget reports the deviation cost up to which it is complete
                let mut bounds = bounds.clone();
                if tier == "thorough" {
                    let budget: u64 = std::env::var("VERIF_THOROUGH_UNIT_WALL").ok().and_then(|s| s.parse().ok()).unwrap_or(45);
                    // sequence enumerations (d = 0) are not ordered by cost: a cut one is simply incomplete (its shallower
                    // siblings are separate units and complete); they get twice the budget
                    bounds.max_wall = bounds.max_wall.min(std::time::Duration::from_secs(if bounds.d > 0 { budget } else { 2 * budget }));
                }
                let bounds = &bounds;
                let r = explore(&u.name, bounds, run.clone(), &is_known, threads);
                let mut g = PROGRESS.lock().unwrap();
                let p = g.as_mut().unwrap();
                p.evaluations += r.executions;
                p.transitions += r.steps;
                p.states += r.nodes + r.model_states;
                p.validated += r.validated;
                for k in r.outcomes.keys() {
                    p.outcomes.insert(format!("{}|{}", u.name, k));
                }
                if !r.completed {
                    p.exhaustive = false;
                }
                if let Some(c) = &r.cap_hit {
                    p.caps.push(format!("{}: {}", u.name, c));
                }
                for s in r.samples.iter().take(2) {
                    if p.samples.len() < 12 {
                        p.samples.push(json!({"unit": u.name, "case": s}));
                    }
                }
                if p.samples.len() < 12 {
                    if let Some((k, n)) = r.outcomes.iter().next() {
                        p.samples.push(json!({"unit": u.name, "outcome": k, "executions_with_it": n}));
                    }
                }
                p.units.push(json!({
                    "unit": u.name, "what": u.desc, "mode": "explore",
                    "executions": r.executions, "steps": r.steps, "choice_tree_nodes": r.nodes, "model_states": r.model_states,
                    "deviation_bound_d": r.bound_d, "select_deviation_bound_f": if r.bound_f == usize::MAX { json!("unbounded (within d)") } else { json!(r.bound_f) },
                    "completed": r.completed, "cap_hit": r.cap_hit, "max_choice_points": r.max_points,
                    "distinct_outcomes": r.outcomes.len(),
                    "outcomes": r.outcomes.iter().take(24).map(|(k, v)| json!({"outcome": k, "executions": v})).collect::<Vec<_>>(),
                    "wall_s": r.wall_s,
                }));
                eprintln!(
                    "[{}] unit {:<44} execs={:<9} steps={:<10} nodes={:<9} outcomes={:<4} d={} completed={} {:.1}s",
                    prop, u.name, r.executions, r.steps, r.nodes, r.outcomes.len(), r.bound_d, r.completed, r.wall_s
                );
                for m in &r.machinery {
                    eprintln!("MACHINERY: {}", m);
                    exit = exit.max(2);
                }
                // lock-order analysis over everything this unit executed: two locks nested in both orders (not all of
                // the four acquisitions shared) can deadlock two threads - a request that never terminates (C07)
                let mut extra: Vec<FoundViolation> = vec![];
                if prop == "C07" {
                    for (a, ax, b, bx) in &r.lock_edges {
                        if a == b {
                            continue;
                        }
                        if let Some((_, cx2, _, dx)) = r.lock_edges.iter().find(|(c, _, d, _)| c == b && d == a) {
                            if *ax || *bx || *cx2 || *dx {
                                let (x, y) = if a < b { (a, b) } else { (b, a) };
                                let sig = format!("lock-order-inversion/{}<->{}", x, y);
                                if !extra.iter().any(|v| v.sig == sig) {
                                    extra.push(FoundViolation {
                                        unit: u.name.clone(),
                                        sig,
                                        detail: format!("the locks created at {} and {} are acquired nested in both orders ({} held while taking {}, and the reverse): two threads doing that at the same time block each other forever", a, b, a, b),
                                        choices: vec![],
                                        kinds: vec![],
                                        trace: r.lock_edges.iter().map(|e| format!("{}({}) -> {}({})", e.0, if e.1 { "excl" } else { "shared" }, e.2, if e.3 { "excl" } else { "shared" })).collect(),
                                        cost: 0,
                                    });
                                }
                            }
                        }
                    }
                    p.units.last_mut().map(|u| u["lock_nesting_edges"] = json!(r.lock_edges.iter().map(|e| format!("{} -> {}", e.0, e.2)).collect::<Vec<_>>()));
                }
                let r_violations: Vec<FoundViolation> = r.violations.iter().cloned().chain(extra).collect();
                for v in &r_violations {
                    let path = write_replay(prop, &v.unit, &v.sig, &v.detail, json!({"choices": v.choices, "kinds": v.kinds, "trace": v.trace, "deviation_cost": v.cost}));
                    if let Some(t) = known.is_known(prop, &v.sig) {
                        p.known_hits += 1;
                        if printed_known.insert(v.sig.clone()) {
                            println!("KNOWN-FINDING: property={} {}", prop, t);
                        }
                    } else {
                        p.violations += 1;
                        println!("VIOLATION property={} replay={}", prop, path);
                        println!("  unit={} sig={} cost={} detail={}", v.unit, v.sig, v.cost, v.detail);
                        exit = exit.max(1);
                    }
                }
            }
            UnitKind::Enumerate { run } => {
                let t = Instant::now();
                let r = run(None, &is_known);
                let mut g = PROGRESS.lock().unwrap();
                let p = g.as_mut().unwrap();
                p.evaluations += r.evaluations;
                p.transitions += r.steps.max(r.evaluations);
                p.states += r.cases;
                p.validated += r.validated;
                for k in r.outcomes.keys() {
                    p.outcomes.insert(format!("{}|{}", u.name, k));
                }
                if !r.exhaustive {
                    p.exhaustive = false;
                }
                for s in r.samples.iter().take(3) {
                    if p.samples.len() < 12 {
                        p.samples.push(json!({"unit": u.name, "case": s}));
                    }
                }
                p.units.push(json!({
                    "unit": u.name, "what": u.desc, "mode": "enumerate",
                    "evaluations": r.evaluations, "distinct_cases": r.cases, "steps": r.steps, "exhaustive": r.exhaustive,
                    "distinct_outcomes": r.outcomes.len(),
                    "outcomes": r.outcomes.iter().take(24).map(|(k, v)| json!({"outcome": k, "cases": v})).collect::<Vec<_>>(),
                    "note": r.note, "wall_s": t.elapsed().as_secs_f64(),
                }));
                eprintln!(
                    "[{}] unit {:<44} cases={:<10} evals={:<10} outcomes={:<4} exhaustive={} {:.1}s",
                    prop, u.name, r.cases, r.evaluations, r.outcomes.len(), r.exhaustive, t.elapsed().as_secs_f64()
                );
                let mut seen = std::collections::BTreeSet::new();
                for v in &r.violations {
                    if !seen.insert(v.sig.clone()) {
                        continue;
                    }
                    let path = write_replay(prop, &u.name, &v.sig, &v.detail, json!({"case": v.case}));
                    if let Some(t) = known.is_known(prop, &v.sig) {
                        p.known_hits += 1;
                        if printed_known.insert(v.sig.clone()) {
                            println!("KNOWN-FINDING: property={} {}", prop, t);
                        }
                    } else {
                        p.violations += 1;
                        println!("VIOLATION property={} replay={}", prop, path);
                        println!("  unit={} sig={} detail={}", u.name, v.sig, v.detail);
                        exit = exit.max(1);
                    }
                }
            }
        }
        let g = PROGRESS.lock().unwrap();
        write_evidence(g.as_ref().unwrap());
    }
    let g = PROGRESS.lock().unwrap();
    let p = g.as_ref().unwrap();
    write_evidence(p);
    eprintln!(
        "[{}] tier={} evaluations={} transitions={} states={} distinct_outcomes={} violations={} known={} exhaustive={} wall={:.1}s",
        prop, tier, p.evaluations, p.transitions, p.states, p.outcomes.len(), p.violations, p.known_hits, p.exhaustive, p.start.elapsed().as_secs_f64()
    );
    if p.outcomes.len() < 2 && only_unit.is_none() {
        eprintln!("MACHINERY: fewer than 2 distinct outcomes over the whole check - exploration is vacuous");
        return if p.violations > 0 { 1 } else { 2 };
    }
    // a replayable violation stands even if some other unit had a machinery problem (e.g. a changed server whose
    // behaviour depends on hash-map iteration order makes that unit's default execution irreproducible)
    if p.violations > 0 {
        return 1;
    }
    exit
}
