//! One execution = one fresh paused current-thread runtime + one fresh `Deltio`, driven through the
//! in-process tonic service by scripted clients whose tasks (like deltio's own) are scheduled by `engine`.
use crate::engine::*;
use crate::explore::{ExecResult, Verdict};
use deltio::pubsub_proto::publisher_client::PublisherClient;
use deltio::pubsub_proto::subscriber_client::SubscriberClient;
use deltio::pubsub_proto::*;
use deltio::push::PushSubscriptionsRegistry;
use deltio::subscriptions::subscription_manager::SubscriptionManager;
use deltio::subscriptions::{AckDeadline, SubscriptionName};
use deltio::topics::topic_manager::TopicManager;
use deltio::Deltio;
use std::collections::BTreeMap;
use std::future::Future;
use std::sync::{Arc, Mutex};
use std::time::Duration;
use tokio::task::JoinHandle;
use tokio::time::Instant;
pub use tonic::Code;

pub type Svc = tonic::service::Routes;

pub const SLACK_MS: i64 = 105;

#[derive(Clone, Debug, PartialEq, Eq, Hash, PartialOrd, Ord)]
pub struct Rm {
    pub ack_id: String,
    pub msg_id: String,
    pub data: Vec<u8>,
    pub attrs: BTreeMap<String, String>,
    pub publish_time: (i64, i32),
}

#[derive(Clone, Debug, PartialEq, Eq)]
pub struct SubView {
    pub name: String,
    pub topic: String,
    pub ack_deadline_seconds: i32,
    pub push_endpoint: Option<String>,
}

#[derive(Clone)]
pub struct Api {
    pub p: PublisherClient<Svc>,
    pub s: SubscriberClient<Svc>,
}

fn code<T>(r: Result<tonic::Response<T>, tonic::Status>) -> Result<T, Code> {
    r.map(|r| r.into_inner()).map_err(|e| e.code())
}

pub fn to_rm(m: &ReceivedMessage) -> Rm {
    let pm = m.message.clone().unwrap_or_default();
    Rm {
        ack_id: m.ack_id.clone(),
        msg_id: pm.message_id.clone(),
        data: pm.data.clone(),
        attrs: pm.attributes.into_iter().collect(),
        publish_time: pm.publish_time.map(|t| (t.seconds, t.nanos)).unwrap_or((0, 0)),
    }
}

fn sub_view(s: Subscription) -> SubView {
    SubView {
        name: s.name,
        topic: s.topic,
        ack_deadline_seconds: s.ack_deadline_seconds,
        push_endpoint: s.push_config.map(|p| p.push_endpoint),
    }
}

pub type Msg = (Vec<u8>, Vec<(String, String)>);

impl Api {
    pub async fn create_topic(&self, name: &str) -> Result<String, Code> {
        code(self.p.clone().create_topic(Topic { name: name.into(), ..Default::default() }).await).map(|t| t.name)
    }
    pub async fn get_topic(&self, name: &str) -> Result<String, Code> {
        code(self.p.clone().get_topic(GetTopicRequest { topic: name.into() }).await).map(|t| t.name)
    }
    pub async fn delete_topic(&self, name: &str) -> Result<(), Code> {
        code(self.p.clone().delete_topic(DeleteTopicRequest { topic: name.into() }).await)
    }
    pub async fn publish(&self, topic: &str, msgs: Vec<Msg>) -> Result<Vec<String>, Code> {
        let messages = msgs
            .into_iter()
            .map(|(data, attrs)| PubsubMessage { data, attributes: attrs.into_iter().collect(), ..Default::default() })
            .collect();
        code(self.p.clone().publish(PublishRequest { topic: topic.into(), messages }).await).map(|r| r.message_ids)
    }
    /// Publish with every field of the messages under the caller's control.
    pub async fn publish_raw(&self, topic: &str, messages: Vec<PubsubMessage>) -> Result<Vec<String>, Code> {
        code(self.p.clone().publish(PublishRequest { topic: topic.into(), messages }).await).map(|r| r.message_ids)
    }
    pub async fn list_topics(&self, project: &str, size: i32, token: &str) -> Result<(Vec<String>, String), Code> {
        code(self.p.clone().list_topics(ListTopicsRequest { project: project.into(), page_size: size, page_token: token.into() }).await)
            .map(|r| (r.topics.into_iter().map(|t| t.name).collect(), r.next_page_token))
    }
    pub async fn list_topic_subs(&self, topic: &str, size: i32, token: &str) -> Result<(Vec<String>, String), Code> {
        code(
            self.p
                .clone()
                .list_topic_subscriptions(ListTopicSubscriptionsRequest { topic: topic.into(), page_size: size, page_token: token.into() })
                .await,
        )
        .map(|r| (r.subscriptions, r.next_page_token))
    }
    pub async fn create_sub(&self, name: &str, topic: &str, ack_deadline: i32, push: Option<&str>) -> Result<SubView, Code> {
        let req = Subscription {
            name: name.into(),
            topic: topic.into(),
            ack_deadline_seconds: ack_deadline,
            // push subscriptions carry push-config attributes of their own (they are configuration of the endpoint, not
            // attributes of the messages)
            push_config: push.map(|e| PushConfig { push_endpoint: e.into(), attributes: [("x-goog-version".to_string(), "v1".to_string())].into_iter().collect(), ..Default::default() }),
            ..Default::default()
        };
        code(self.s.clone().create_subscription(req).await).map(sub_view)
    }
    pub async fn get_sub(&self, name: &str) -> Result<SubView, Code> {
        code(self.s.clone().get_subscription(GetSubscriptionRequest { subscription: name.into() }).await).map(sub_view)
    }
    pub async fn delete_sub(&self, name: &str) -> Result<(), Code> {
        code(self.s.clone().delete_subscription(DeleteSubscriptionRequest { subscription: name.into() }).await)
    }
    pub async fn list_subs(&self, project: &str, size: i32, token: &str) -> Result<(Vec<SubView>, String), Code> {
        code(
            self.s
                .clone()
                .list_subscriptions(ListSubscriptionsRequest { project: project.into(), page_size: size, page_token: token.into() })
                .await,
        )
        .map(|r| (r.subscriptions.into_iter().map(sub_view).collect(), r.next_page_token))
    }
    #[allow(deprecated)]
    pub async fn pull(&self, sub: &str, max: i32, return_immediately: bool) -> Result<Vec<Rm>, Code> {
        code(self.s.clone().pull(PullRequest { subscription: sub.into(), max_messages: max, return_immediately }).await)
            .map(|r| r.received_messages.iter().map(to_rm).collect())
    }
    pub async fn ack(&self, sub: &str, ids: Vec<String>) -> Result<(), Code> {
        code(self.s.clone().acknowledge(AcknowledgeRequest { subscription: sub.into(), ack_ids: ids }).await)
    }
    pub async fn modify(&self, sub: &str, ids: Vec<String>, secs: i32) -> Result<(), Code> {
        code(
            self.s
                .clone()
                .modify_ack_deadline(ModifyAckDeadlineRequest { subscription: sub.into(), ack_ids: ids, ack_deadline_seconds: secs })
                .await,
        )
    }
    /// Opens a StreamingPull.  The request side stays open as long as the returned sender lives.
    pub async fn streaming_pull(
        &self,
        first: StreamingPullRequest,
    ) -> (tokio::sync::mpsc::Sender<StreamingPullRequest>, Result<tonic::Streaming<StreamingPullResponse>, Code>) {
        let (tx, rx) = tokio::sync::mpsc::channel::<StreamingPullRequest>(64);
        tx.try_send(first).unwrap();
        let r = self.s.clone().streaming_pull(tokio_stream::wrappers::ReceiverStream::new(rx)).await;
        (tx, r.map(|r| r.into_inner()).map_err(|e| e.code()))
    }
}

pub fn first_stream_req(sub: &str, max_outstanding: i64) -> StreamingPullRequest {
    StreamingPullRequest {
        subscription: sub.into(),
        stream_ack_deadline_seconds: 10,
        max_outstanding_messages: max_outstanding,
        ..Default::default()
    }
}

pub struct Parts {
    pub topics: Arc<TopicManager>,
    pub subs: Arc<SubscriptionManager>,
    pub push: PushSubscriptionsRegistry,
}

#[derive(Clone)]
pub struct Ctx {
    pub sh: Sh,
    pub api: Api,
    pub parts: Arc<Parts>,
    pub app: Arc<Deltio>,
    pub t0: Instant,
    pub max_steps: usize,
}

#[derive(Clone, Debug, PartialEq, Eq)]
pub struct Stats {
    pub backlog: usize,
    pub outstanding: usize,
    pub topic: String,
}

impl Ctx {
    pub fn choose(&self, site: &'static str, n: usize) -> usize {
        self.sh.lock().unwrap().pick(Kind::Data, site, n)
    }
    pub fn step(&self) -> u64 {
        self.sh.lock().unwrap().step
    }
    pub fn now_ms(&self) -> i64 {
        (Instant::now() - self.t0).as_millis() as i64
    }
    pub fn freeze(&self, on: bool) -> bool {
        let mut s = self.sh.lock().unwrap();
        std::mem::replace(&mut s.frozen, on)
    }
    pub fn spawn<T: Send + 'static>(&self, label: &str, fut: impl Future<Output = T> + Send + 'static) -> JoinHandle<T> {
        self.sh.lock().unwrap().pending_label = Some(label.to_string());
        tokio::spawn(fut)
    }
    pub async fn quiesce(&self) -> Result<(), Verdict> {
        match run_until_quiescent(&self.sh, self.max_steps).await {
            Ok(_) => Ok(()),
            Err(e) => Err(Verdict::Violation { sig: "no-quiescence".into(), detail: format!("the server never became quiescent: {}", e) }),
        }
    }
    /// Makes a client disappear right now: its task is cancelled before it is polled again.
    pub async fn abort_now<T>(&self, h: &JoinHandle<T>) {
        h.abort();
        tokio::task::yield_now().await;
        tokio::task::yield_now().await;
    }
    /// Runs until quiescence or until task `label_prefix` has been polled `polls` times.
    pub async fn quiesce_until_polls(&self, label_prefix: &str, polls: u32) -> Result<(), Verdict> {
        let lp = label_prefix.to_string();
        let stop = move |s: &Shared| s.tasks.iter().filter(|t| t.label.starts_with(&lp)).map(|t| t.polls).sum::<u32>() >= polls;
        match run_until(&self.sh, self.max_steps, &stop).await {
            Ok(_) => Ok(()),
            Err(e) => Err(Verdict::Violation { sig: "no-quiescence".into(), detail: format!("the server never became quiescent: {}", e) }),
        }
    }
    /// Runs at most `n` further scheduler steps (fewer if the system goes quiescent first).
    pub async fn run_steps(&self, n: u32) -> Result<(), Verdict> {
        let total = |s: &Shared| s.tasks.iter().map(|t| t.polls).sum::<u32>();
        let target = total(&self.sh.lock().unwrap()) + n;
        let stop = move |s: &Shared| s.tasks.iter().map(|t| t.polls).sum::<u32>() >= target;
        match run_until(&self.sh, self.max_steps, &stop).await {
            Ok(_) => Ok(()),
            Err(e) => Err(Verdict::Violation { sig: "no-quiescence".into(), detail: format!("the server never became quiescent: {}", e) }),
        }
    }
    /// Runs until every task whose label starts with `label_prefix` has finished (or nothing is runnable) - NOT until
    /// quiescence: whatever those tasks left for others to do is still pending afterwards.
    pub async fn run_until_done(&self, label_prefix: &str) -> Result<(), Verdict> {
        let lp = label_prefix.to_string();
        let stop = move |s: &Shared| s.tasks.iter().filter(|t| t.label.starts_with(&lp)).all(|t| t.done);
        match run_until(&self.sh, self.max_steps, &stop).await {
            Ok(_) => Ok(()),
            Err(e) => Err(Verdict::Violation { sig: "no-quiescence".into(), detail: format!("the server never became quiescent: {}", e) }),
        }
    }
    /// Runs `fut` as a client task to completion under the default schedule (choices frozen).
    pub async fn settle<T: Send + 'static>(&self, label: &str, fut: impl Future<Output = T> + Send + 'static) -> Result<T, Verdict> {
        let was = self.freeze(true);
        let h = self.spawn(label, fut);
        let q = self.quiesce().await;
        self.freeze(was);
        q?;
        if !h.is_finished() {
            h.abort();
            return Err(Verdict::Violation {
                sig: format!("hang/{}", label.split('#').next().unwrap_or(label)),
                detail: format!("sequential request '{}' did not complete although the server is quiescent (t={}ms)", label, self.now_ms()),
            });
        }
        match h.await {
            Ok(v) => Ok(v),
            Err(e) => Err(Verdict::Violation { sig: format!("panic/{}", label), detail: format!("client task failed: {}", e) }),
        }
    }
    /// Like `settle`, but a task that is still pending at quiescence is aborted and reported as `None`
    /// (used for streams, which legitimately stay open).
    pub async fn settle_opt<T: Send + 'static>(&self, label: &str, fut: impl Future<Output = T> + Send + 'static) -> Result<Option<T>, Verdict> {
        let was = self.freeze(true);
        let h = self.spawn(label, fut);
        let q = self.quiesce().await;
        if !h.is_finished() {
            h.abort();
            let q2 = self.quiesce().await;
            self.freeze(was);
            q?;
            q2?;
            return Ok(None);
        }
        self.freeze(was);
        q?;
        match h.await {
            Ok(v) => Ok(Some(v)),
            Err(e) => Err(Verdict::Violation { sig: format!("panic/{}", label), detail: format!("client task failed: {}", e) }),
        }
    }
    pub async fn advance_ms(&self, ms: u64) -> Result<(), Verdict> {
        if ms > 0 {
            tokio::time::advance(Duration::from_millis(ms)).await;
        }
        self.quiesce().await
    }
    /// Advances in `quantum` steps until `done()` or `total` ms have passed.
    pub async fn advance_until(&self, total_ms: u64, quantum_ms: u64, done: impl Fn() -> bool) -> Result<(), Verdict> {
        let mut passed = 0;
        while passed < total_ms && !done() {
            self.advance_ms(quantum_ms).await?;
            passed += quantum_ms;
        }
        Ok(())
    }
    pub async fn advance_to_ms(&self, t_ms: i64) -> Result<(), Verdict> {
        let now = (Instant::now() - self.t0).as_micros() as i64;
        let target = t_ms * 1000;
        if target > now {
            tokio::time::advance(Duration::from_micros((target - now) as u64)).await;
        }
        self.quiesce().await
    }
    /// Internal state of a subscription (None if the manager does not know the name).
    pub async fn stats(&self, sub: &str) -> Result<Option<Stats>, Verdict> {
        let name = SubscriptionName::try_parse(sub).expect("harness uses valid names");
        let Ok(s) = self.parts.subs.get_subscription(&name) else { return Ok(None) };
        let r = self.settle("probe:stats", async move { s.get_stats().await }).await?;
        Ok(r.ok().map(|st| Stats { backlog: st.backlog_messages_count, outstanding: st.outstanding_messages_count, topic: st.topic_name.to_string() }))
    }
    pub fn push_log(&self) -> Vec<PushAttempt> {
        self.sh.lock().unwrap().push_log.clone()
    }
    pub fn set_push_menu(&self, menu: Vec<PushAnswer>) {
        self.sh.lock().unwrap().push_menu = menu;
    }
    pub fn runnable_labels(&self) -> Vec<String> {
        let s = self.sh.lock().unwrap();
        s.runnable_sorted().into_iter().map(|i| s.tasks[i].label.clone()).collect()
    }
    pub fn pending_tasks(&self) -> Vec<String> {
        let s = self.sh.lock().unwrap();
        s.tasks.iter().filter(|t| !t.done).map(|t| t.label.clone()).collect()
    }
    pub fn polls_of(&self, label_prefix: &str) -> u32 {
        let s = self.sh.lock().unwrap();
        s.tasks.iter().filter(|t| t.label.starts_with(label_prefix)).map(|t| t.polls).sum()
    }
}

#[derive(Clone, Debug)]
pub struct ExecCfg {
    /// (topic mailbox, subscription mailbox) capacity; 0 = the shipped constant
    pub caps: (usize, usize),
    /// phase of t0 on the server's 100 ms deadline grid, in µs
    pub phase_us: u64,
    pub points_on: bool,
    /// offer the 'stall here while everybody else runs' alternative at every point
    pub stalls_on: bool,
    /// offer 'set the next task aside until nothing else is runnable' at every scheduling decision
    pub postpone_on: bool,
    pub max_steps: usize,
    /// run the push loop with this interval
    pub push_interval_ms: Option<u64>,
    /// if non-empty, the phase (µs) is a data choice among these values (overrides `phase_us`)
    pub phase_choices: Vec<u64>,
    /// if non-empty: how long the server process has been up (ms of virtual time since the deadline epoch) before the
    /// scenario starts - a data choice among these values
    pub uptime_choices_ms: Vec<u64>,
}

impl Default for ExecCfg {
    fn default() -> Self {
        ExecCfg { caps: (0, 0), phase_us: 0, points_on: true, stalls_on: true, postpone_on: true, max_steps: 20_000, push_interval_ms: None, phase_choices: vec![], uptime_choices_ms: vec![] }
    }
}

pub struct ScenarioOut {
    pub verdict: Verdict,
    pub model_states: Vec<u64>,
    pub validated: bool,
    pub sample: Option<String>,
}

impl ScenarioOut {
    pub fn ok(key: impl Into<String>) -> Self {
        ScenarioOut { verdict: Verdict::Ok(key.into()), model_states: vec![], validated: true, sample: None }
    }
    pub fn from(v: Verdict) -> Self {
        ScenarioOut { verdict: v, model_states: vec![], validated: true, sample: None }
    }
    pub fn viol(sig: impl Into<String>, detail: impl Into<String>) -> Self {
        Self::from(Verdict::Violation { sig: sig.into(), detail: detail.into() })
    }
}

/// The instant at which the process-wide time line starts (= the server's rounding epoch).
pub static PROCESS_BASE: std::sync::OnceLock<std::time::Instant> = std::sync::OnceLock::new();
/// Every execution's runtime starts this long after `PROCESS_BASE`.
pub const EXEC_OFFSET_US: u64 = 500;

/// Measures the phase (µs) of the current instant on the server's deadline grid through the public API.
pub fn grid_phase_us() -> u64 {
    let now = Instant::now();
    (AckDeadline::new(&now).time() - now).as_micros() as u64
}

/// Must be called once per process before any worker thread runs an execution: pins the server's lazily
/// initialised rounding epoch to an instant that precedes every later runtime.
pub fn init_process() {
    // One time line for the whole process: every runtime (this one and the one of every execution) starts, paused, at a
    // pinned instant (tokio patch: `verif_hook::set_clock_base`).  The server's epoch is the start of this first
    // runtime; executions start exactly 500 us later, so that the offset between the server's rounding epoch and a
    // runtime's 1 ms timer grid is the same - and generic, i.e. not 0 - in every execution, whatever the rounding is.
    let base = std::time::Instant::now();
    let _ = PROCESS_BASE.set(base);
    tokio::verif_hook::set_clock_base(Some(base));
    let rt = tokio::runtime::Builder::new_current_thread().enable_time().start_paused(true).build().unwrap();
    rt.block_on(async {
        let _ = grid_phase_us();
    });
    tokio::verif_hook::set_clock_base(None);
    let prev = std::panic::take_hook();
    std::panic::set_hook(Box::new(move |info| {
        let msg = format!("{}", info);
        // non-unwinding panics (unsafe precondition checks, panics in no-unwind contexts) abort the process
        // right after this hook returns: report the execution first.  (`can_unwind` is not stable yet.)
        let aborts = msg.contains("unsafe precondition(s) violated") || msg.contains("cannot unwind") || msg.contains("during cleanup");
        if aborts {
            crate::report::abort_report(&msg);
        }
        LAST_PANIC.with(|l| *l.borrow_mut() = Some(msg));
        if QUIET_PANICS.with(|q| q.get()) && std::env::var("VERIF_LOUD").is_err() {
            return;
        }
        prev(info);
    }));
}

thread_local! {
    pub static LAST_PANIC: std::cell::RefCell<Option<String>> = const { std::cell::RefCell::new(None) };
    pub static QUIET_PANICS: std::cell::Cell<bool> = const { std::cell::Cell::new(false) };
    /// description of the execution this thread is running (for abort reports)
    pub static CURRENT_EXEC: std::cell::RefCell<Option<(String, Vec<u32>)>> = const { std::cell::RefCell::new(None) };
}

pub fn run_exec<F, Fut>(prefix: &[u32], cfg: &ExecCfg, scenario: F) -> ExecResult
where
    F: FnOnce(Ctx) -> Fut,
    Fut: Future<Output = ScenarioOut>,
{
    let shared: Sh = Arc::new(Mutex::new(Shared::new(prefix.to_vec(), cfg.caps)));
    shared.lock().unwrap().points_on = cfg.points_on;
    shared.lock().unwrap().stalls_on = cfg.stalls_on;
    shared.lock().unwrap().postpone_on = cfg.postpone_on;
    let want = if cfg.phase_choices.is_empty() {
        cfg.phase_us % 100_000
    } else {
        let k = shared.lock().unwrap().pick(Kind::Data, "phase", cfg.phase_choices.len());
        cfg.phase_choices[k] % 100_000
    };
    // A runtime's 1 ms timer grid is anchored at the instant the runtime starts, the server's deadline rounding at a
    // process-wide epoch.  Left to the wall clock their offset would be random, and executions would only be
    // reproducible for roundings the harness knows.  Both are pinned instead (see `init_process`).
    let (rt, delta) = {
        let base = *PROCESS_BASE.get().expect("init_process was not called");
        tokio::verif_hook::set_clock_base(Some(base + Duration::from_micros(EXEC_OFFSET_US)));
        let rt = tokio::runtime::Builder::new_current_thread().enable_time().start_paused(true).build().unwrap();
        tokio::verif_hook::set_clock_base(None);
        // the runtime starts EXEC_OFFSET_US after the server's epoch; t0 is to be `want` us into a 100 ms period
        let delta = (want + 100_000 - EXEC_OFFSET_US % 100_000) % 100_000;
        (rt, delta)
    };
    deltio::verif::install(Some(Arc::new(Ctl(shared.clone()))));
    tokio::verif_hook::set_controller(Some(Arc::new(Ctl(shared.clone()))));
    CUR.with(|c| *c.borrow_mut() = Some(shared.clone()));
    tokio::verif_hook::set_chooser(Some(tokio_chooser));
    QUIET_PANICS.with(|q| q.set(true));
    let out = rt.block_on(tokio::task::unconstrained(async {
        // server uptime: whole multiples of 100 ms, so that the phase alignment below is preserved
        if !cfg.uptime_choices_ms.is_empty() {
            let k = shared.lock().unwrap().pick(Kind::Data, "uptime", cfg.uptime_choices_ms.len());
            let up = cfg.uptime_choices_ms[k] / 100 * 100;
            if up > 0 {
                tokio::time::advance(Duration::from_millis(up)).await;
            }
        }
        // align t0 with the requested phase of the 100 ms grid
        tokio::time::advance(Duration::from_micros(delta)).await;
        // (If the server's rounding is not the 100 ms grid the alignment assumes - a changed precision, say - the
        // phase is simply whatever it is: the oracles do not depend on it, they only allow the stated slack.)
        let t0 = Instant::now();
        shared.lock().unwrap().t0 = Some(t0);
        let app = Arc::new(Deltio::new());
        let svc = app.server_builder().into_service();
        let api = Api { p: PublisherClient::new(svc.clone()).max_decoding_message_size(1 << 30), s: SubscriberClient::new(svc).max_decoding_message_size(1 << 30) };
        let (topics, subs, push) = app.verif_parts();
        let ctx = Ctx { sh: shared.clone(), api, parts: Arc::new(Parts { topics, subs, push }), app: app.clone(), t0, max_steps: cfg.max_steps };
        if let Some(iv) = cfg.push_interval_ms {
            let pl = app.push_loop(Duration::from_millis(iv));
            let was = ctx.freeze(true);
            ctx.spawn("push-loop", pl.run());
            let _ = ctx.quiesce().await;
            ctx.freeze(was);
        }
        scenario(ctx).await
    }));
    QUIET_PANICS.with(|q| q.set(false));
    deltio::verif::install(None);
    tokio::verif_hook::set_controller(None);
    tokio::verif_hook::set_chooser(None);
    CUR.with(|c| *c.borrow_mut() = None);
    drop(rt);
    let mut s = shared.lock().unwrap();
    let mut verdict = out.verdict;
    if !s.panics.is_empty() {
        let who = s.panics[0].split('#').next().unwrap_or("").to_string();
        verdict = Verdict::Violation { sig: format!("panic/{}", who), detail: format!("a server or client step panicked: {:?}", s.panics) };
    }
    if let Some(d) = &s.diverged {
        verdict = Verdict::Machinery(d.clone());
    }
    let trace = s.trace_strings();
    let lock_edges: Vec<(String, bool, String, bool)> = s.lock_edges.iter().cloned().collect();
    let points = std::mem::take(&mut s.points);
    let steps = s.step;
    // drop remaining task futures outside the lock
    let tasks = std::mem::take(&mut s.tasks);
    drop(s);
    drop(tasks);
    ExecResult { points, verdict, steps, trace, model_states: out.model_states, validated: out.validated, sample: out.sample, lock_edges }
}
