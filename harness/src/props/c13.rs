//! C13 Listing and pagination enumerate exactly the project's resources.
use crate::explore::*;
use crate::report::Unit;
use crate::scen::*;
use crate::world::*;
use crate::{scen, tryv};
use base64::Engine;

#[derive(Clone, Copy, Debug, PartialEq)]
enum Rpc {
    Topics,
    Subs,
    TopicSubs,
}

const RPCS: [Rpc; 3] = [Rpc::Topics, Rpc::Subs, Rpc::TopicSubs];

fn tname(project: &str, i: usize) -> String {
    format!("projects/{}/topics/t{:04}", project, i)
}
fn sname(project: &str, i: usize) -> String {
    format!("projects/{}/subscriptions/s{:04}", project, i)
}

/// Builds a world with `n` resources of the listed kind in scope (project p / topic A), optionally interleaved
/// with out-of-scope ones, applies the pre-history, and returns the expected listing (creation order).
async fn build(cx: &Ctx, rpc: Rpc, n: usize, mixed: bool, hist: usize) -> Result<Vec<String>, Verdict> {
    let a = cx.api.clone();
    let fail = |what: &str, c: Code| Verdict::Violation { sig: format!("setup/{}", what), detail: format!("{} failed with {:?}", what, c) };
    let mut expect: Vec<String> = vec![];
    let topic_a = "projects/p/topics/scope-a".to_string();
    let topic_b = "projects/p/topics/scope-b".to_string();
    let topic_q = "projects/q/topics/scope-q".to_string();
    if rpc != Rpc::Topics {
        for t in [&topic_a, &topic_b, &topic_q] {
            let (a2, t2) = (a.clone(), t.clone());
            cx.settle("setup:create-topic", async move { a2.create_topic(&t2).await }).await?.map_err(|c| fail("create-topic", c))?;
        }
    }
    for i in 0..n {
        match rpc {
            Rpc::Topics => {
                let name = tname("p", i);
                let (a2, n2) = (a.clone(), name.clone());
                cx.settle("setup:create-topic", async move { a2.create_topic(&n2).await }).await?.map_err(|c| fail("create-topic", c))?;
                expect.push(name);
                if mixed {
                    let (a2, n2) = (a.clone(), tname("q", i));
                    cx.settle("setup:create-topic", async move { a2.create_topic(&n2).await }).await?.map_err(|c| fail("create-topic", c))?;
                }
            }
            Rpc::Subs | Rpc::TopicSubs => {
                let name = sname("p", i);
                let (a2, n2, t2) = (a.clone(), name.clone(), topic_a.clone());
                cx.settle("setup:create-sub", async move { a2.create_sub(&n2, &t2, 10, None).await }).await?.map_err(|c| fail("create-sub", c))?;
                expect.push(name);
                if mixed {
                    // out of scope: other project (for ListSubscriptions) resp. other topic (for ListTopicSubscriptions)
                    let (other_name, other_topic) = if rpc == Rpc::Subs { (sname("q", i), topic_q.clone()) } else { (format!("projects/p/subscriptions/other{:04}", i), topic_b.clone()) };
                    let a2 = a.clone();
                    cx.settle("setup:create-sub", async move { a2.create_sub(&other_name, &other_topic, 10, None).await }).await?.map_err(|c| fail("create-sub", c))?;
                }
            }
        }
    }
    // pre-history: 0 none, 1 delete first, 2 delete middle, 3 delete second + re-create (moves to the end)
    let del = |name: String| {
        let a2 = a.clone();
        let is_topic = rpc == Rpc::Topics;
        async move {
            if is_topic {
                a2.delete_topic(&name).await
            } else {
                a2.delete_sub(&name).await
            }
        }
    };
    if n > 0 {
        match hist {
            1 => {
                let name = expect.remove(0);
                cx.settle("setup:delete", del(name)).await?.map_err(|c| fail("delete", c))?;
            }
            2 => {
                let name = expect.remove(n / 2);
                cx.settle("setup:delete", del(name)).await?.map_err(|c| fail("delete", c))?;
            }
            3 => {
                let idx = if n > 1 { 1 } else { 0 };
                let name = expect.remove(idx);
                cx.settle("setup:delete", del(name.clone())).await?.map_err(|c| fail("delete", c))?;
                let (a2, n2, t2) = (a.clone(), name.clone(), topic_a.clone());
                if rpc == Rpc::Topics {
                    cx.settle("setup:create-topic", async move { a2.create_topic(&n2).await }).await?.map_err(|c| fail("re-create", c))?;
                } else {
                    cx.settle("setup:create-sub", async move { a2.create_sub(&n2, &t2, 10, None).await }).await?.map_err(|c| fail("re-create", c))?;
                }
                expect.push(name);
            }
            4 => {
                // rejected requests before the walk: duplicate creates (naming another topic where that is possible) change nothing
                for name in expect.iter().take(3) {
                    let (a2, n2) = (a.clone(), name.clone());
                    let is_topic = rpc == Rpc::Topics;
                    let other_topic = topic_b.clone();
                    let r = cx
                        .settle("setup:duplicate-create", async move {
                            if is_topic {
                                a2.create_topic(&n2).await.map(|_| ())
                            } else {
                                a2.create_sub(&n2, &other_topic, 10, None).await.map(|_| ())
                            }
                        })
                        .await?;
                    if r != Err(Code::AlreadyExists) {
                        return Err(Verdict::Violation { sig: "setup/duplicate-create-not-rejected".into(), detail: format!("duplicate create of {} returned {:?}", name, r) });
                    }
                }
            }
            _ => {}
        }
    }
    Ok(expect)
}

async fn list_page(cx: &Ctx, rpc: Rpc, size: i32, token: String) -> Result<Result<(Vec<String>, String), Code>, Verdict> {
    let a = cx.api.clone();
    cx.settle("client:list", async move {
        match rpc {
            Rpc::Topics => a.list_topics("projects/p", size, &token).await,
            Rpc::Subs => a.list_subs("projects/p", size, &token).await.map(|(v, t)| (v.into_iter().map(|s| s.name).collect(), t)),
            Rpc::TopicSubs => a.list_topic_subs("projects/p/topics/scope-a", size, &token).await,
        }
    })
    .await
}

fn eff_size(size: i32) -> usize {
    match size {
        0 => 20,
        s if s > 1000 => 1000,
        s => s as usize,
    }
}

fn walk_unit(name: &str, ns: Vec<usize>, hists: Vec<usize>, mixes: Vec<bool>) -> Unit {
    let desc = format!("first page to empty token for all three List RPCs x resource counts {:?} x page sizes {{MIN,-1,0,1,N-1,N,N+1,1000,1001,MAX}} x project/topic mixes x pre-histories {:?}", ns, hists);
    let f: ScenFn = scen!([ns, hists, mixes] |cx| {
        let rpc = RPCS[cx.choose("rpc", 3)];
        let n = ns[cx.choose("count", ns.len())];
        let sizes: Vec<i32> = {
            let mut v = vec![i32::MIN, -1, 0, 1, n as i32 - 1, n as i32, n as i32 + 1, 1000, 1001, i32::MAX];
            v.sort();
            v.dedup();
            v
        };
        let size = sizes[cx.choose("page-size", sizes.len())];
        let mixed = mixes[cx.choose("mix", mixes.len())];
        let hist = hists[cx.choose("history", hists.len())];
        let expect = tryv!(build(&cx, rpc, n, mixed, hist).await);
        let case = format!("{:?} n={} size={} mixed={} hist={}", rpc, n, size, mixed, hist);
        let mut all: Vec<String> = vec![];
        let mut token = String::new();
        let mut pages = 0;
        loop {
            let r = tryv!(list_page(&cx, rpc, size, token.clone()).await);
            match r {
                Err(c) => {
                    if size < 0 && c == Code::InvalidArgument {
                        return ScenarioOut { sample: Some(case), ..ScenarioOut::ok("negative-size:INVALID_ARGUMENT") };
                    }
                    return ScenarioOut::viol("walk/error", format!("{}: page {} failed with {:?}", case, pages, c));
                }
                Ok((items, next)) => {
                    if size < 0 {
                        return ScenarioOut::viol("walk/negative-size-accepted", format!("{}: a negative page size was accepted", case));
                    }
                    if items.len() > eff_size(size) {
                        return ScenarioOut::viol("walk/page-over-size", format!("{}: page {} has {} items, effective size {}", case, pages, items.len(), eff_size(size)));
                    }
                    all.extend(items);
                    pages += 1;
                    if next.is_empty() {
                        break;
                    }
                    if pages > expect.len() + 3 {
                        return ScenarioOut::viol("walk/endless", format!("{}: more than {} pages", case, pages));
                    }
                    token = next;
                }
            }
        }
        if rpc == Rpc::TopicSubs {
            // nothing of topic A's may show up under topic B
            let a2 = cx.api.clone();
            let other = tryv!(cx.settle("client:list-other", async move { a2.list_topic_subs("projects/p/topics/scope-b", 1000, "").await }).await);
            if let Ok((items, _)) = other {
                if let Some(x) = items.iter().find(|x| expect.contains(x)) {
                    return ScenarioOut::viol("walk/foreign-or-deleted-resource", format!("{}: ListTopicSubscriptions of the other topic contains {}", case, x));
                }
            }
        }
        if all != expect {
            let what = if all.iter().any(|x| !expect.contains(x)) { "walk/foreign-or-deleted-resource" } else if all.len() != expect.len() { "walk/missing-or-duplicate" } else { "walk/wrong-order" };
            return ScenarioOut::viol(what, format!("{}: listed {} items {:?}..., expected {} items {:?}...", case, all.len(), all.iter().take(8).collect::<Vec<_>>(), expect.len(), expect.iter().take(8).collect::<Vec<_>>()));
        }
        ScenarioOut { sample: Some(case), ..ScenarioOut::ok(format!("walk-ok pages={}", pages.min(9))) }
    });
    explore_unit(format!("input/{}", name), desc, Bounds::new(0), ExecCfg { points_on: false, max_steps: 200_000, ..Default::default() }, f)
}

fn b64(bytes: &[u8]) -> String {
    base64::engine::general_purpose::STANDARD.encode(bytes)
}

fn token_set() -> Vec<String> {
    let mut v: Vec<String> = vec![];
    // all byte strings of length 0..9 over {00, 01, ff}
    let mut last: Vec<Vec<u8>> = vec![vec![]];
    for _ in 0..9 {
        let mut next = vec![];
        for w in &last {
            for b in [0x00u8, 0x01, 0xff] {
                let mut x = w.clone();
                x.push(b);
                next.push(x);
            }
        }
        for w in &next {
            v.push(b64(w));
        }
        last = next;
    }
    // all strings of length 1..3 over {A, =, !, -}
    let al = ["A", "=", "!", "-"];
    let mut lastw = vec![String::new()];
    for _ in 0..3 {
        let mut next = vec![];
        for w in &lastw {
            for c in al {
                next.push(format!("{}{}", w, c));
            }
        }
        v.extend(next.iter().cloned());
        lastw = next;
    }
    // offsets around the resource count and around the integer limits, in the server's own token format
    for off in [0u64, 1, 2, 3, 4, 5, 6, 7, 19, 20, 21, 1000, u32::MAX as u64, i64::MAX as u64, u64::MAX - 1, u64::MAX] {
        v.push(b64(&off.to_ne_bytes()));
        v.push(b64(&off.to_be_bytes()));
    }
    v.extend(["AAAAAAAAAAA", "AAAAAAAAAAA=", "AAAAAAAAAA==", "AAAAAAAAAAAA", "AQAAAAAAAAA=\n", " AQAAAAAAAAA=", "é", "AQAAAAAAAAA", "%41"].iter().map(|s| s.to_string()));
    v.sort();
    v.dedup();
    v
}

fn surely_undecodable(t: &str) -> bool {
    // not even base64 (with or without padding) => no decoder can accept it
    let core = t.trim_end_matches('=');
    t.is_empty() == false && (core.chars().any(|c| !(c.is_ascii_alphanumeric() || c == '+' || c == '/')) || core.len() % 4 == 1)
}

const CHUNK: usize = 128;

fn token_unit() -> Unit {
    let tokens = token_set();
    let chunks = tokens.len().div_ceil(CHUNK);
    let desc = format!("{} page tokens (all byte strings of length<=9 over {{00,01,ff}} base64-encoded, all strings<=3 over {{A,=,!,-}}, issued tokens shifted, limits) against 5 resources: INVALID_ARGUMENT or a valid (possibly empty) slice of the listing; non-base64 must be INVALID_ARGUMENT", tokens.len());
    let f: ScenFn = scen!([tokens] |cx| {
        let rpc = RPCS[cx.choose("rpc", 3)];
        let chunk = cx.choose("token-chunk", chunks);
        let size = [2, 0][cx.choose("page-size", 2)];
        let expect = tryv!(build(&cx, rpc, 5, true, 3).await);
        // tokens the server really issues, shifted by +-1 (in whatever format they have, if it is 8 bytes)
        let mut mine: Vec<String> = tokens[chunk * CHUNK..((chunk + 1) * CHUNK).min(tokens.len())].to_vec();
        if chunk == 0 {
            let mut token = String::new();
            for _ in 0..4 {
                match tryv!(list_page(&cx, rpc, 2, token.clone()).await) {
                    Ok((_, next)) if !next.is_empty() => {
                        if let Ok(bytes) = base64::engine::general_purpose::STANDARD.decode(&next) {
                            if bytes.len() == 8 {
                                let v = u64::from_ne_bytes(bytes.clone().try_into().unwrap());
                                mine.push(b64(&v.wrapping_add(1).to_ne_bytes()));
                                mine.push(b64(&v.wrapping_sub(1).to_ne_bytes()));
                            }
                        }
                        mine.push(next.clone());
                        token = next;
                    }
                    _ => break,
                }
            }
        }
        let mut kinds = std::collections::BTreeSet::new();
        for t in mine {
            let r = tryv!(list_page(&cx, rpc, size, t.clone()).await);
            match r {
                Err(Code::InvalidArgument) => {
                    kinds.insert("rejected");
                }
                Err(c) => return ScenarioOut::viol("token/other-error", format!("{:?} token {:?}: {:?}", rpc, t, c)),
                Ok((items, next)) => {
                    if surely_undecodable(&t) {
                        return ScenarioOut::viol("token/undecodable-accepted", format!("{:?}: token {:?} is not base64 but was accepted", rpc, t));
                    }
                    if items.len() > eff_size(size) {
                        return ScenarioOut::viol("token/page-over-size", format!("{:?} token {:?}: {} items", rpc, t, items.len()));
                    }
                    // must be a contiguous slice of the listing
                    let ok = if items.is_empty() { true } else { expect.windows(items.len()).any(|w| w == items.as_slice()) };
                    if !ok {
                        return ScenarioOut::viol("token/invalid-page", format!("{:?} token {:?}: page {:?} is not a slice of {:?}", rpc, t, items, expect));
                    }
                    if items.is_empty() && !next.is_empty() {
                        return ScenarioOut::viol("token/empty-page-with-next", format!("{:?} token {:?}: empty page but next token {:?}", rpc, t, next));
                    }
                    kinds.insert(if items.is_empty() { "empty-page" } else { "page" });
                }
            }
        }
        ScenarioOut { sample: Some(format!("{:?} chunk {} size {}", rpc, chunk, size)), ..ScenarioOut::ok(format!("{:?}", kinds)) }
    });
    explore_unit("input/tokens", desc, Bounds::new(0), ExecCfg { points_on: false, max_steps: 200_000, ..Default::default() }, f)
}

pub fn units(thorough: bool) -> Vec<Unit> {
    let mut v = vec![];
    let small: Vec<usize> = if thorough { (0..=24).collect() } else { (0..=6).collect() };
    v.push(walk_unit("walk-small", small, vec![0, 1, 2, 3, 4], vec![false, true]));
    v.push(walk_unit("walk-default-size", vec![19, 20, 21, 41], vec![0, 2], vec![false, true]));
    v.push(walk_unit("walk-max-size", if thorough { vec![247, 248, 256, 999, 1000, 1001, 2001, 3000] } else { vec![1001] }, vec![0, 2], if thorough { vec![false, true] } else { vec![false] }));
    v.push(token_unit());
    v
}
