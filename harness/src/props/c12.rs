//! C12 Deleting a subscription releases the consumers waiting on it.
use crate::explore::*;
use crate::report::Unit;
use crate::scen::*;
use crate::world::*;
use crate::{must, scen, tryv};
use deltio::pubsub_proto::StreamingPullRequest;
use std::sync::{Arc, Mutex};

#[derive(Clone, Copy, Debug, PartialEq)]
pub enum Cons {
    StreamOpen,
    StreamClosed,
    BlockedPull,
    Ack,
    Modify,
    PullNow,
    /// an ack sent as a control message on an already open stream
    StreamCtlAck,
    /// a stream opened with a tiny max_outstanding_bytes budget (request side open)
    StreamTinyBudget,
    /// DeleteTopic of the subscription's topic, racing with the DeleteSubscription
    DeleteTopicRace,
    /// a Publish on the subscription's topic racing with the DeleteSubscription (it wakes the waiting consumers)
    PublishRace,
}

pub type Holder = Arc<Mutex<Vec<tokio::sync::mpsc::Sender<StreamingPullRequest>>>>;

/// A StreamingPull consumer: logs `msgs:<ids>` per response and `end:<status>` when the stream terminates.
pub async fn stream_client(cx: Ctx, log: Log, who: String, sub: String, keep_open: bool, max_outstanding: i64, holder: Holder) {
    stream_client_x(cx, log, who, sub, keep_open, max_outstanding, 0, holder).await
}

#[allow(clippy::too_many_arguments)]
pub async fn stream_client_x(cx: Ctx, log: Log, who: String, sub: String, keep_open: bool, max_outstanding: i64, max_bytes: i64, holder: Holder) {
    let mut first = first_stream_req(&sub, max_outstanding);
    first.max_outstanding_bytes = max_bytes;
    let (tx, r) = cx.api.streaming_pull(first).await;
    if keep_open {
        holder.lock().unwrap().push(tx);
    } else {
        drop(tx);
    }
    match r {
        Err(c) => log.push(&cx, &who, format!("end:{:?}", c)),
        Ok(mut st) => {
            log.push(&cx, &who, "open");
            loop {
                match st.message().await {
                    Ok(Some(m)) => {
                        let ids: Vec<String> = m.received_messages.iter().map(|r| format!("{}@{}", to_rm(r).msg_id, r.ack_id)).collect();
                        log.push(&cx, &who, format!("msgs:{}", ids.join("+")));
                    }
                    Ok(None) => {
                        log.push(&cx, &who, "end:EOF-without-status");
                        break;
                    }
                    Err(e) => {
                        log.push(&cx, &who, format!("end:{:?}", e.code()));
                        break;
                    }
                }
            }
        }
    }
}

fn program(name: &'static str, parked: Vec<Cons>, racing: Vec<Cons>, with_outstanding: bool) -> ScenFn {
    program_x(name, parked, racing, with_outstanding, false, false)
}

/// `topic_first`: the topic is deleted (sequentially) before the subscription; `abandon`: the DeleteSubscription caller
/// goes away after k polls (data choice) - if the subscription ends up deleted, the consumers must still be released.
fn program_x(name: &'static str, parked: Vec<Cons>, racing: Vec<Cons>, with_outstanding: bool, topic_first: bool, abandon: bool) -> ScenFn {
    scen!([parked, racing] |cx| {
        let log = Log::default();
        let holder: Holder = Default::default();
        must!(cx, "setup:create-topic", { let a = cx.api.clone(); async move { a.create_topic(T0).await } });
        must!(cx, "setup:create-sub", { let a = cx.api.clone(); async move { a.create_sub(S0, T0, 10, None).await } });
        let mut ack_id = "1".to_string();
        if with_outstanding {
            must!(cx, "setup:publish", { let a = cx.api.clone(); async move { a.publish(T0, vec![(b"m".to_vec(), vec![])]).await } });
            let got = must!(cx, "setup:pull", { let a = cx.api.clone(); async move { a.pull(S0, 1, true).await } });
            if got.len() != 1 {
                return ScenarioOut::viol("setup/pull", "setup pull did not return the published message");
            }
            ack_id = got[0].ack_id.clone();
        }
        let mut handles: Vec<(String, Cons, bool, tokio::task::JoinHandle<()>)> = vec![];
        let start = |c: Cons, i: usize, parked: bool| {
            let who = format!("{}{}", match c { Cons::StreamOpen => "stream-open", Cons::StreamClosed => "stream-closed", Cons::BlockedPull => "blocked-pull", Cons::Ack => "ack", Cons::Modify => "modify", Cons::PullNow => "pull-now", Cons::StreamCtlAck => "stream-ctl-ack", Cons::StreamTinyBudget => "stream-tiny-budget", Cons::DeleteTopicRace => "delete-topic", Cons::PublishRace => "publish" }, i);
            let (cx2, log2, who2, holder2, ack_id2) = (cx.clone(), log.clone(), who.clone(), holder.clone(), ack_id.clone());
            let label = format!("client:a-{}", who);
            let h = match c {
                Cons::StreamOpen => cx.spawn(&label, stream_client(cx2, log2, who2, S0.into(), true, 10, holder2)),
                Cons::StreamTinyBudget => cx.spawn(&label, stream_client_x(cx2, log2, who2, S0.into(), true, 10, 8, holder2)),
                Cons::StreamClosed => cx.spawn(&label, stream_client(cx2, log2, who2, S0.into(), false, 10, holder2)),
                Cons::BlockedPull => cx.spawn(&label, async move {
                    let r = cx2.api.pull(S0, 10, false).await;
                    log2.push(&cx2, &who2, match &r { Ok(v) => format!("ret:OK({})", v.len()), Err(c) => format!("ret:{:?}", c) });
                }),
                Cons::Ack => cx.spawn(&label, async move {
                    let r = cx2.api.ack(S0, vec![ack_id2]).await;
                    log2.push(&cx2, &who2, format!("ret:{}", res(&r)));
                }),
                Cons::Modify => cx.spawn(&label, async move {
                    let r = cx2.api.modify(S0, vec![ack_id2], 30).await;
                    log2.push(&cx2, &who2, format!("ret:{}", res(&r)));
                }),
                Cons::PullNow => cx.spawn(&label, async move {
                    let r = cx2.api.pull(S0, 10, true).await;
                    log2.push(&cx2, &who2, match &r { Ok(v) => format!("ret:OK({})", v.len()), Err(c) => format!("ret:{:?}", c) });
                }),
                Cons::DeleteTopicRace => cx.spawn(&label, async move {
                    let r = cx2.api.delete_topic(T0).await;
                    log2.push(&cx2, &who2, format!("ret:{}", res(&r)));
                }),
                Cons::PublishRace => cx.spawn(&label, async move {
                    let r = cx2.api.publish(T0, vec![(b"racing".to_vec(), vec![])]).await;
                    log2.push(&cx2, &who2, format!("ret:{}", res(&r.map(|_| ()))));
                }),
                Cons::StreamCtlAck => cx.spawn(&label, async move {
                    let tx = holder2.lock().unwrap().first().cloned();
                    if let Some(tx) = tx {
                        let r = tx.send(StreamingPullRequest { ack_ids: vec![ack_id2], ..Default::default() }).await;
                        log2.push(&cx2, &who2, format!("sent:{}", r.is_ok()));
                    } else {
                        log2.push(&cx2, &who2, "sent:no-stream");
                    }
                }),
            };
            (who, c, parked, h)
        };
        // consumers that are already waiting when the deletion starts
        let was = cx.freeze(true);
        for (i, c) in parked.iter().enumerate() {
            handles.push(start(*c, i, true));
        }
        tryv!(cx.quiesce().await);
        cx.freeze(was);
        if parked.contains(&Cons::StreamTinyBudget) {
            // the stream gets more un-acked payload than its byte budget, and one more wake-up after that
            for i in 0..2 {
                must!(cx, "setup:publish-big", { let a = cx.api.clone(); async move { a.publish(T0, vec![(format!("sixteen-bytes-{:02}", i).into_bytes(), vec![])]).await } });
            }
        }
        for (who, _, _, h) in &handles {
            if h.is_finished() {
                return ScenarioOut::viol(format!("{}/setup-consumer-returned-early", name), format!("{} finished before the deletion: {}", who, log.key()));
            }
        }
        // requests racing with the deletion
        for (i, c) in racing.iter().enumerate() {
            handles.push(start(*c, i, false));
        }
        if topic_first {
            must!(cx, "client:delete-topic", { let a = cx.api.clone(); async move { a.delete_topic(T0).await } });
        }
        let (cx2, log2) = (cx.clone(), log.clone());
        let del = cx.spawn("client:b-delete", async move {
            let r = cx2.api.delete_sub(S0).await;
            log2.push(&cx2, "delete", format!("ret:{}", res(&r)));
        });
        let mut abandoned = false;
        if abandon {
            let k = cx.choose("abandon-delete-after-polls", 5);
            if k < 4 {
                tryv!(cx.quiesce_until_polls("client:b-delete", k as u32).await);
                if !del.is_finished() {
                    cx.abort_now(&del).await;
                    abandoned = true;
                }
            }
        }
        tryv!(cx.quiesce().await);
        tryv!(cx.advance_ms(1000).await);
        let mut problems: Vec<(String, String)> = vec![];
        if abandoned {
            // the request either took effect or it did not; only in the first case is anybody to be released
            let gone = tryv!(cx.settle("probe:get-sub", { let a = cx.api.clone(); async move { a.get_sub(S0).await } }).await).is_err();
            if !gone {
                holder.lock().unwrap().clear();
                return ScenarioOut::ok(format!("abandoned-delete had no effect: {}", log.key_per_client()));
            }
        } else if !del.is_finished() {
            problems.push(("delete/hang".into(), "DeleteSubscription has not returned one second after all activity ceased".into()));
        } else if log.last_of("delete").map(|e| e.what) != Some("ret:OK".into()) {
            problems.push(("delete/not-ok".into(), format!("the only DeleteSubscription returned {:?}", log.last_of("delete").map(|e| e.what))));
        }
        let late: Vec<bool> = handles.iter().map(|(_, _, _, h)| !h.is_finished()).collect();
        // let every server-side wait limit elapse to tell a stall from a hang
        tryv!(cx.advance_ms(301_000).await);
        tryv!(cx.advance_ms(3_600_000).await);
        for (i, (who, c, was_parked, h)) in handles.iter().enumerate() {
            let kind = who.trim_end_matches(|ch: char| ch.is_ascii_digit());
            let last = log.last_of(who).map(|e| e.what).unwrap_or_default();
            if !h.is_finished() {
                problems.push((format!("{}/hang", kind), format!("{} never terminated (last event '{}'); history: {}", who, last, log.key())));
                continue;
            }
            if late[i] {
                problems.push((format!("{}/stall-until-wait-limit", kind), format!("{} was still waiting 1 s after the deletion completed and only ended with '{}' after the server-side wait limit; history: {}", who, last, log.key())));
                continue;
            }
            match c {
                Cons::StreamOpen | Cons::StreamClosed | Cons::StreamTinyBudget => {
                    if last != "end:NotFound" {
                        // a stream that raced with the deletion may also have been refused / ended with another error status
                        // ... and so may a stream one of whose own control messages raced with the deletion: the failure
                        // status of that request ("NOT_FOUND or another error status") is what terminates the stream
                        let has_racing_ctl = racing.contains(&Cons::StreamCtlAck);
                        let acceptable_race = (!*was_parked || has_racing_ctl) && last.starts_with("end:") && last != "end:EOF-without-status" && last != "end:Ok";
                        if !acceptable_race {
                            problems.push((format!("{}/ended-without-NOT_FOUND", kind), format!("{} ended with '{}' instead of NOT_FOUND; history: {}", who, last, log.key())));
                        }
                    }
                }
                Cons::BlockedPull => {
                    if *was_parked && last.starts_with("ret:OK") {
                        problems.push((format!("{}/ok-instead-of-error", kind), format!("{} was blocked when the subscription was deleted and returned '{}' (an error status is required); history: {}", who, last, log.key())));
                    }
                }
                _ => {}
            }
        }
        holder.lock().unwrap().clear();
        if let Some((sig, detail)) = problems.into_iter().next() {
            return ScenarioOut::viol(format!("{}/{}", name, sig), detail);
        }
        ScenarioOut::ok(log.key_per_client())
    })
}

/// Ordinary use of the listing next to waiting consumers: a page of ListTopicSubscriptions is fetched, subscriptions of
/// that page are deleted, the next page is requested with the (now stale, or shifted, or far too large) token - and then
/// the subscription the consumers wait on is deleted.  They must be released whatever the listing made of its token.
fn listing_then_delete_scenario() -> ScenFn {
    scen!([] |cx| {
        let a = cx.api.clone();
        must!(cx, "setup:create-topic", { let a = a.clone(); async move { a.create_topic(T0).await } });
        for s in [S0, S1, S2] {
            must!(cx, "setup:create-sub", { let a = a.clone(); async move { a.create_sub(s, T0, 10, None).await } });
        }
        // consumers on S2: a stream and a blocked pull
        let done_stream: Arc<Mutex<Option<String>>> = Default::default();
        let done_pull: Arc<Mutex<Option<String>>> = Default::default();
        let (ds, a2) = (done_stream.clone(), a.clone());
        let hs = cx.spawn("client:00-stream", async move {
            let (tx, r) = a2.streaming_pull(first_stream_req(S2, 10)).await;
            let _keep = tx;
            let end = match r {
                Err(c) => format!("{:?}", c),
                Ok(mut st) => loop {
                    match st.message().await {
                        Ok(Some(_)) => {}
                        Ok(None) => break "EOF".to_string(),
                        Err(e) => break format!("{:?}", e.code()),
                    }
                },
            };
            *ds.lock().unwrap() = Some(end);
        });
        let (dp, a3) = (done_pull.clone(), a.clone());
        let hp = cx.spawn("client:01-pull", async move {
            let r = a3.pull(S2, 1, false).await;
            *dp.lock().unwrap() = Some(match r { Ok(v) => format!("OK({})", v.len()), Err(c) => format!("{:?}", c) });
        });
        tryv!(cx.quiesce().await);
        // the listing
        let size = [1, 2][cx.choose("page-size", 2)];
        let first = must!(cx, "client:list-1", { let a = a.clone(); async move { a.list_topic_subs(T0, size, "").await } });
        let how = cx.choose("next-token", 4); // 0: as issued after deleting that page's subscriptions, 1: as issued, 2: shifted far, 3: huge
        if how == 0 {
            for s in first.0.clone() {
                let s: &'static str = [S0, S1, S2].into_iter().find(|x| *x == s).unwrap_or(S0);
                if s != S2 {
                    must!(cx, "client:delete-listed", { let a = a.clone(); async move { a.delete_sub(s).await } });
                }
            }
        }
        let token = match how {
            0 | 1 => first.1.clone(),
            2 => { let a = a.clone(); tryv!(cx.settle("client:list-far", async move { a.list_topic_subs(T0, 1000, "").await }).await).map(|x| x.1).unwrap_or_default() }
            _ => "//////////8=".to_string(),
        };
        let token = if how == 2 && token.is_empty() { first.1.clone() } else { token };
        let second = { let a = a.clone(); tryv!(cx.settle("client:list-2", async move { a.list_topic_subs(T0, size, &token).await }).await) };
        // now the deletion the consumers are waiting for
        let d = { let a = a.clone(); tryv!(cx.settle("client:delete-sub", async move { a.delete_sub(S2).await }).await) };
        tryv!(cx.advance_ms(1_000).await);
        let key = format!("size={} how={} page2={} delete={}", size, how, match &second { Ok(v) => format!("OK({})", v.0.len()), Err(c) => format!("{:?}", c) }, res(&d));
        if d.is_err() {
            return ScenarioOut::viol("listing-then-delete/delete-failed", format!("{}: DeleteSubscription of a subscription nobody else touched failed", key));
        }
        let (es, ep) = (done_stream.lock().unwrap().clone(), done_pull.lock().unwrap().clone());
        if !hs.is_finished() || es.as_deref() != Some("NotFound") {
            return ScenarioOut::viol("listing-then-delete/stream-not-released", format!("{}: one second after DeleteSubscription returned the StreamingPull is {:?}", key, es));
        }
        match ep.as_deref() {
            Some(e) if hp.is_finished() && !e.starts_with("OK") => {}
            other => return ScenarioOut::viol("listing-then-delete/pull-not-released", format!("{}: one second after DeleteSubscription returned the blocked Pull is {:?}", key, other)),
        }
        ScenarioOut::ok(key)
    })
}

/// A push subscription whose endpoint is sitting on a request (no answer for 100 s) is deleted while a StreamingPull
/// and a Pull wait on it: the deletion completes and both consumers are released without waiting for the endpoint.
fn delete_during_push_scenario() -> ScenFn {
    scen!([] |cx| {
        cx.set_push_menu(vec![crate::engine::PushAnswer::Delay(100_000, 200)]);
        let a = cx.api.clone();
        must!(cx, "setup:create-topic", { let a = a.clone(); async move { a.create_topic(T0).await } });
        must!(cx, "setup:create-push-sub", { let a = a.clone(); async move { a.create_sub(S0, T0, 10, Some("http://push.example/slow")).await } });
        let n = 1 + cx.choose("messages", 2);
        let msgs: Vec<Msg> = (0..n).map(|i| (format!("m{}", i).into_bytes(), vec![])).collect();
        // the push loop takes the messages at its next round (~1001 ms) and its POSTs stay unanswered
        {
            let was = cx.freeze(true);
            let q = cx.advance_ms(900).await;
            cx.freeze(was);
            tryv!(q);
        }
        // the messages are published first and taken by the push round (~1001 ms): its POSTs stay unanswered; the
        // consumers arrive afterwards and wait
        must!(cx, "client:publish", { let (a, m) = (a.clone(), msgs.clone()); async move { a.publish(T0, m).await } });
        tryv!(cx.advance_ms(150).await);
        let done_stream: Arc<Mutex<Option<String>>> = Default::default();
        let done_pull: Arc<Mutex<Option<String>>> = Default::default();
        let (ds, a2) = (done_stream.clone(), a.clone());
        let hs = cx.spawn("client:00-stream", async move {
            let (tx, r) = a2.streaming_pull(first_stream_req(S0, 10)).await;
            let _keep = tx;
            let end = match r {
                Err(c) => format!("{:?}", c),
                Ok(mut st) => loop {
                    match st.message().await {
                        Ok(Some(_)) => {}
                        Ok(None) => break "EOF".to_string(),
                        Err(e) => break format!("{:?}", e.code()),
                    }
                },
            };
            *ds.lock().unwrap() = Some(end);
        });
        let (dp, a3) = (done_pull.clone(), a.clone());
        let hp = cx.spawn("client:01-pull", async move {
            let r = a3.pull(S0, 1, false).await;
            *dp.lock().unwrap() = Some(match r { Ok(v) => format!("OK({})", v.len()), Err(c) => format!("{:?}", c) });
        });
        tryv!(cx.quiesce().await);
        let posts = cx.push_log().len();
        let hd = { let a = a.clone(); cx.spawn("client:02-delete", async move { a.delete_sub(S0).await }) };
        tryv!(cx.quiesce().await);
        tryv!(cx.advance_ms(1_000).await);
        let key = format!("messages={} posts-in-flight={}", n, posts);
        if !hd.is_finished() {
            return ScenarioOut::viol("delete-during-push/delete-hangs", format!("{}: DeleteSubscription has not returned one second after quiescence (the endpoint is still holding its request)", key));
        }
        let d = hd.await.unwrap();
        if d.is_err() {
            return ScenarioOut::viol("delete-during-push/delete-failed", format!("{}: {:?}", key, d));
        }
        let (es, ep) = (done_stream.lock().unwrap().clone(), done_pull.lock().unwrap().clone());
        if !hs.is_finished() || es.as_deref() != Some("NotFound") {
            return ScenarioOut::viol("delete-during-push/stream-not-released", format!("{}: one second after DeleteSubscription returned the StreamingPull is {:?}", key, es));
        }
        // the Pull may have returned a message before the deletion; otherwise it must have been released with an error
        match ep.as_deref() {
            Some(_) if hp.is_finished() => {}
            other => return ScenarioOut::viol("delete-during-push/pull-not-released", format!("{}: one second after DeleteSubscription returned the blocked Pull is {:?}", key, other)),
        }
        ScenarioOut::ok(format!("{} pull={:?}", key, ep))
    })
}

pub fn units(thorough: bool) -> Vec<Unit> {
    use Cons::*;
    let d = if thorough { 9 } else { 4 };
    let d2 = if thorough { 6 } else { 3 };
    let cfg = ExecCfg::default();
    let mut v = vec![];
    v.push(explore_unit("sched/delete-during-push", "a push subscription whose endpoint holds a request unanswered is deleted while a StreamingPull and a Pull wait on it: DeleteSubscription returns and both are released (schedules explored)", Bounds::new(if thorough { 2 } else { 1 }), ExecCfg { push_interval_ms: Some(1000), ..Default::default() }, delete_during_push_scenario()));
    v.push(explore_unit("seq/listing-then-delete", "ListTopicSubscriptions page by page with subscriptions deleted in between (stale / shifted / huge tokens), then the subscription on which a StreamingPull and a Pull wait is deleted: both are released", Bounds::new(0), ExecCfg::default(), listing_then_delete_scenario()));
    let progs: Vec<(&'static str, Vec<Cons>, Vec<Cons>, bool, usize)> = vec![
        ("stream-open", vec![StreamOpen], vec![], false, d),
        ("stream-closed", vec![StreamClosed], vec![], false, d),
        ("blocked-pull", vec![BlockedPull], vec![], false, d),
        ("stream-open+outstanding", vec![StreamOpen], vec![], true, d2),
        ("blocked-pull+outstanding", vec![BlockedPull], vec![], true, d2),
        ("stream+pull", vec![StreamOpen, BlockedPull], vec![], false, d2),
        ("pull+pull", vec![BlockedPull, BlockedPull], vec![], false, d2),
        ("stream+stream", vec![StreamOpen, StreamClosed], vec![], false, d2),
        ("race-stream", vec![], vec![StreamOpen], false, d2),
        ("race-blocked-pull", vec![], vec![BlockedPull], false, d2),
        ("race-ack-modify-pull", vec![], vec![Ack, Modify, PullNow], true, d2),
        ("stream-ctl-ack", vec![StreamOpen], vec![StreamCtlAck], true, d2),
        ("stream+publish-race", vec![StreamOpen], vec![PublishRace], false, d2),
        ("stream-closed+stream+publish-race", vec![StreamClosed, StreamOpen], vec![PublishRace], false, d2),
        ("stream+delete-topic-race", vec![StreamOpen], vec![DeleteTopicRace], false, d2),
        ("pull+stream+delete-topic-race", vec![BlockedPull, StreamClosed], vec![DeleteTopicRace], false, d2),
        ("stream-tiny-byte-budget", vec![StreamTinyBudget], vec![], false, d2),
        ("stream-tiny-byte-budget+stream", vec![StreamTinyBudget, StreamClosed], vec![], false, d2),
    ];
    for (name, parked, racing, out, d) in progs {
        v.push(explore_unit(
            format!("sched/{}", name),
            format!("DeleteSubscription vs waiting {:?} and racing {:?}; all task orders, select start indices and preemption points within the deviation bound", parked, racing),
            Bounds::new(d),
            cfg.clone(),
            program(name, parked.clone(), racing.clone(), out),
        ));
    }
    for (name, parked) in [("stream-open", vec![StreamOpen]), ("blocked-pull", vec![BlockedPull]), ("stream+pull", vec![StreamClosed, BlockedPull])] {
        v.push(explore_unit(
            format!("sched/topic-deleted-first/{}", name),
            format!("the topic is deleted first, then DeleteSubscription vs waiting {:?}", parked),
            Bounds::new(d2),
            cfg.clone(),
            program_x(name, parked.clone(), vec![], false, true, false),
        ));
        v.push(explore_unit(
            format!("sched/abandoned-delete/{}", name),
            format!("the caller of DeleteSubscription disappears after k polls (every k); if the subscription is gone afterwards, waiting {:?} must have been released", parked),
            Bounds::new(d2 - 1),
            cfg.clone(),
            program_x(name, parked.clone(), vec![], false, false, true),
        ));
    }
    if thorough {
        // single consumer: unbounded delays/preemptions with at most 2 select deviations
        for (name, parked) in [("stream-open", vec![StreamOpen]), ("blocked-pull", vec![BlockedPull])] {
            v.push(explore_unit(
                format!("sched-f2/{}", name),
                format!("DeleteSubscription vs waiting {:?}; deviation cost <= 12 with at most 2 select deviations", parked),
                Bounds::new(12).f(2),
                cfg.clone(),
                program(name, parked.clone(), vec![], false),
            ));
        }
    }
    v
}
