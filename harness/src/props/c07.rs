//! C07 Every request terminates: no deadlock between topic and subscription actors.
use crate::explore::*;
use crate::litmus::*;
use crate::report::Unit;
use crate::scen::*;
use crate::world::*;
use crate::{must, scen, tryv};

/// setup: T0 with S0 (and S1 when `two_subs`), one message held by client 1 when `hold`.
fn program(name: &'static str, progs: Vec<Vec<COp>>, two_subs: bool, hold: bool) -> ScenFn {
    scen!([progs] |cx| {
        must!(cx, "setup:create-topic", { let a = cx.api.clone(); async move { a.create_topic(T0).await } });
        must!(cx, "setup:create-sub", { let a = cx.api.clone(); async move { a.create_sub(S0, T0, 10, None).await } });
        if two_subs {
            must!(cx, "setup:create-sub", { let a = cx.api.clone(); async move { a.create_sub(S1, T0, 10, None).await } });
        }
        let mut held = vec![vec![]; progs.len()];
        if hold {
            must!(cx, "setup:publish", { let a = cx.api.clone(); async move { a.publish(T0, vec![(b"h".to_vec(), vec![])]).await } });
            let got = must!(cx, "setup:pull", { let a = cx.api.clone(); async move { a.pull(S0, 1, true).await } });
            for h in held.iter_mut() {
                *h = got.clone();
            }
        }
        let l = start(&cx, &progs, &held);
        tryv!(await_termination(&cx, &l, name).await);
        // control messages on open streams get processed: nothing runnable is left and every unary call is done
        let key = l.hist.key();
        tryv!(l.close_streams(&cx).await);
        // the server still answers
        let a = cx.api.clone();
        let alive = tryv!(cx.settle("probe:alive", async move { (a.list_topics("projects/p", 10, "").await.is_ok(), a.publish(T0, vec![(b"p".to_vec(), vec![])]).await) }).await);
        if !alive.0 {
            return ScenarioOut::viol(format!("{}/server-dead", name), "ListTopics failed after the program".to_string());
        }
        ScenarioOut::ok(key)
    })
}

/// `streams` StreamingPulls are open on one subscription; every one of them sends a control message with TWO parts
/// (an ack and a deadline extension) at the same time, while
/// a Publish and a GetSubscription arrive.  Everything must be answered (a request that needs two mailbox slots at once
/// must not hold one while waiting for the other).
fn two_part_control_scenario(streams: usize) -> ScenFn {
    scen!([] |cx| {
        let a = cx.api.clone();
        must!(cx, "setup:create-topic", { let a = a.clone(); async move { a.create_topic(T0).await } });
        must!(cx, "setup:create-sub", { let a = a.clone(); async move { a.create_sub(S0, T0, 10, None).await } });
        let msgs: Vec<Msg> = (0..streams).map(|i| (format!("m{}", i).into_bytes(), vec![])).collect();
        must!(cx, "setup:publish", { let a = a.clone(); async move { a.publish(T0, msgs).await } });
        let go = std::sync::Arc::new(tokio::sync::Notify::new());
        let ready = std::sync::Arc::new(std::sync::atomic::AtomicUsize::new(0));
        let sent = std::sync::Arc::new(std::sync::atomic::AtomicUsize::new(0));
        let mut hs = vec![];
        for i in 0..streams {
            let (a2, go2, ready2, sent2) = (a.clone(), go.clone(), ready.clone(), sent.clone());
            hs.push(cx.spawn(&format!("client:{:02}-stream", i), async move {
                // max_outstanding 1: every stream takes exactly one message
                let (tx, r) = a2.streaming_pull(first_stream_req(S0, 1)).await;
                let mut st = match r { Ok(s) => s, Err(_) => return };
                // (which stream holds which of the messages is up to the server; the ids sent below need not be live)
                let mine = format!("{}", 7000 + i);
                ready2.fetch_add(1, std::sync::atomic::Ordering::SeqCst);
                go2.notified().await;
                let req = deltio::pubsub_proto::StreamingPullRequest { ack_ids: vec!["9999".into()], modify_deadline_ack_ids: vec![mine], modify_deadline_seconds: vec![30], ..Default::default() };
                let _ = tx.send(req).await;
                sent2.fetch_add(1, std::sync::atomic::Ordering::SeqCst);
                while let Ok(Some(_)) = st.message().await {}
                drop(tx);
            }));
        }
        {
            let was = cx.freeze(true);
            let q = cx.quiesce().await;
            cx.freeze(was);
            tryv!(q);
        }
        let n_ready = ready.load(std::sync::atomic::Ordering::SeqCst);
        if n_ready != streams {
            return ScenarioOut::viol("two-part-control/setup", format!("only {} of {} streams opened", n_ready, streams));
        }
        go.notify_waiters();
        let p = { let a = a.clone(); cx.spawn("client:90-publish", async move { a.publish(T0, vec![(b"late".to_vec(), vec![])]).await.is_ok() }) };
        let g = { let a = a.clone(); cx.spawn("client:91-get-sub", async move { a.get_sub(S0).await.is_ok() }) };
        tryv!(cx.quiesce().await);
        tryv!(cx.advance_ms(1_000).await);
        let n_sent = sent.load(std::sync::atomic::Ordering::SeqCst);
        if !p.is_finished() || !g.is_finished() {
            return ScenarioOut::viol("two-part-control/hang", format!("{} streams sent a two-part control message at once ({} got it off): one second after quiescence Publish finished = {}, GetSubscription finished = {}", streams, n_sent, p.is_finished(), g.is_finished()));
        }
        // the server still answers, and the subscription still serves requests
        let a3 = a.clone();
        let alive = tryv!(cx.settle("probe:alive", async move { (a3.get_sub(S0).await.is_ok(), a3.publish(T0, vec![(b"p".to_vec(), vec![])]).await.is_ok()) }).await);
        if alive != (true, true) {
            return ScenarioOut::viol("two-part-control/server-dead", format!("after the burst GetSubscription / Publish answered {:?}", alive));
        }
        for h in &hs {
            h.abort();
        }
        tryv!(cx.quiesce().await);
        ScenarioOut::ok(format!("streams={} sent={}", streams, n_sent))
    })
}

pub fn units(thorough: bool) -> Vec<Unit> {
    use COp::*;
    let mut v = vec![];
    let d = if thorough { 5 } else { 2 };
    for cap in [1usize, 2] {
        let cfg = ExecCfg { caps: (cap, cap), ..Default::default() };
        for k in [cap, cap + 1] {
            // Delete first, k requests queued behind it on the same subscription, then a Publish on its topic
            let mut progs = vec![vec![DeleteSub(S0)]];
            let menu = [PullNow(S0, 10), AckHeld(S0, 0), GetSub(S0), ModHeld(S0, 0, 30)];
            for i in 0..k {
                progs.push(vec![menu[i % menu.len()].clone()]);
            }
            progs.push(vec![Publish(T0, 1)]);
            v.push(explore_unit(
                format!("sched/cap{}/delete-sub+{}queued+publish", cap, k),
                format!("mailbox capacity {}: DeleteSubscription, {} requests on the same subscription and a Publish on its topic, all concurrent", cap, k),
                Bounds::new(d),
                cfg.clone(),
                program("delete-sub‖queued‖publish", progs, false, true),
            ));
        }
        {
            // two Deletes, `cap` further requests queued behind them, and a Publish
            let mut progs = vec![vec![DeleteSub(S0)], vec![DeleteSub(S0)]];
            for i in 0..cap {
                progs.push(vec![[GetSub(S0), PullNow(S0, 10)][i % 2].clone()]);
            }
            progs.push(vec![Publish(T0, 1)]);
            v.push(explore_unit(format!("sched/cap{}/delete-sub+delete-sub+{}queued+publish", cap, cap), "two DeleteSubscription of the same subscription, further requests queued on it, and a Publish on its topic", Bounds::new(d), cfg.clone(), program("delete-sub‖delete-sub‖queued‖publish", progs, false, false)));
        }
        {
            // a nack (and a lease expiry) handled while further requests are queued behind it
            let mut progs = vec![vec![NackHeld(S0, 0)]];
            for i in 0..cap + 1 {
                progs.push(vec![[GetSub(S0), PullNow(S0, 10), ModHeld(S0, 0, 30)][i % 3].clone()]);
            }
            progs.push(vec![Publish(T0, 1)]);
            v.push(explore_unit(format!("sched/cap{}/nack+{}queued+publish", cap, cap + 1), "a nack, further requests queued on the same subscription, and a Publish", Bounds::new(d), cfg.clone(), program("nack‖queued‖publish", progs, false, true)));
            let mut progs = vec![];
            for i in 0..cap + 2 {
                progs.push(vec![Sleep(10_000), [GetSub(S0), PullNow(S0, 10), GetSub(S0)][i % 3].clone()]);
            }
            progs.push(vec![Sleep(10_000), Publish(T0, 1)]);
            v.push(explore_unit(format!("sched/cap{}/expiry+{}queued+publish", cap, cap + 2), "a lease expires at the instant at which several requests and a Publish arrive", Bounds::new(d), cfg.clone(), program("expiry‖queued‖publish", progs, false, true)));
        }
        v.push(explore_unit(format!("sched/cap{}/delete-topic+publish+create-sub", cap), "DeleteTopic ‖ Publish ‖ CreateSubscription on the same topic", Bounds::new(d), cfg.clone(), program("delete-topic‖publish‖create-sub", vec![vec![DeleteTopic(T0)], vec![Publish(T0, 2)], vec![CreateSub(S2, T0)]], true, false)));
        v.push(explore_unit(format!("sched/cap{}/publish+publish+list", cap), "two Publishes (two subscriptions) ‖ ListTopicSubscriptions ‖ Pull", Bounds::new(d), cfg.clone(), program("publish‖publish‖list", vec![vec![Publish(T0, 1)], vec![Publish(T0, 2)], vec![ListTopicSubs(T0)], vec![PullNow(S0, 10)]], true, false)));
        v.push(explore_unit(format!("sched/cap{}/delete-sub+delete-sub+publish", cap), "two DeleteSubscription of the same subscription ‖ Publish", Bounds::new(d), cfg.clone(), program("delete-sub‖delete-sub", vec![vec![DeleteSub(S0)], vec![DeleteSub(S0)], vec![Publish(T0, 1)]], true, false)));
        v.push(explore_unit(format!("sched/cap{}/stream+delete+publish", cap), "open StreamingPull + blocked Pull ‖ DeleteSubscription ‖ Publish", Bounds::new(d), cfg.clone(), program("stream‖delete-sub‖publish", vec![vec![Stream(S0, 10)], vec![PullBlock(S0, 1)], vec![DeleteSub(S0)], vec![Publish(T0, 1)]], false, false)));
    }
    // the push loop next to creation / deletion of push subscriptions (also feeds the lock-order analysis)
    {
        let f: ScenFn = scen!(|cx| {
            must!(cx, "setup:create-topic", { let a = cx.api.clone(); async move { a.create_topic(T0).await } });
            must!(cx, "setup:create-push-sub", { let a = cx.api.clone(); async move { a.create_sub(S0, T0, 10, Some("http://push.example/a")).await } });
            must!(cx, "setup:publish", { let a = cx.api.clone(); async move { a.publish(T0, vec![(b"m".to_vec(), vec![])]).await } });
            tryv!(cx.advance_ms(999).await);
            let progs = vec![vec![COp::Sleep(2), COp::CreateSub(S1, T0), COp::DeleteSub(S0)], vec![COp::Sleep(2), COp::Publish(T0, 1), COp::GetSub(S0)], vec![COp::Sleep(2), COp::ListSubs]];
            // S2 is created as a push subscription while a push round is running
            let a2 = cx.api.clone();
            let extra = cx.spawn("client:03", async move { tokio::time::sleep(std::time::Duration::from_millis(2)).await; a2.create_sub(S2, T0, 10, Some("http://push.example/b")).await.is_ok() });
            let l = start(&cx, &progs, &[]);
            tryv!(cx.advance_ms(5).await);
            tryv!(await_termination(&cx, &l, "push-loop‖create‖delete").await);
            if !extra.is_finished() {
                return ScenarioOut::viol("push-loop‖create‖delete/hang/CreateSub", "CreateSubscription (push) did not return".to_string());
            }
            tryv!(cx.advance_ms(2_000).await);
            ScenarioOut::ok(l.hist.key())
        });
        v.push(explore_unit("sched/push-loop+create+delete", "the push loop ticks while push and pull subscriptions are created, one is deleted, and a Publish, a Get and a List run; termination, plus the lock nesting of everything executed (lock-order analysis)", Bounds::new(d), ExecCfg { push_interval_ms: Some(1000), ..Default::default() }, f));
    }
    // two-part StreamingPull control messages sent by several streams at once
    for (cap, streams) in [(1usize, 1usize), (1, 2), (2, 2), (2, 3)] {
        v.push(explore_unit(format!("sched/cap{}/{}streams-two-part-control", cap, streams), format!("mailbox capacity {}: {} open streams each send a control message with an ack and an extension at the same instant, next to a Publish and a GetSubscription", cap, streams), Bounds::new(if thorough { 3 } else { 1 }), ExecCfg { caps: (cap, cap), ..Default::default() }, two_part_control_scenario(streams)));
    }
    v.push(explore_unit("sched/cap16/18streams-two-part-control", "shipped mailbox capacity 16: 18 open streams each send a two-part control message at the same instant, next to a Publish and a GetSubscription", Bounds::new(0), ExecCfg::default(), two_part_control_scenario(18)));
    // the shipped capacity (16): Delete first, 16 requests behind it, then the Publish
    let mut progs = vec![vec![DeleteSub(S0)]];
    let menu = [PullNow(S0, 10), AckHeld(S0, 0), GetSub(S0), ModHeld(S0, 0, 30)];
    for i in 0..16 {
        progs.push(vec![menu[i % menu.len()].clone()]);
    }
    progs.push(vec![Publish(T0, 1)]);
    v.push(explore_unit(
        "sched/cap16/delete-sub+16queued+publish",
        "shipped mailbox capacity 16: DeleteSubscription, 16 further requests on the subscription, then a Publish on its topic (18 client tasks)",
        Bounds::new(if thorough { 2 } else { 1 }),
        ExecCfg::default(),
        program("delete-sub‖queued‖publish", progs, false, true),
    ));
    v
}
