//! C14 Push subscriptions deliver at least once until the endpoint accepts: enumeration of endpoint answer
//! sequences at the transport seam, real push loop / subscription actor under the controlled scheduler.
use crate::engine::{PushAnswer, PushAttempt};
use crate::explore::*;
use crate::report::Unit;
use crate::scen::*;
use crate::world::*;
use crate::{must, scen, tryv};
use base64::Engine;

const ENDPOINT: &str = "http://push.example/hook";
const ROUND_MS: u64 = 1001;

fn accepted(s: u16) -> bool {
    matches!(s, 102 | 200 | 201 | 202 | 204)
}

struct Seen {
    msg: usize,
    at_ms: i64,
    answer: PushAnswer,
}

/// Validates the request of one attempt and returns the index of the message it carries.
fn validate(att: &PushAttempt, ids: &[String], payloads: &[Vec<u8>], attrs: &[(String, String)]) -> Result<usize, (String, String)> {
    if att.method != "POST" {
        return Err(("push/not-a-POST".into(), format!("method {}", att.method)));
    }
    if att.url != ENDPOINT {
        return Err(("push/wrong-endpoint".into(), format!("request to {} instead of {}", att.url, ENDPOINT)));
    }
    if !att.content_type.to_ascii_lowercase().contains("json") {
        return Err(("push/content-type-not-json".into(), format!("content type {:?}", att.content_type)));
    }
    let j: serde_json::Value = serde_json::from_slice(&att.body).map_err(|e| ("push/body-not-json".to_string(), format!("{}", e)))?;
    if j["subscription"].as_str() != Some(S0) {
        return Err(("push/subscription-not-named".into(), format!("payload names subscription {:?}, expected {}", j["subscription"], S0)));
    }
    let m = &j["message"];
    let id = m["messageId"].as_str().or(m["message_id"].as_str()).unwrap_or("");
    let Some(k) = ids.iter().position(|x| x == id) else { return Err(("push/unknown-message-id".into(), format!("payload carries message id {:?}, published ids {:?}", id, ids))) };
    let data = base64::engine::general_purpose::STANDARD.decode(m["data"].as_str().unwrap_or("!")).map_err(|_| ("push/data-not-base64".to_string(), format!("data {:?}", m["data"])))?;
    if data != payloads[k] {
        return Err(("push/data-mismatch".into(), format!("message {} pushed with data {:?}", id, String::from_utf8_lossy(&data))));
    }
    let got: std::collections::BTreeMap<String, String> = m["attributes"].as_object().map(|o| o.iter().map(|(k, v)| (k.clone(), v.as_str().unwrap_or("").to_string())).collect()).unwrap_or_default();
    let want: std::collections::BTreeMap<String, String> = attrs.iter().cloned().collect();
    if got != want {
        return Err(("push/attributes-mismatch".into(), format!("attributes {:?}, published {:?}", got, want)));
    }
    Ok(k)
}

/// `n` messages, `rounds` push rounds, answers drawn from `menu` at every attempt; optional deletion after a round.
fn scenario(name: &'static str, n: usize, rounds: usize, menu: Vec<PushAnswer>, delete_after: Option<usize>, frozen: bool) -> ScenFn {
    scenario_x(name, n, rounds, menu, delete_after, frozen, false)
}

fn scenario_x(name: &'static str, n: usize, rounds: usize, menu: Vec<PushAnswer>, delete_after: Option<usize>, frozen: bool, interfere: bool) -> ScenFn {
    scenario_y(name, n, rounds, menu, delete_after, frozen, interfere, 10)
}

/// `dl`: the subscription's ack_deadline_seconds
#[allow(clippy::too_many_arguments)]
fn scenario_y(name: &'static str, n: usize, rounds: usize, menu: Vec<PushAnswer>, delete_after: Option<usize>, frozen: bool, interfere: bool, dl: i32) -> ScenFn {
    let lease_ms: i64 = (dl.max(10) as i64) * 1000;
    scen!([menu] |cx| {
        cx.set_push_menu(menu.clone());
        let a = cx.api.clone();
        must!(cx, "setup:create-topic", { let a = a.clone(); async move { a.create_topic(T0).await } });
        must!(cx, "setup:create-push-sub", { let a = a.clone(); async move { a.create_sub(S0, T0, dl, Some(ENDPOINT)).await } });
        must!(cx, "setup:create-pull-sub", { let a = a.clone(); async move { a.create_sub(S1, T0, 10, None).await } });
        let mut payloads: Vec<Vec<u8>> = (0..n).map(|i| format!("message-{}", i).into_bytes()).collect();
        let attrs = vec![("k".to_string(), "v".to_string())];
        let msgs: Vec<Msg> = payloads.iter().map(|p| (p.clone(), attrs.clone())).collect();
        let mut ids = must!(cx, "setup:publish", { let a = a.clone(); async move { a.publish(T0, msgs).await } });
        let mut n_msgs = n;
        let mut recreated_at: Option<(i64, usize)> = None;
        let mut seen: Vec<Seen> = vec![];
        let mut consumed = 0;
        let mut deleted_at: Option<i64> = None;
        let mut history: Vec<String> = vec![];
        // rounds are observed mid-way between two iterations of the push loop (which run at ~1001 ms, ~2002 ms, ...)
        {
            let was = cx.freeze(true);
            let q = cx.advance_ms(500).await;
            cx.freeze(was);
            tryv!(q);
        }
        for round in 0..rounds {
            // one round = 1 ms + 100 x 10 ms, so that the push loop's 5 ms pauses between dispatches elapse inside the round
            let was = cx.freeze(frozen);
            let mut q = cx.advance_ms(1).await;
            for _ in 0..100 {
                if q.is_ok() {
                    q = cx.advance_ms(10).await;
                }
            }
            cx.freeze(was);
            tryv!(q);
            let now = cx.now_ms();
            let log = cx.push_log();
            let new: Vec<PushAttempt> = log[consumed..].to_vec();
            consumed = log.len();
            let mut this_round: Vec<usize> = vec![];
            for att in &new {
                let k = match validate(att, &ids, &payloads, &attrs) {
                    Ok(k) => k,
                    Err((sig, d)) => return ScenarioOut::viol(sig, format!("{} round {}: {}", name, round, d)),
                };
                if let Some(t) = deleted_at {
                    if att.at_ms > t {
                        return ScenarioOut::viol("push/after-delete", format!("{}: a POST for message {} started at {} ms, after DeleteSubscription returned at {} ms", name, k, att.at_ms, t));
                    }
                }
                // never again once an accepting answer has arrived (within the deadline)
                for s in seen.iter().filter(|s| s.msg == k) {
                    let ok_at = match &s.answer {
                        PushAnswer::Status(st) if accepted(*st) => Some(s.at_ms),
                        PushAnswer::Delay(ms, st) if accepted(*st) && (*ms as i64) < lease_ms => Some(s.at_ms + *ms as i64),
                        _ => None,
                    };
                    if let Some(t) = ok_at {
                        if att.at_ms >= t {
                            return ScenarioOut::viol("push/again-after-accept", format!("{}: message {} was accepted at {} ms and POSTed again at {} ms; history {:?}", name, k, t, att.at_ms, history));
                        }
                    }
                    // exclusive lease: not while an earlier attempt is still unanswered and its lease is running
                    if let PushAnswer::Delay(ms, _) = &s.answer {
                        let busy_until = (s.at_ms + *ms as i64).min(s.at_ms + lease_ms);
                        if att.at_ms < busy_until {
                            return ScenarioOut::viol("push/while-in-flight", format!("{}: message {} POSTed at {} ms while the attempt of {} ms was unanswered and leased", name, k, att.at_ms, s.at_ms));
                        }
                    }
                }
                if let Some((t, first_new)) = recreated_at {
                    if k < first_new && att.at_ms > t {
                        return ScenarioOut::viol("push/after-delete", format!("{}: message {} of the deleted incarnation was POSTed at {} ms, after the subscription was deleted at {} ms", name, k, att.at_ms, t));
                    }
                }
                if this_round.contains(&k) {
                    return ScenarioOut::viol("push/twice-in-one-round", format!("{}: message {} POSTed twice in round {}", name, k, round));
                }
                this_round.push(k);
                history.push(format!("r{}:m{}:{:?}", round, k, att.answer));
                seen.push(Seen { msg: k, at_ms: att.at_ms, answer: att.answer.clone() });
            }
            // every message that is not accepted, not in flight and whose subscription lives must have been POSTed in this round
            if deleted_at.is_none() {
                for k in 0..n_msgs {
                    if this_round.contains(&k) {
                        continue;
                    }
                    // messages of the deleted incarnation are not owed any more
                    if let Some((_, first_new)) = recreated_at {
                        if k < first_new {
                            continue;
                        }
                    }
                    let prior: Vec<&Seen> = seen.iter().filter(|s| s.msg == k).collect();
                    let mut due = prior.is_empty();
                    let mut blocked = false;
                    for s in &prior {
                        match &s.answer {
                            PushAnswer::Status(st) if accepted(*st) => blocked = true,
                            PushAnswer::Status(_) | PushAnswer::ConnError => due = true,
                            PushAnswer::Delay(ms, st) => {
                                let answered = s.at_ms + *ms as i64;
                                let lease_end = s.at_ms + lease_ms;
                                if accepted(*st) && answered < lease_end {
                                    // accepted in time (possibly not yet): never due again
                                    blocked = true;
                                } else if now >= lease_end.min(answered) + SLACK_MS + ROUND_MS as i64 {
                                    due = true;
                                } else {
                                    blocked = true; // in flight or inside the ambiguous window
                                }
                            }
                        }
                    }
                    if due && !blocked {
                        return ScenarioOut::viol("push/not-retried", format!("{}: message {} is neither accepted nor in flight but was not POSTed in round {} (t={} ms); history {:?}", name, k, round, now, history));
                    }
                }
            }
            // unrelated, and rejected, requests between rounds must not disturb the push subscription
            if interfere && round == 0 {
                let which = cx.choose("interference", 7);
                let a2 = a.clone();
                let r = tryv!(cx.settle("client:interference", async move {
                    match which {
                        0 => "none".to_string(),
                        1 => res(&a2.create_sub(S0, T0, 10, None).await),
                        2 => res(&a2.create_sub(S0, T0, 10, Some("http://other.example/")).await),
                        3 => res(&a2.create_sub(S2, T0, 10, None).await),
                        4 => res(&a2.get_sub(S0).await),
                        5 => {
                            // the push subscription is deleted and created again under the same name within one push interval
                            let d = a2.delete_sub(S0).await;
                            let c = a2.create_sub(S0, T0, 10, Some(ENDPOINT)).await;
                            format!("{}+{}", res(&d), res(&c))
                        }
                        _ => res(&a2.delete_topic(T0).await),
                    }
                }).await);
                history.push(format!("interference{}:{}", which, r));
                if (which == 1 || which == 2) && r != "AlreadyExists" {
                    return ScenarioOut::viol("push/duplicate-create-not-rejected", format!("{}: CreateSubscription of the existing push subscription returned {}", name, r));
                }
                if which == 5 {
                    // a new incarnation: what the old one held is gone with it; a message published now must be pushed
                    if r != "OK+OK" {
                        return ScenarioOut::viol("push/recreate-failed", format!("{}: delete + re-create returned {}", name, r));
                    }
                    let a3 = a.clone();
                    let newid = must!(cx, "client:publish-new", async move { a3.publish(T0, vec![(b"message-after-recreate".to_vec(), vec![("k".to_string(), "v".to_string())])]).await });
                    recreated_at = Some((cx.now_ms(), ids.len()));
                    ids.extend(newid);
                    payloads.push(b"message-after-recreate".to_vec());
                    n_msgs += 1;
                }
            }
            if delete_after == Some(round) {
                must!(cx, "client:delete-sub", { let a = a.clone(); async move { a.delete_sub(S0).await } });
                deleted_at = Some(cx.now_ms());
            }
        }
        // the pull-only subscription was never pushed (every request named S0) and still holds its copies
        let st = tryv!(cx.stats(S1).await);
        match st {
            Some(s) if s.backlog == n_msgs && s.outstanding == 0 => {}
            other => return ScenarioOut::viol("push/pull-subscription-touched", format!("{}: the pull-only subscription has {:?}, expected backlog {}", name, other, n_msgs)),
        }
        // accepted messages are gone from the push subscription, everything else is still held by it
        if deleted_at.is_none() && recreated_at.is_none() {
            let acc = (0..n).filter(|k| seen.iter().any(|s| s.msg == *k && match &s.answer { PushAnswer::Status(st) => accepted(*st), PushAnswer::Delay(ms, st) => accepted(*st) && (*ms as i64) < lease_ms && s.at_ms + (*ms as i64) <= cx.now_ms(), _ => false })).count();
            let st = tryv!(cx.stats(S0).await).unwrap();
            if st.backlog + st.outstanding != n - acc {
                return ScenarioOut::viol("push/accounting", format!("{}: {} of {} messages accepted but the subscription holds backlog={} outstanding={}; history {:?}", name, acc, n, st.backlog, st.outstanding, history));
            }
        }
        ScenarioOut { sample: Some(history.join(" ")), ..ScenarioOut::ok(format!("attempts={} accepted-some={}", seen.len().min(9), seen.iter().any(|s| matches!(&s.answer, PushAnswer::Status(st) if accepted(*st))))) }
    })
}

/// DeleteSubscription of a push subscription racing with its re-creation under the same name: whatever the outcome,
/// a subscription that exists afterwards and reports a push endpoint is known to the push loop and gets its messages POSTed.
fn recreate_race_scenario() -> ScenFn {
    scen!([] |cx| {
        cx.set_push_menu(vec![PushAnswer::Status(200)]);
        let a = cx.api.clone();
        must!(cx, "setup:create-topic", { let a = a.clone(); async move { a.create_topic(T0).await } });
        must!(cx, "setup:create-push-sub", { let a = a.clone(); async move { a.create_sub(S0, T0, 10, Some(ENDPOINT)).await } });
        let creators = 1 + cx.choose("creators", 2);
        let hd = { let a = a.clone(); cx.spawn("client:00-delete", async move { a.delete_sub(S0).await }) };
        let n = cx.choose("re-create-after-steps", 16);
        tryv!(cx.run_steps(n as u32).await);
        let mut hcs = vec![];
        for k in 0..creators {
            let a = a.clone();
            hcs.push(cx.spawn(&format!("client:{:02}-create", k + 1), async move { a.create_sub(S0, T0, 10, Some(ENDPOINT)).await }));
        }
        tryv!(cx.quiesce().await);
        {
            let was = cx.freeze(true);
            let q = cx.advance_ms(1000).await;
            cx.freeze(was);
            tryv!(q);
        }
        if !hd.is_finished() || hcs.iter().any(|h| !h.is_finished()) {
            return ScenarioOut::viol("recreate-race/hang", "DeleteSubscription or CreateSubscription has not returned one second after quiescence".to_string());
        }
        let d = res(&hd.await.unwrap());
        let mut cs = vec![];
        for h in hcs {
            cs.push(res(&h.await.unwrap().map(|_| ())));
        }
        let key = format!("delete:{} create:{:?}", d, cs);
        let g = { let a = a.clone(); tryv!(cx.settle("probe:get-sub", async move { a.get_sub(S0).await }).await) };
        let reg: std::collections::BTreeSet<String> = cx.parts.push.entries().into_iter().map(|(n, _)| n.to_string()).collect();
        let wants = g.as_ref().map(|v| v.push_endpoint.is_some()).unwrap_or(false);
        if d == "OK" && cs.iter().all(|c| c != "OK") && g.is_ok() {
            return ScenarioOut::viol("recreate-race/deleted-subscription-exists", format!("{}: the subscription still exists", key));
        }
        if cs.iter().any(|c| c == "OK") && d != "OK" && g.is_err() {
            // (a Delete answered with an error status next to the racing create may or may not have taken effect)
        }
        if wants != reg.contains(S0) {
            return ScenarioOut::viol("recreate-race/push-registration", format!("{}: afterwards GetSubscription {} a push endpoint for {}, but the push registry {} it", key, if wants { "reports" } else { "does not report" }, S0, if reg.contains(S0) { "contains" } else { "does not contain" }));
        }
        if wants {
            // end to end: a message published now is POSTed within the next push rounds
            let a3 = a.clone();
            let ids = must!(cx, "client:publish-probe", async move { a3.publish(T0, vec![(b"probe".to_vec(), vec![])]).await });
            let was = cx.freeze(true);
            let mut q = Ok(());
            for _ in 0..250 {
                if q.is_ok() {
                    q = cx.advance_ms(10).await;
                }
            }
            cx.freeze(was);
            tryv!(q);
            let log = cx.push_log();
            if !log.iter().any(|att| String::from_utf8_lossy(&att.body).contains(&ids[0])) {
                return ScenarioOut::viol("recreate-race/not-pushed", format!("{}: the re-created push subscription exists, but a message published to its topic was not POSTed within 2.5 s ({} POSTs seen)", key, log.len()));
            }
        }
        ScenarioOut::ok(format!("{} exists={} registered={}", key, g.is_ok(), reg.contains(S0)))
    })
}

/// The push subscription is deleted and its name re-used (pull-only, or with another endpoint) while the push loop is
/// in the middle of a round: a message that only the new subscription can hold must never be POSTed to the old
/// endpoint, and a pull-only subscription is never POSTed to at all.
fn name_reuse_scenario() -> ScenFn {
    scen!([] |cx| {
        cx.set_push_menu(vec![PushAnswer::Status(200)]);
        let a = cx.api.clone();
        must!(cx, "setup:create-topic", { let a = a.clone(); async move { a.create_topic(T0).await } });
        must!(cx, "setup:create-push-sub", { let a = a.clone(); async move { a.create_sub(S0, T0, 10, Some(ENDPOINT)).await } });
        // a second registered push subscription, so that the loop has something to do before / after S0
        must!(cx, "setup:create-push-sub", { let a = a.clone(); async move { a.create_sub(S2, T0, 10, Some("http://push.example/other")).await } });
        {
            let was = cx.freeze(true);
            let q = cx.advance_ms(900).await;
            cx.freeze(was);
            tryv!(q);
        }
        let new_kind = cx.choose("re-created-as", 2); // 0 = pull-only, 1 = push to another endpoint
        let new_endpoint = if new_kind == 0 { None } else { Some("http://push.example/new") };
        let h = {
            let a = a.clone();
            cx.spawn("client:00-reuse", async move {
                let d = a.delete_sub(S0).await;
                let c = a.create_sub(S0, T0, 10, new_endpoint).await;
                let p = a.publish(T0, vec![(b"for-the-new-one".to_vec(), vec![])]).await;
                (d, c.map(|_| ()), p)
            })
        };
        // the push loop's next round starts at ~1001 ms: the client and the loop run together (schedules explored)
        let mut q = cx.advance_ms(102).await;
        if q.is_ok() {
            q = cx.quiesce().await;
        }
        tryv!(q);
        {
            let was = cx.freeze(true);
            let mut q = Ok(());
            for _ in 0..240 {
                if q.is_ok() {
                    q = cx.advance_ms(10).await;
                }
            }
            cx.freeze(was);
            tryv!(q);
        }
        if !h.is_finished() {
            return ScenarioOut::viol("name-reuse/hang", "delete; create; publish has not finished 2.5 s later".to_string());
        }
        let (d, c, p) = h.await.unwrap();
        let key = format!("delete:{} create:{} publish:{}", res(&d), res(&c), res(&p.as_ref().map(|_| ()).map_err(|e| *e)));
        if let (Ok(()), Ok(()), Ok(ids)) = (&d, &c, &p) {
            let log = cx.push_log();
            let mut posted_new = false;
            for att in &log {
                let body = String::from_utf8_lossy(&att.body).to_string();
                if body.contains(&ids[0]) && body.contains(S0) {
                    match new_endpoint {
                        None => return ScenarioOut::viol("name-reuse/pull-only-subscription-posted-to", format!("{}: the message published after {} was re-created WITHOUT a push endpoint was POSTed to {}", key, S0, att.url)),
                        Some(e) if att.url != e => return ScenarioOut::viol("name-reuse/posted-to-old-endpoint", format!("{}: the message published after {} was re-created with endpoint {} was POSTed to {}", key, S0, e, att.url)),
                        _ => posted_new = true,
                    }
                }
            }
            if new_endpoint.is_some() && !posted_new {
                return ScenarioOut::viol("name-reuse/not-pushed", format!("{}: the re-created push subscription's message was not POSTed to its endpoint within 2.5 s", key));
            }
        }
        ScenarioOut::ok(key)
    })
}

/// DeleteSubscription arrives in the MIDDLE of a push round: several messages were pulled for this round and are
/// POSTed 5 ms apart to an endpoint that takes seconds to answer.  No POST may start after DeleteSubscription returned.
fn delete_mid_round_scenario() -> ScenFn {
    scen!([] |cx| {
        cx.set_push_menu(vec![PushAnswer::Delay(3_000, 200)]);
        let a = cx.api.clone();
        must!(cx, "setup:create-topic", { let a = a.clone(); async move { a.create_topic(T0).await } });
        must!(cx, "setup:create-push-sub", { let a = a.clone(); async move { a.create_sub(S0, T0, 10, Some(ENDPOINT)).await } });
        let n = 6usize;
        let msgs: Vec<Msg> = (0..n).map(|i| (format!("message-{}", i).into_bytes(), vec![])).collect();
        must!(cx, "setup:publish", { let a = a.clone(); async move { a.publish(T0, msgs).await } });
        // the push loop's next round begins at ~1001 ms; the deletion is issued `off` ms into it
        let offs = [0u64, 1, 3, 6, 8, 11, 13, 16, 21, 40];
        let off = offs[cx.choose("delete-ms-into-the-round", offs.len())];
        {
            let was = cx.freeze(true);
            let mut q = cx.advance_ms(1_001).await;
            for _ in 0..off {
                if q.is_ok() {
                    q = cx.advance_ms(1).await;
                }
            }
            cx.freeze(was);
            tryv!(q);
        }
        let before = cx.push_log().len();
        must!(cx, "client:delete-sub", { let a = a.clone(); async move { a.delete_sub(S0).await } });
        let deleted_at = cx.now_ms();
        let deleted_step = cx.step();
        {
            let was = cx.freeze(true);
            let mut q = Ok(());
            for _ in 0..220 {
                if q.is_ok() {
                    q = cx.advance_ms(10).await;
                }
            }
            cx.freeze(was);
            tryv!(q);
        }
        let log = cx.push_log();
        for att in &log {
            if att.step > deleted_step {
                return ScenarioOut::viol("push/after-delete", format!("delete-mid-round: DeleteSubscription returned at {} ms ({} ms into the round, {} POSTs had started); a POST started at {} ms", deleted_at, off, before, att.at_ms));
            }
        }
        ScenarioOut::ok(format!("off={} posts-before={}", off, before.min(9)))
    })
}

fn status_sweep() -> Unit {
    let f: ScenFn = scen!(|cx| {
        let status = 100 + cx.choose("status", 500) as u16;
        cx.set_push_menu(vec![PushAnswer::Status(status)]);
        let a = cx.api.clone();
        must!(cx, "setup:create-topic", { let a = a.clone(); async move { a.create_topic(T0).await } });
        must!(cx, "setup:create-push-sub", { let a = a.clone(); async move { a.create_sub(S0, T0, 10, Some(ENDPOINT)).await } });
        must!(cx, "setup:publish", { let a = a.clone(); async move { a.publish(T0, vec![(b"x".to_vec(), vec![])]).await } });
        let was = cx.freeze(true);
        let q1 = cx.advance_ms(ROUND_MS).await;
        let first = cx.push_log().len();
        let q2 = cx.advance_ms(ROUND_MS).await;
        cx.freeze(was);
        tryv!(q1);
        tryv!(q2);
        let second = cx.push_log().len() - first;
        if first != 1 {
            return ScenarioOut::viol("push/first-round", format!("status {}: {} POSTs in the first round", status, first));
        }
        let st = tryv!(cx.stats(S0).await).unwrap();
        if accepted(status) {
            if second != 0 || st.backlog + st.outstanding != 0 {
                return ScenarioOut::viol("push/accepted-status-not-honoured", format!("status {} must count as success: {} further POSTs, backlog={} outstanding={}", status, second, st.backlog, st.outstanding));
            }
        } else if second != 1 {
            return ScenarioOut::viol("push/failure-status-not-retried", format!("status {} must count as failure: {} POSTs in the next round, backlog={} outstanding={}", status, second, st.backlog, st.outstanding));
        }
        ScenarioOut { sample: Some(format!("status {}", status)), ..ScenarioOut::ok(if accepted(status) { "accepted" } else { "retried" }) }
    });
    explore_unit("fault/status-sweep", "one attempt answered with every status 100..599: exactly {102,200,201,202,204} end the retries", Bounds::new(0), ExecCfg { points_on: false, push_interval_ms: Some(1000), ..Default::default() }, f)
}

pub fn interference_unit() -> Unit {
    use PushAnswer::*;
    let cfg = ExecCfg { push_interval_ms: Some(1000), ..Default::default() };
    explore_unit("fault/interference", "2 messages failing in the first round; between the rounds: a rejected duplicate CreateSubscription of the push subscription (with / without endpoint), an unrelated create, a get, delete + re-create of the push subscription, DeleteTopic: the retries go on regardless (for the new incarnation: its own messages)", Bounds::new(0), cfg, scenario_x("interference", 2, 3, vec![Status(500), Status(200)], None, true, true))
}

pub fn units(thorough: bool) -> Vec<Unit> {
    use PushAnswer::*;
    let cfg = ExecCfg { push_interval_ms: Some(1000), ..Default::default() };
    let instant: Vec<PushAnswer> = vec![Status(200), Status(204), Status(400), Status(500), Status(301), Status(100), ConnError];
    let slow: Vec<PushAnswer> = vec![Delay(12_000, 200), Status(200), Status(503), Delay(3_000, 200), Delay(3_000, 500)];
    let mut v = vec![
        explore_unit("fault/1msg", format!("1 message, answers from {:?}, all sequences over {} rounds", instant, if thorough { 7 } else { 4 }), Bounds::new(0), cfg.clone(), scenario("1msg", 1, if thorough { 7 } else { 4 }, instant.clone(), None, true)),
        explore_unit("fault/2msg", format!("2 messages, same answers, all sequences over {} rounds", if thorough { 4 } else { 3 }), Bounds::new(0), cfg.clone(), scenario("2msg", 2, if thorough { 4 } else { 3 }, instant.clone(), None, true)),
        explore_unit("fault/slow-endpoint", format!("1 message, answers from {:?} (no answer within the 10 s deadline, late answers), 14 rounds", slow), Bounds::new(0), cfg.clone(), scenario("slow", 1, 14, slow.clone(), None, true)),
        explore_unit("fault/delete", "2 messages, failing / slow answers, DeleteSubscription after the first or second round: no POST afterwards", Bounds::new(0), cfg.clone(), scenario("delete", 2, 4, vec![Status(500), Delay(2_500, 500), Status(200)], Some(0), true)),
        explore_unit("fault/delete-later", "the same with the deletion after the second round", Bounds::new(0), cfg.clone(), scenario("delete-later", 2, 4, vec![Status(500), Delay(2_500, 500), Status(200)], Some(1), true)),
        explore_unit("fault/2msg-sched", "2 messages, answers {200, 500, connection error}, 3 rounds, with the scheduling of the push tasks, dispatches and actors explored", Bounds::new(if thorough { 2 } else { 1 }), cfg.clone(), scenario("2msg-sched", 2, 3, vec![Status(200), Status(500), ConnError], None, false)),
        explore_unit("fault/long-deadline", "1 message on a push subscription with a 60 s ack deadline; the endpoint answers after 5 / 20 / 40 / 55 s (200 or 500) or at once; 130 rounds: an answer inside the 60 s deadline counts, whatever its delay", Bounds::new(0), cfg.clone(), scenario_y("long-deadline", 1, 130, vec![Delay(40_000, 200), Delay(55_000, 200), Delay(20_000, 500), Delay(5_000, 200), Status(200)], None, true, false, 60)),
        explore_unit("fault/interference", "2 messages failing in the first round; between the rounds a rejected duplicate CreateSubscription of the push subscription (with / without endpoint), an unrelated create, a get: the retries go on regardless", Bounds::new(0), cfg.clone(), scenario_x("interference", 2, 3, vec![Status(500), Status(200)], None, true, true)),
        status_sweep(),
        explore_unit("fault/delete-mid-round", "6 messages, an endpoint that answers after 3 s, DeleteSubscription issued 0-40 ms into the push round (the POSTs of one round start 5 ms apart): no POST starts after DeleteSubscription returned", Bounds::new(if thorough { 1 } else { 0 }), cfg.clone(), delete_mid_round_scenario()),
        explore_unit("sched/name-reuse-during-push-round", "the push subscription is deleted, re-created under the same name pull-only or with another endpoint, and a message is published, all while the push loop starts its round (task orders / preemption points / stalls explored): that message is never POSTed to the old endpoint; a pull-only subscription is never POSTed to", Bounds::new(if thorough { 3 } else { 2 }), cfg.clone(), name_reuse_scenario()),
        explore_unit("sched/delete‖recreate-push", "DeleteSubscription of a push subscription racing with 1-2 CreateSubscription of the same name (started after 0-15 scheduler steps), task orders / select indices / preemption points explored: afterwards a subscription that exists and reports a push endpoint is in the push registry and a new message is POSTed within 2.5 s", Bounds::new(if thorough { 3 } else { 2 }), cfg.clone(), recreate_race_scenario()),
    ];
    if thorough {
        v.push(explore_unit("fault/2msg-slow", "2 messages, slow and failing answers, 13 rounds", Bounds::new(0), cfg.clone(), scenario("2msg-slow", 2, 13, vec![Delay(12_000, 200), Status(200), Status(500)], None, true)));
    }
    v
}
