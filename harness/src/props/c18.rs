//! C18 Resource names are parsed canonically: bounded-exhaustive enumeration of strings around the two
//! fixed segments against an independent recogniser.
use crate::explore::*;
use crate::report::*;
use crate::scen::*;
use crate::world::*;
use crate::{scen, tryv};
use deltio::subscriptions::SubscriptionName;
use deltio::topics::TopicName;
use std::collections::HashMap;
use std::sync::Arc;

const SIGMA: [&str; 6] = ["a", "b", "7", "-", "/", "é"];

fn words(max_len: usize) -> Vec<String> {
    let mut all = vec![String::new()];
    let mut last = vec![String::new()];
    for _ in 0..max_len {
        let mut next = vec![];
        for w in &last {
            for c in SIGMA {
                next.push(format!("{}{}", w, c));
            }
        }
        all.extend(next.iter().cloned());
        last = next;
    }
    all
}

/// exact string + every single-character substitution, deletion and insertion over `alpha`
fn near_misses(exact: &str, alpha: &[&str]) -> Vec<String> {
    let chars: Vec<char> = exact.chars().collect();
    let mut v = vec![exact.to_string()];
    for i in 0..chars.len() {
        let mut d: Vec<char> = chars.clone();
        d.remove(i);
        v.push(d.iter().collect());
        for a in alpha {
            let mut s: String = chars[..i].iter().collect();
            s.push_str(a);
            s.extend(chars[i + 1..].iter());
            v.push(s);
        }
    }
    for i in 0..=chars.len() {
        for a in alpha {
            let mut s: String = chars[..i].iter().collect();
            s.push_str(a);
            s.extend(chars[i..].iter());
            v.push(s);
        }
    }
    v.sort();
    v.dedup();
    v
}

/// The independent reference: `projects/` P `<mid>` I with P non-empty and slash-free, I non-empty.
pub fn recognise<'a>(s: &'a str, mid: &str) -> Option<(&'a str, &'a str)> {
    let rest = s.strip_prefix("projects/")?;
    let slash = rest.find('/')?;
    let (p, tail) = rest.split_at(slash);
    if p.is_empty() {
        return None;
    }
    let id = tail.strip_prefix(mid)?;
    if id.is_empty() {
        return None;
    }
    Some((p, id))
}

struct Acc {
    rep: EnumReport,
    topics: HashMap<String, String>,
    subs: HashMap<String, String>,
    /// keyed by the parsed names themselves, i.e. by the `Eq` / `Hash` the managers' maps use
    topics_by_key: HashMap<TopicName, String>,
    subs_by_key: HashMap<SubscriptionName, String>,
    only: Option<String>,
}

impl Acc {
    fn viol(&mut self, sig: &str, detail: String, case: &str) {
        *self.rep.outcomes.entry(format!("VIOLATION {}", sig)).or_insert(0) += 1;
        if !self.rep.violations.iter().any(|v| v.sig == sig) {
            self.rep.violations.push(EnumViolation { sig: sig.into(), detail, case: case.into() });
        }
    }

    fn case(&mut self, s: &str) {
        if let Some(o) = &self.only {
            if o != s {
                return;
            }
        }
        self.rep.cases += 1;
        self.rep.evaluations += 2;
        // topic names
        let t = TopicName::try_parse(s);
        let rt = recognise(s, "/topics/");
        let key = match (&t, &rt) {
            (Some(_), Some(_)) => "topic:accepted",
            (None, None) => "topic:rejected",
            (None, Some(_)) => "topic:rejected-though-well-formed",
            (Some(_), None) => "topic:ACCEPTED-MALFORMED",
        };
        *self.rep.outcomes.entry(key.into()).or_insert(0) += 1;
        if let Some(tn) = &t {
            match rt {
                None => self.viol("topic/accepted-malformed", format!("TopicName::try_parse accepts {:?} (as {:?}), which is not `projects/<project>/topics/<id>`", s, tn), s),
                Some((p, id)) => {
                    let echo = tn.to_string();
                    match TopicName::try_parse(&echo) {
                        None => self.viol("topic/echo-rejected", format!("{:?} is accepted but its canonical form {:?} is rejected", s, echo), s),
                        Some(tn2) if tn2 != *tn => self.viol("topic/echo-other-resource", format!("{:?} -> {:?} -> {:?}", s, echo, tn2), s),
                        _ => {}
                    }
                    let ident = format!("{:?}", tn);
                    let canon = format!("{}\u{0}{}", p, id);
                    if let Some(prev) = self.topics.get(&ident) {
                        if *prev != canon {
                            self.viol("topic/aliasing", format!("{:?} and a name with (project, id) = {:?} denote the same topic {:?}", s, prev.replace('\u{0}', ", "), tn), s);
                        }
                    } else {
                        self.topics.insert(ident, canon.clone());
                    }
                    match self.topics_by_key.get(tn) {
                        Some(prev) if *prev != canon => self.viol("topic/equal-although-different", format!("{:?} parses to a name that compares equal (Eq/Hash, as used by the managers' maps) to the name with (project, id) = {:?}", s, prev.replace('\u{0}', ", ")), s),
                        Some(_) => {}
                        None => { self.topics_by_key.insert(tn.clone(), canon); }
                    }
                }
            }
        }
        // subscription names
        let n = SubscriptionName::try_parse(s);
        let rn = recognise(s, "/subscriptions/");
        let key = match (&n, &rn) {
            (Some(_), Some(_)) => "sub:accepted",
            (None, None) => "sub:rejected",
            (None, Some(_)) => "sub:rejected-though-well-formed",
            (Some(_), None) => "sub:ACCEPTED-MALFORMED",
        };
        *self.rep.outcomes.entry(key.into()).or_insert(0) += 1;
        if let Some(sn) = &n {
            match rn {
                None => self.viol("subscription/accepted-malformed", format!("SubscriptionName::try_parse accepts {:?} (as {:?}), which is not `projects/<project>/subscriptions/<id>`", s, sn), s),
                Some((p, id)) => {
                    let echo = sn.to_string();
                    match SubscriptionName::try_parse(&echo) {
                        None => self.viol("subscription/echo-rejected", format!("{:?} is accepted but its canonical form {:?} is rejected", s, echo), s),
                        Some(sn2) if sn2 != *sn => self.viol("subscription/echo-other-resource", format!("{:?} -> {:?} -> {:?}", s, echo, sn2), s),
                        _ => {}
                    }
                    let ident = format!("{:?}", sn);
                    let canon = format!("{}\u{0}{}", p, id);
                    if let Some(prev) = self.subs.get(&ident) {
                        if *prev != canon {
                            self.viol("subscription/aliasing", format!("{:?} and a name with (project, id) = {:?} denote the same subscription {:?}", s, prev.replace('\u{0}', ", "), sn), s);
                        }
                    } else {
                        self.subs.insert(ident, canon.clone());
                    }
                    match self.subs_by_key.get(sn) {
                        Some(prev) if *prev != canon => self.viol("subscription/equal-although-different", format!("{:?} parses to a name that compares equal (Eq/Hash, as used by the managers' maps) to the name with (project, id) = {:?}", s, prev.replace('\u{0}', ", ")), s),
                        Some(_) => {}
                        None => { self.subs_by_key.insert(sn.clone(), canon); }
                    }
                }
            }
        }
        if self.rep.samples.len() < 4 && self.rep.cases % 100_003 == 1 {
            self.rep.samples.push(s.to_string());
        }
    }
}

const PLAINLY_VALID: [(&str, bool); 6] = [
    ("projects/my-project/topics/my-topic", true),
    ("projects/lets-go/topics/deltio", true),
    ("projects/p1/topics/orders.v1", true),
    ("projects/my-project/subscriptions/my-sub", false),
    ("projects/lets-go/subscriptions/deltio", false),
    ("projects/p1/subscriptions/orders.v1-worker", false),
];

fn enumerate(thorough: bool) -> EnumFn {
    Arc::new(move |only: Option<&str>, _known: &dyn Fn(&str) -> bool| {
        let mut acc = Acc { rep: EnumReport { exhaustive: true, ..Default::default() }, topics: HashMap::new(), subs: HashMap::new(), topics_by_key: HashMap::new(), subs_by_key: HashMap::new(), only: only.map(|s| s.to_string()) };
        let alpha = ["a", "7", "-", "/", "é", "s", "P"];
        let pres = near_misses("projects/", &alpha);
        let mut mids = near_misses("/topics/", &alpha);
        mids.extend(near_misses("/subscriptions/", &alpha));
        mids.extend(["/xxxxxx/", "/topicz/", "/TOPICS/", "/subscriptionz/", "/éééééé/", "/", "//", "topics", "/topics", "topics/", "/topic/s/", "/subs/"].iter().map(|s| s.to_string()));
        mids.sort();
        mids.dedup();
        let w2 = words(2);
        let w3 = words(3);
        let deep = if thorough { &w3 } else { &w2 };
        // (a) damaged `projects/` prefix, exact middle segment
        for pre in &pres {
            for mid in ["/topics/", "/subscriptions/"] {
                for p in deep {
                    for id in deep {
                        acc.case(&format!("{}{}{}{}", pre, p, mid, id));
                    }
                }
            }
        }
        // (b) exact prefix, damaged / foreign / garbage middle segment
        for mid in &mids {
            for p in deep {
                for id in deep {
                    acc.case(&format!("projects/{}{}{}", p, mid, id));
                }
            }
        }
        // (c) exact prefix and middle, longer project and id
        for mid in ["/topics/", "/subscriptions/"] {
            for p in &w3 {
                for id in &w3 {
                    acc.case(&format!("projects/{}{}{}", p, mid, id));
                }
            }
        }
        // (d) everything short after the prefix, and everything short at all
        for w in words(if thorough { 7 } else { 6 }) {
            acc.case(&format!("projects/{}", w));
            acc.case(&w);
        }
        // (e) longer ids with embedded segments
        for id in ["a/topics/b", "a/subscriptions/b", "x/", "/x", "x//", "topics/x", "a b", "é/é", "projects/p/topics/t"] {
            for mid in ["/topics/", "/subscriptions/"] {
                acc.case(&format!("projects/proj{}{}", mid, id));
            }
        }
        // (f) whole segments repeated, swapped or missing: every sequence of up to 6 tokens
        {
            let toks = ["projects/", "/topics/", "/subscriptions/", "topics/", "p", "t", "/"];
            let mut last = vec![String::new()];
            for _ in 0..(if thorough { 7 } else { 6 }) {
                let mut next = vec![];
                for w in &last {
                    for t in toks {
                        next.push(format!("{}{}", w, t));
                    }
                }
                for w in &next {
                    acc.case(w);
                }
                last = next;
            }
        }
        // (g) strings the server itself produces or contains as literals (markers, canonical forms of special values),
        //     bare and in the places where a client could send them back
        {
            let deleted_topic = TopicName::deleted().to_string();
            let mut lits: Vec<String> = vec!["_deleted_topic_".into(), "_deleted_topic".into(), "deleted_topic_".into(), deleted_topic.clone()];
            for l in lits.clone() {
                lits.push(format!("projects/{}", l));
                lits.push(format!("projects/p/{}", l));
                lits.push(format!("topics/{}", l));
                lits.push(format!("/topics/{}", l));
                lits.push(format!("/subscriptions/{}", l));
                lits.push(format!("{}/", l));
                lits.push(format!("/{}", l));
                lits.push(l.to_uppercase());
            }
            for l in &lits {
                acc.case(l);
            }
        }
        // plainly valid names must be accepted (a reject-everything parser would satisfy everything above)
        for (s, is_topic) in PLAINLY_VALID {
            if only.is_some() && only != Some(s) {
                continue;
            }
            acc.rep.evaluations += 1;
            let ok = if is_topic { TopicName::try_parse(s).map(|t| t.to_string() == s).unwrap_or(false) } else { SubscriptionName::try_parse(s).map(|t| t.to_string() == s).unwrap_or(false) };
            if !ok {
                acc.viol("valid-name-rejected", format!("the plainly valid name {:?} is not accepted (or echoed differently)", s), s);
            }
        }
        acc.rep.validated = acc.rep.cases;
        acc.rep.note = "strings = damaged-prefix x exact-middle x words, exact-prefix x damaged/foreign/garbage-middle x words, exact x words<=3, all words<=6(7) bare and after `projects/`; alphabet {a,b,7,-,/,é}; each string parsed as topic name and as subscription name and compared with the reference recogniser; echo round-trip and aliasing checked for every accepted string".into();
        acc.rep
    })
}

/// The same through the API: names the parser accepts are created, echoed, and looked up by their echo.
fn api_unit() -> Unit {
    let names: Vec<(String, String)> = {
        let mut v = vec![];
        for id in ["t", "t0", "a/b", "x/", "é", "t-1", "topics", "a/topics/b"] {
            for p in ["p", "my-proj", "é"] {
                v.push((format!("projects/{}/topics/{}", p, id), format!("projects/{}/subscriptions/{}", p, id)));
            }
        }
        v
    };
    let n = names.len();
    let f: ScenFn = scen!([names] |cx| {
        let k = cx.choose("name", n);
        let (t, s) = names[k].clone();
        let a = cx.api.clone();
        let t2 = t.clone();
        let r = tryv!(cx.settle("client:create-topic", async move { a.create_topic(&t2).await }).await);
        let mut key = format!("create-topic:{}", res(&r));
        if let Ok(echo) = r {
            if recognise(&t, "/topics/").is_none() {
                return ScenarioOut::viol("api/topic-accepted-malformed", format!("CreateTopic accepted {:?}", t));
            }
            if echo != t {
                return ScenarioOut::viol("api/topic-echo-differs", format!("CreateTopic({:?}) echoed {:?}", t, echo));
            }
            let a = cx.api.clone();
            let e2 = echo.clone();
            let g = tryv!(cx.settle("client:get-topic", async move { a.get_topic(&e2).await }).await);
            if g != Ok(echo.clone()) {
                return ScenarioOut::viol("api/topic-echo-not-found", format!("GetTopic(echo {:?}) = {:?}", echo, g));
            }
            let a = cx.api.clone();
            let (s2, t2) = (s.clone(), t.clone());
            let c = tryv!(cx.settle("client:create-sub", async move { a.create_sub(&s2, &t2, 10, None).await }).await);
            key = format!("{} create-sub:{}", key, res(&c));
            if let Ok(view) = c {
                if recognise(&s, "/subscriptions/").is_none() {
                    return ScenarioOut::viol("api/subscription-accepted-malformed", format!("CreateSubscription accepted {:?}", s));
                }
                if view.name != s || view.topic != t {
                    return ScenarioOut::viol("api/subscription-echo-differs", format!("CreateSubscription({:?} -> {:?}) echoed {:?}", s, t, view));
                }
                let a = cx.api.clone();
                let n2 = view.name.clone();
                let g = tryv!(cx.settle("client:get-sub", async move { a.get_sub(&n2).await }).await);
                if g.as_ref().map(|v| v.name.clone()) != Ok(view.name.clone()) {
                    return ScenarioOut::viol("api/subscription-echo-not-found", format!("GetSubscription(echo {:?}) = {:?}", view.name, g));
                }
            }
        }
        ScenarioOut { sample: Some(t.clone()), ..ScenarioOut::ok(key) }
    });
    explore_unit("input/api-echo", "names accepted by the parser are created through the API, the echoed name must be the given one and must resolve", Bounds::new(0), ExecCfg { points_on: false, ..Default::default() }, f)
}

/// Names that differ only in the project denote different resources - through every RPC, including follow-up
/// requests on an open stream.
fn two_projects_unit() -> Unit {
    let f: ScenFn = scen!(|cx| {
        let a = cx.api.clone();
        let (t1, t2) = ("projects/one/topics/shared", "projects/two/topics/shared");
        let (s1, s2) = ("projects/one/subscriptions/shared", "projects/two/subscriptions/shared");
        for (t, s) in [(t1, s1), (t2, s2)] {
            let r = tryv!(cx.settle("setup:create", { let a = a.clone(); async move { a.create_topic(t).await?; a.create_sub(s, t, 10, None).await.map(|_| ()) } }).await);
            if r.is_err() { return ScenarioOut::viol("setup/create", format!("{:?}", r)); }
        }
        let r = tryv!(cx.settle("setup:publish", { let a = a.clone(); async move { a.publish(t1, vec![(b"one".to_vec(), vec![])]).await } }).await);
        if r.is_err() { return ScenarioOut::viol("setup/publish", format!("{:?}", r)); }
        let held = tryv!(cx.settle("setup:pull", { let a = a.clone(); async move { a.pull(s1, 1, true).await } }).await).unwrap_or_default();
        if held.len() != 1 { return ScenarioOut::viol("setup/pull", "no message".to_string()); }
        let id = held[0].ack_id.clone();
        let via = cx.choose("via", 5);
        let id2 = id.clone();
        let what = tryv!(cx.settle_opt("client:other-project", { let a = a.clone(); async move {
            match via {
                0 => res(&a.ack(s2, vec![id2]).await),
                1 => res(&a.modify(s2, vec![id2], 0).await),
                2 => res(&a.pull(s2, 10, true).await.map(|v| assert!(v.is_empty(), "message of project one pulled through project two"))),
                3 => res(&a.delete_sub(s2).await),
                _ => {
                    // follow-up on project one's stream that names project two's subscription and acks
                    let (tx, r) = a.streaming_pull(first_stream_req(s1, 10)).await;
                    let _ = tx.send(deltio::pubsub_proto::StreamingPullRequest { subscription: s2.into(), ack_ids: vec![id2], ..Default::default() }).await;
                    drop(tx);
                    match r { Err(c) => format!("{:?}", c), Ok(mut st) => loop { match st.message().await { Ok(Some(_)) => {}, Ok(None) => break "OK".to_string(), Err(e) => break format!("{:?}", e.code()) } } }
                }
            }
        } }).await).unwrap_or_else(|| "OPEN".into());
        // project one's delivery must be untouched: still outstanding, still acknowledgeable under its own name
        let st = tryv!(cx.stats(s1).await);
        match st {
            Some(s) if s.outstanding + s.backlog == 1 => {}
            other => return ScenarioOut::viol("api/names-differing-in-project-alias", format!("an operation through {} (via {}) returned {} and changed {}: {:?}", s2, via, what, s1, other)),
        }
        if via == 4 && what != "InvalidArgument" {
            return ScenarioOut::viol("api/stream-follow-up-names-other-subscription", format!("a follow-up request naming {} on a stream opened for {} was answered with {}", s2, s1, what));
        }
        ScenarioOut { sample: Some(format!("via {} -> {}", via, what)), ..ScenarioOut::ok(format!("via{}:{}", via, what)) }
    });
    explore_unit("input/api-two-projects", "two projects with a topic and a subscription of the same id: ack / nack / pull / delete / stream follow-up through the other project's name never touch this project's resource", Bounds::new(0), ExecCfg { points_on: false, ..Default::default() }, f)
}

pub fn units(thorough: bool) -> Vec<Unit> {
    vec![
        Unit::enumerate(
            "input/parse",
            "TopicName::try_parse and SubscriptionName::try_parse on every string of the enumerated set vs. an independent recogniser; echo round trip; aliasing",
            enumerate(thorough),
        ),
        api_unit(),
        two_projects_unit(),
    ]
}
