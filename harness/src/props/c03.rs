//! C03 A delivered message is exclusively leased until its deadline.
use crate::engine::PushAnswer;
use crate::explore::*;
use crate::litmus::*;
use crate::report::Unit;
use crate::scen::*;
use crate::world::*;
use crate::{must, scen, tryv};
use std::collections::BTreeMap;

#[derive(Clone, Debug)]
pub struct Deliv {
    pub msg: String,
    pub ack: String,
    pub recv_ms: i64,
    pub recv_step: u64,
    pub who: String,
}

/// The lease oracle over a complete history.  `ended` lists (ack id, step at which its nack/ack/modify-0 was invoked).
pub fn lease_oracle(name: &str, d_ms: i64, delivs: &[Deliv], ended: &[(String, u64)], batches: &[Vec<String>]) -> Result<(), Verdict> {
    for b in batches {
        let mut s = b.clone();
        s.sort();
        s.dedup();
        if s.len() != b.len() {
            return Err(Verdict::Violation { sig: format!("{}/duplicate-in-one-response", name), detail: format!("a response contains a message twice: {:?}", b) });
        }
    }
    let mut seen_acks: BTreeMap<&str, &Deliv> = BTreeMap::new();
    for d in delivs {
        if let Some(prev) = seen_acks.insert(d.ack.as_str(), d) {
            return Err(Verdict::Violation { sig: format!("{}/ack-id-reused", name), detail: format!("ack id {} was handed out twice: to {} (message {}) and to {} (message {})", d.ack, prev.who, prev.msg, d.who, d.msg) });
        }
    }
    let key = |d: &Deliv| d.ack.parse::<u64>().map(|n| (0, n, 0)).unwrap_or((1, 0, d.recv_step));
    for a in delivs {
        for b in delivs {
            if a.msg != b.msg || a.ack == b.ack || key(a) >= key(b) {
                continue;
            }
            // a was handed out before b: a's lease must have ended before b was received
            let by_time = b.recv_ms >= a.recv_ms + d_ms;
            let by_nack = ended.iter().any(|(id, step)| *id == a.ack && *step <= b.recv_step);
            if !by_time && !by_nack {
                return Err(Verdict::Violation {
                    sig: format!("{}/delivered-while-leased", name),
                    detail: format!(
                        "message {} was handed to {} (ack id {}, t={} ms) and again to {} (ack id {}, t={} ms) although the first lease ({} ms) had neither elapsed nor been given up",
                        a.msg, a.who, a.ack, a.recv_ms, b.who, b.ack, b.recv_ms, d_ms
                    ),
                });
            }
        }
    }
    Ok(())
}

pub fn collect(l: &Litmus) -> (Vec<Deliv>, Vec<(String, u64)>, Vec<Vec<String>>) {
    let mut delivs = vec![];
    let mut ended = vec![];
    let mut batches = vec![];
    for c in l.hist.calls() {
        if let R::Msgs(Ok(v)) = &c.result {
            batches.push(v.iter().map(|m| m.msg_id.clone()).collect());
            for m in v {
                delivs.push(Deliv { msg: m.msg_id.clone(), ack: m.ack_id.clone(), recv_ms: c.ret_ms, recv_step: c.ret_step.unwrap_or(u64::MAX), who: format!("client {} ({:?})", c.client, c.op) });
            }
        }
        if matches!(c.op, COp::NackHeld(..) | COp::NackLast(..) | COp::AckHeld(..) | COp::AckLast(..)) || matches!(c.op, COp::ModHeld(_, _, 0)) {
            for id in &c.arg_ids {
                ended.push((id.clone(), c.invoke_step));
            }
        }
    }
    (delivs, ended, batches)
}

fn scenario(name: &'static str, progs: Vec<Vec<COp>>, with_expiry: bool) -> ScenFn {
    scen!([progs] |cx| {
        let a = cx.api.clone();
        must!(cx, "setup:create-topic", { let a = a.clone(); async move { a.create_topic(T0).await } });
        must!(cx, "setup:create-sub", { let a = a.clone(); async move { a.create_sub(S0, T0, 10, None).await } });
        let l = start(&cx, &progs, &[]);
        tryv!(cx.quiesce().await);
        if with_expiry {
            // deliveries nobody acknowledged come back at the deadline; the waiting consumers get them again
            for t in [9_999, 10_000 + SLACK_MS, 20_000 + 2 * SLACK_MS, 30_500] {
                tryv!(cx.advance_to_ms(t).await);
            }
        } else {
            tryv!(cx.advance_ms(1000).await);
        }
        let (delivs, ended, batches) = collect(&l);
        let key = l.hist.key();
        tryv!(l.close_streams(&cx).await);
        tryv!(lease_oracle(name, 10_000, &delivs, &ended, &batches));
        ScenarioOut::ok(format!("deliveries={} {}", delivs.len(), key))
    })
}

/// Push dispatch and pull consumers on the same subscription, slow endpoint.
fn push_scenario() -> ScenFn {
    scen!(|cx| {
        let a = cx.api.clone();
        cx.set_push_menu(vec![PushAnswer::Delay(3_000, 500), PushAnswer::Status(500), PushAnswer::Status(200)]);
        must!(cx, "setup:create-topic", { let a = a.clone(); async move { a.create_topic(T0).await } });
        must!(cx, "setup:create-sub", { let a = a.clone(); async move { a.create_sub(S0, T0, 10, Some("http://push.example/x")).await } });
        must!(cx, "setup:publish", { let a = a.clone(); async move { a.publish(T0, vec![(b"a".to_vec(), vec![]), (b"b".to_vec(), vec![])]).await } });
        // a pull consumer polls the same subscription every 400 ms
        let progs = vec![vec![COp::Sleep(1200), COp::PullNow(S0, 10), COp::Sleep(400), COp::PullNow(S0, 10), COp::Sleep(400), COp::PullNow(S0, 10), COp::Sleep(1500), COp::PullNow(S0, 10), COp::Sleep(1500), COp::PullNow(S0, 10)]];
        let l = start(&cx, &progs, &[]);
        for _ in 0..60 {
            tryv!(cx.advance_ms(100).await);
        }
        let (mut delivs, ended, batches) = collect(&l);
        // push attempts are deliveries too; their lease ends when the endpoint has answered with a failure (nack follows at once)
        let log = cx.push_log();
        let mut ended = ended;
        for (i, att) in log.iter().enumerate() {
            let j: serde_json::Value = serde_json::from_slice(&att.body).unwrap_or_default();
            let id = j["message"]["messageId"].as_str().unwrap_or("?").to_string();
            let ack = format!("push#{}", i);
            delivs.push(Deliv { msg: id, ack: ack.clone(), recv_ms: att.at_ms, recv_step: att.step, who: format!("push attempt {} ({:?})", i, att.answer) });
            let _ = (&mut ended, ack);
        }
        // order all deliveries by the step at which they were received and check consecutive ones per message
        delivs.sort_by_key(|d| d.recv_step);
        for w in 0..delivs.len() {
            for v in w + 1..delivs.len() {
                let (x, y) = (&delivs[w], &delivs[v]);
                if x.msg != y.msg {
                    continue;
                }
                // when did x's lease end at the latest?  push: at the answer (failure => nack) ; pull: deadline, or its nack
                let x_end = if let Some(i) = x.ack.strip_prefix("push#") {
                    match &log[i.parse::<usize>().unwrap()].answer {
                        PushAnswer::Delay(ms, _) => x.recv_ms + *ms as i64,
                        _ => x.recv_ms,
                    }
                } else if ended.iter().any(|(id, st)| *id == x.ack && *st <= y.recv_step) {
                    y.recv_ms
                } else {
                    x.recv_ms + 10_000
                };
                if y.recv_ms < x_end.min(x.recv_ms + 10_000) {
                    return ScenarioOut::viol("push+pull/delivered-while-leased", format!("message {} went to {} at {} ms (lease until {} ms) and to {} at {} ms", x.msg, x.who, x.recv_ms, x_end, y.who, y.recv_ms));
                }
                break;
            }
        }
        for b in &batches {
            let mut s = b.clone();
            s.sort();
            s.dedup();
            if s.len() != b.len() {
                return ScenarioOut::viol("push+pull/duplicate-in-one-response", format!("{:?}", b));
            }
        }
        let key = format!("pushes={} pulls={}", log.len().min(12), delivs.len() - log.len());
        tryv!(l.close_streams(&cx).await);
        ScenarioOut::ok(key)
    })
}

/// A Pull whose caller disappears after k polls, followed by timed re-pulls: the message it may have been handed
/// stays leased until its deadline, and whoever gets it next holds it exclusively.
fn abandoned_pull_scenario() -> ScenFn {
    scen!(|cx| {
        let a = cx.api.clone();
        must!(cx, "setup:create-topic", { let a = a.clone(); async move { a.create_topic(T0).await } });
        must!(cx, "setup:create-sub", { let a = a.clone(); async move { a.create_sub(S0, T0, 10, None).await } });
        must!(cx, "setup:publish", { let a = a.clone(); async move { a.publish(T0, vec![(b"m".to_vec(), vec![]), (b"n".to_vec(), vec![])]).await } });
        let kind = cx.choose("victim", 3);
        let k = cx.choose("abandon-after-polls", 6);
        let a2 = a.clone();
        let h = cx.spawn("client:0-victim", async move {
            match kind {
                0 => { let _ = a2.pull(S0, 10, true).await; }
                1 => { let _ = a2.pull(S0, 1, false).await; }
                _ => {
                    let (tx, r) = a2.streaming_pull(first_stream_req(S0, 10)).await;
                    if let Ok(mut st) = r { let _keep = tx; while let Ok(Some(_)) = st.message().await {} }
                }
            }
        });
        if k < 5 {
            tryv!(cx.quiesce_until_polls("client:0-victim", k as u32).await);
        } else {
            tryv!(cx.quiesce().await);
        }
        cx.abort_now(&h).await;
        tryv!(cx.quiesce().await);
        let mut delivs: Vec<Deliv> = vec![];
        let mut batches = vec![];
        for t in [5_000i64, 10_000 + SLACK_MS, 15_000 + 2 * SLACK_MS, 21_000, 26_000] {
            tryv!(cx.advance_to_ms(t).await);
            let got = tryv!(cx.settle("client:1-pull", { let a = a.clone(); async move { a.pull(S0, 10, true).await } }).await);
            let got = match got { Ok(v) => v, Err(c) => return ScenarioOut::viol("abandoned-pull/pull-failed", format!("{:?}", c)) };
            batches.push(got.iter().map(|m| m.msg_id.clone()).collect());
            for m in got {
                delivs.push(Deliv { msg: m.msg_id, ack: m.ack_id, recv_ms: cx.now_ms(), recv_step: cx.step(), who: format!("pull at {} ms", t) });
            }
        }
        tryv!(lease_oracle("abandoned-pull", 10_000, &delivs, &[], &batches));
        if delivs.is_empty() {
            return ScenarioOut::viol("abandoned-pull/lost", "neither message was ever delivered again in 26 s".to_string());
        }
        ScenarioOut::ok(format!("victim={} k={} deliveries={}", kind, k, delivs.len()))
    })
}

/// Like `abandoned_pull_scenario`, but whatever becomes available afterwards is pulled AND acknowledged by a second
/// consumer: an acknowledged message must never come back (C02), every message is delivered at least once (nothing is
/// lost with the abandoned consumer) and the lease oracle holds for what is seen.
fn abandoned_pull_ack_scenario() -> ScenFn {
    scen!(|cx| {
        let a = cx.api.clone();
        must!(cx, "setup:create-topic", { let a = a.clone(); async move { a.create_topic(T0).await } });
        must!(cx, "setup:create-sub", { let a = a.clone(); async move { a.create_sub(S0, T0, 10, None).await } });
        let ids = must!(cx, "setup:publish", { let a = a.clone(); async move { a.publish(T0, vec![(b"m".to_vec(), vec![]), (b"n".to_vec(), vec![]), (b"o".to_vec(), vec![])]).await } });
        let kind = cx.choose("victim", 4);
        let k = cx.choose("abandon-after-steps", 8);
        let a2 = a.clone();
        let h = cx.spawn("client:0-victim", async move {
            match kind {
                0 => { let _ = a2.pull(S0, 10, true).await; }
                1 => { let _ = a2.pull(S0, 1, false).await; }
                2 => { let _ = a2.pull(S0, 2, true).await; }
                _ => {
                    let (tx, r) = a2.streaming_pull(first_stream_req(S0, 10)).await;
                    if let Ok(mut st) = r { let _keep = tx; while let Ok(Some(_)) = st.message().await {} }
                }
            }
        });
        if k < 7 {
            tryv!(cx.quiesce_until_polls("client:0-victim", 1).await);
            tryv!(cx.run_steps(k as u32).await);
        } else {
            tryv!(cx.quiesce().await);
        }
        cx.abort_now(&h).await;
        tryv!(cx.quiesce().await);
        let mut acked: std::collections::BTreeMap<String, i64> = Default::default();
        let mut seen: std::collections::BTreeSet<String> = Default::default();
        for t in [1_000i64, 5_000, 10_000 + SLACK_MS, 15_000 + 2 * SLACK_MS, 21_000, 26_000, 32_000, 43_000] {
            tryv!(cx.advance_to_ms(t).await);
            let got = tryv!(cx.settle("client:1-pull", { let a = a.clone(); async move { a.pull(S0, 10, true).await } }).await);
            let got = match got { Ok(v) => v, Err(c) => return ScenarioOut::viol("abandoned-pull-ack/pull-failed", format!("{:?}", c)) };
            for m in &got {
                if let Some(at) = acked.get(&m.msg_id) {
                    return ScenarioOut::viol("abandoned-pull-ack/delivered-again-after-ack", format!("victim={} abandoned after {} steps: message {} was acknowledged (OK) at {} ms and delivered again at {} ms", kind, k, m.msg_id, at, t));
                }
                seen.insert(m.msg_id.clone());
            }
            if !got.is_empty() {
                let idsx: Vec<String> = got.iter().map(|m| m.ack_id.clone()).collect();
                let r = tryv!(cx.settle("client:1-ack", { let a = a.clone(); async move { a.ack(S0, idsx).await } }).await);
                if r.is_err() {
                    return ScenarioOut::viol("abandoned-pull-ack/ack-failed", format!("{:?}", r));
                }
                for m in &got {
                    acked.insert(m.msg_id.clone(), t);
                }
            }
        }
        for id in &ids {
            if !seen.contains(id) {
                return ScenarioOut::viol("abandoned-pull-ack/lost", format!("victim={} abandoned after {} steps: message {} was never delivered to the second consumer within 43 s", kind, k, id));
            }
        }
        let st = tryv!(cx.stats(S0).await);
        match st {
            Some(s) if s.backlog == 0 && s.outstanding == 0 => {}
            other => return ScenarioOut::viol("abandoned-pull-ack/residue", format!("victim={} abandoned after {} steps: everything was acknowledged, yet the subscription holds {:?}", kind, k, other)),
        }
        ScenarioOut::ok(format!("victim={} k={}", kind, k))
    })
}

/// Two control messages sent back to back on one StreamingPull: they take effect in the order in which they were sent
/// (the second one's deadline for X is the one that counts), whatever the first one carries besides.
fn stream_control_order_scenario() -> ScenFn {
    scen!([] |cx| {
        let a = cx.api.clone();
        must!(cx, "setup:create-topic", { let a = a.clone(); async move { a.create_topic(T0).await } });
        must!(cx, "setup:create-sub", { let a = a.clone(); async move { a.create_sub(S0, T0, 10, None).await } });
        must!(cx, "setup:publish", { let a = a.clone(); async move { a.publish(T0, vec![(b"x".to_vec(), vec![])]).await } });
        let (s1, s2) = [(20, 60), (60, 20), (0, 30), (30, 40)][cx.choose("deadlines", 4)];
        let first_has_ack = cx.choose("first-message-also-acks", 2) == 1;
        let seen: std::sync::Arc<std::sync::Mutex<Vec<(i64, String)>>> = Default::default();
        let sent_at: std::sync::Arc<std::sync::Mutex<Option<i64>>> = Default::default();
        let (seen2, sent2, cx2, a2) = (seen.clone(), sent_at.clone(), cx.clone(), a.clone());
        let h = cx.spawn("client:00-stream", async move {
            let (tx, r) = a2.streaming_pull(first_stream_req(S0, 10)).await;
            let mut st = match r { Ok(s) => s, Err(_) => return };
            let first = match st.message().await { Ok(Some(m)) if !m.received_messages.is_empty() => to_rm(&m.received_messages[0]), _ => return };
            seen2.lock().unwrap().push((cx2.now_ms(), first.msg_id.clone()));
            let m1 = deltio::pubsub_proto::StreamingPullRequest { ack_ids: if first_has_ack { vec!["9999".into()] } else { vec![] }, modify_deadline_ack_ids: vec![first.ack_id.clone()], modify_deadline_seconds: vec![s1], ..Default::default() };
            let m2 = deltio::pubsub_proto::StreamingPullRequest { modify_deadline_ack_ids: vec![first.ack_id.clone()], modify_deadline_seconds: vec![s2], ..Default::default() };
            let _ = tx.send(m1).await;
            let _ = tx.send(m2).await;
            *sent2.lock().unwrap() = Some(cx2.now_ms());
            while let Ok(Some(m)) = st.message().await {
                for r in &m.received_messages {
                    seen2.lock().unwrap().push((cx2.now_ms(), to_rm(r).msg_id));
                }
            }
            drop(tx);
        });
        tryv!(cx.quiesce().await);
        let t_sent = match *sent_at.lock().unwrap() { Some(t) => t, None => return ScenarioOut::viol("stream-ctl-order/setup", "the stream did not get its message".to_string()) };
        // s1 = 0 is a nack: the stream takes the message again at once and the second message then names a stale id
        let expect_s = if s1 == 0 { None } else { Some(s2 as i64) };
        {
            let was = cx.freeze(true);
            let mut q = Ok(());
            for _ in 0..70 {
                if q.is_ok() {
                    q = cx.advance_ms(1_000).await;
                }
            }
            cx.freeze(was);
            tryv!(q);
        }
        let seen = seen.lock().unwrap().clone();
        h.abort();
        tryv!(cx.quiesce().await);
        if let Some(s) = expect_s {
            // the first redelivery after the two messages must not come before t_sent + s (nor more than ~1 s after it)
            let again: Vec<i64> = seen.iter().skip(1).map(|(t, _)| *t).collect();
            match again.first() {
                Some(t) if *t < t_sent + s * 1000 => return ScenarioOut::viol("stream-ctl-order/earlier-extension-won", format!("control messages [extend to {} s{}] then [extend to {} s] sent back to back at {} ms: the message came back at {} ms, i.e. {} ms after the messages, although the last one set {} s", s1, if first_has_ack { " + an ack" } else { "" }, s2, t_sent, t, t - t_sent, s)),
                Some(t) if *t > t_sent + s * 1000 + 1_200 => return ScenarioOut::viol("stream-ctl-order/later-than-the-last-extension", format!("the message came back {} ms after the control messages although the last one set {} s", t - t_sent, s)),
                None if t_sent + s * 1000 + 1_200 < cx.now_ms() => return ScenarioOut::viol("stream-ctl-order/never-redelivered", format!("the message did not come back within 70 s although the last control message set {} s", s)),
                _ => {}
            }
        }
        ScenarioOut::ok(format!("s1={} s2={} ack={} deliveries={}", s1, s2, first_has_ack, seen.len().min(9)))
    })
}

pub fn stream_control_order_unit(thorough: bool) -> Unit {
    explore_unit("sched/stream-control-order", "two StreamingPull control messages sent back to back for one delivery (extend to s1, optionally with an ack; then extend to s2): the second one counts, the redelivery comes s2 seconds later (schedules explored)", Bounds::new(if thorough { 3 } else { 2 }), ExecCfg::default(), stream_control_order_scenario())
}

pub fn abandoned_pull_ack_unit(thorough: bool) -> Unit {
    explore_unit("crash/abandoned-pull-then-ack", "a Pull / blocking Pull / StreamingPull whose caller disappears k scheduler steps after its first poll (every k); a second consumer then pulls and acknowledges whatever is available at 1 s, 5 s, 10.1 s, ... 43 s: nothing acknowledged comes back, every message arrives, nothing is left over", Bounds::new(if thorough { 2 } else { 1 }), ExecCfg::default(), abandoned_pull_ack_scenario())
}

pub fn units(thorough: bool) -> Vec<Unit> {
    use COp::*;
    let d = if thorough { 5 } else { 3 };
    let mut v = vec![];
    let publisher = vec![Publish(T0, 2)];
    let nacker = vec![PullNow(S0, 1), NackLast(S0), PullNow(S0, 10)];
    let sets: Vec<(&'static str, Vec<Vec<COp>>)> = vec![
        ("pull1+pull10", vec![vec![PullBlock(S0, 1)], vec![PullBlock(S0, 10)], publisher.clone()]),
        ("pull1+stream", vec![vec![PullBlock(S0, 1)], vec![Stream(S0, 10)], publisher.clone()]),
        ("stream+stream", vec![vec![Stream(S0, 10)], vec![Stream(S0, 1)], publisher.clone()]),
        ("pull10+pull10+nacker", vec![vec![PullBlock(S0, 10)], vec![PullBlock(S0, 10)], nacker.clone(), publisher.clone()]),
        ("stream+nacker", vec![vec![Stream(S0, 10)], nacker.clone(), publisher.clone()]),
        ("pull1+pull10+stream", vec![vec![PullBlock(S0, 1)], vec![PullBlock(S0, 10)], vec![Stream(S0, 10)], publisher.clone()]),
        ("repull", vec![vec![PullBlock(S0, 1), PullNow(S0, 10), NackLast(S0), PullNow(S0, 10)], vec![PullBlock(S0, 10), PullNow(S0, 10)], publisher.clone()]),
    ];
    for (n, p) in &sets {
        let dd = if p.len() >= 4 { d - 1 } else { d };
        v.push(explore_unit(format!("sched/{}", n), format!("consumers and a publisher of 2 messages start together: {:?}", p), Bounds::new(dd), ExecCfg::default(), scenario("lease", p.clone(), false)));
    }
    for (n, p) in [("stream+stream", sets[2].1.clone()), ("pull1+stream", sets[1].1.clone())] {
        v.push(explore_unit(format!("sched-expiry/{}", n), format!("{:?}, then the clock crosses three ack deadlines while the consumers keep waiting", p), Bounds::new(d - 1), ExecCfg::default(), scenario("lease-expiry", p, true)));
    }
    v.push(explore_unit("crash/abandoned-pull", "a Pull / blocking Pull / StreamingPull whose caller disappears after k polls (every k), then pulls at 5 s, 10.1 s, 15.2 s, 21 s, 26 s: lease oracle over what they receive", Bounds::new(if thorough { 2 } else { 1 }), ExecCfg::default(), abandoned_pull_scenario()));
    v.push(abandoned_pull_ack_unit(thorough));
    v.push(stream_control_order_unit(thorough));
    v.push(explore_unit(
        "sched/push+pull",
        "push dispatch (slow / failing endpoint answers enumerated) and a polling pull consumer on the same subscription",
        Bounds::new(if thorough { 1 } else { 0 }),
        ExecCfg { push_interval_ms: Some(1000), ..Default::default() },
        push_scenario(),
    ));
    v
}
