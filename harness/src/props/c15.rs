//! C15 Pull batches respect their size limit and are empty only when allowed.
use crate::explore::*;
use crate::report::Unit;
use crate::scen::*;
use crate::world::*;
use crate::{must, scen, tryv};

async fn fill(cx: &Ctx, n: usize) -> Result<(), Verdict> {
    let mut left = n;
    let mut i = 0;
    while left > 0 {
        let k = left.min(5000);
        let msgs: Vec<Msg> = (0..k).map(|j| (format!("{}", i + j).into_bytes(), vec![])).collect();
        let a = cx.api.clone();
        let r = cx.settle("setup:publish", async move { a.publish(T0, msgs).await }).await?;
        if r.map(|v| v.len()) != Ok(k) {
            return Err(Verdict::Violation { sig: "setup/publish".into(), detail: "bulk publish failed".into() });
        }
        left -= k;
        i += k;
    }
    Ok(())
}

pub fn limits_unit(thorough: bool) -> Unit {
    let maxes: Vec<i32> = vec![1, 2, 999, 1000, 1001, 65535, 65536, 65537, i32::MAX];
    let backlogs: Vec<usize> = if thorough { vec![0, 1, 2, 999, 1000, 1001, 65535, 65536, 65537, 66536, 131073] } else { vec![0, 1, 2, 999, 1000, 1001, 65535, 65536, 65537, 66536] };
    let f: ScenFn = scen!([maxes, backlogs] |cx| {
        let max = maxes[cx.choose("max_messages", maxes.len())];
        let backlog = backlogs[cx.choose("backlog", backlogs.len())];
        let via_stream = cx.choose("path", 2) == 1;
        must!(cx, "setup:create-topic", { let a = cx.api.clone(); async move { a.create_topic(T0).await } });
        must!(cx, "setup:create-sub", { let a = cx.api.clone(); async move { a.create_sub(S0, T0, 10, None).await } });
        tryv!(fill(&cx, backlog).await);
        let case = format!("max={} backlog={} via={}", max, backlog, if via_stream { "StreamingPull" } else { "Pull" });
        if !via_stream {
            let a = cx.api.clone();
            let r = tryv!(cx.settle("client:pull", async move { a.pull(S0, max, true).await }).await);
            let got = match r { Ok(v) => v, Err(c) => return ScenarioOut::viol("pull/failed", format!("{}: {:?}", case, c)) };
            if got.len() as i64 > max as i64 {
                return ScenarioOut::viol("pull/over-limit", format!("{}: {} messages returned", case, got.len()));
            }
            if backlog > 0 && got.is_empty() {
                return ScenarioOut::viol("pull/empty-although-available", format!("{}: empty response", case));
            }
            let st = tryv!(cx.stats(S0).await).unwrap();
            if st.backlog + st.outstanding != backlog || st.outstanding != got.len() {
                return ScenarioOut::viol("pull/accounting", format!("{}: returned {}, server now has backlog={} outstanding={}", case, got.len(), st.backlog, st.outstanding));
            }
            return ScenarioOut { sample: Some(case), ..ScenarioOut::ok(format!("pull:{}", if got.len() as i64 == (max as i64).min(backlog as i64) { "min(max,backlog)" } else if got.is_empty() { "empty" } else { "fewer" })) };
        }
        // StreamingPull: every response at most max_outstanding_messages (when positive)
        let a = cx.api.clone();
        let (tx, r) = tryv!(cx.settle("client:stream-open", async move { a.streaming_pull(first_stream_req(S0, max as i64)).await }).await);
        match r {
            Err(c) => {
                // refusing a limit is fine, as long as it is a clean status
                if c != Code::InvalidArgument {
                    return ScenarioOut::viol("stream/refused-with-odd-status", format!("{}: {:?}", case, c));
                }
                ScenarioOut { sample: Some(case), ..ScenarioOut::ok("stream:refused") }
            }
            Ok(mut stream) => {
                let sizes: std::sync::Arc<std::sync::Mutex<Vec<usize>>> = Default::default();
                let s2 = sizes.clone();
                cx.spawn("client:stream-reader", async move {
                    while let Ok(Some(m)) = stream.message().await {
                        s2.lock().unwrap().push(m.received_messages.len());
                    }
                });
                let was = cx.freeze(true);
                let q = cx.quiesce().await;
                cx.freeze(was);
                tryv!(q);
                drop(tx);
                let sizes = sizes.lock().unwrap().clone();
                if let Some(big) = sizes.iter().find(|s| **s as i64 > max as i64) {
                    return ScenarioOut::viol("stream/over-limit", format!("{}: a response with {} messages", case, big));
                }
                let total: usize = sizes.iter().sum();
                if total != backlog {
                    return ScenarioOut::viol("stream/not-drained", format!("{}: the open stream received {} of {} available messages at quiescence", case, total, backlog));
                }
                ScenarioOut { sample: Some(case), ..ScenarioOut::ok(format!("stream:responses={}", sizes.len().min(3))) }
            }
        }
    });
    explore_unit(
        "input/limits",
        "max_messages / max_outstanding_messages in {1,2,999,1000,1001,65535,65536,65537,i32::MAX} x backlog sizes around the same values, via Pull and via StreamingPull",
        Bounds::new(0),
        ExecCfg { points_on: false, max_steps: 2_000_000, ..Default::default() },
        f,
    )
}

/// A blocking Pull returns empty only at its wait limit, and non-empty as soon as something is available.
pub fn blocking_unit(thorough: bool) -> Unit {
    let f: ScenFn = scen!(|cx| {
        must!(cx, "setup:create-topic", { let a = cx.api.clone(); async move { a.create_topic(T0).await } });
        must!(cx, "setup:create-sub", { let a = cx.api.clone(); async move { a.create_sub(S0, T0, 10, None).await } });
        // event that makes a message available while the Pull waits: 0 nothing, 1 publish, 2 nack, 3 expiry,
        // 4 = fruitless wake-ups (empty Publish requests; messages another consumer takes first) and then nothing
        let ev = cx.choose("event", 5);
        let max = [1, 10][cx.choose("max", 2)];
        let mut held: Vec<Rm> = vec![];
        if ev == 2 || ev == 3 {
            must!(cx, "setup:publish", { let a = cx.api.clone(); async move { a.publish(T0, vec![(b"m".to_vec(), vec![])]).await } });
            held = must!(cx, "setup:pull", { let a = cx.api.clone(); async move { a.pull(S0, 1, true).await } });
        }
        // the subscription's topic may have been deleted: it still holds what it held, and a Pull on it still waits
        if (ev == 0 || ev == 2 || ev == 3) && cx.choose("topic-deleted-before-the-pull", 2) == 1 {
            must!(cx, "setup:delete-topic", { let a = cx.api.clone(); async move { a.delete_topic(T0).await } });
        }
        let when_ms = [0u64, 1_000, 150_000][cx.choose("after", 3)];
        // "after 0 ms" for a publish means: the Publish starts together with the Pull (race with its check-then-wait)
        let together = when_ms == 0 && ev == 1;
        let log = Log::default();
        let (cx2, log2) = (cx.clone(), log.clone());
        let h = cx.spawn("client:a-pull", async move {
            let r = cx2.api.pull(S0, max, false).await;
            log2.push(&cx2, "pull", match &r { Ok(v) => format!("OK({})", v.len()), Err(c) => format!("{:?}", c) });
        });
        if together {
            let (cx3, log3) = (cx.clone(), log.clone());
            cx.spawn("client:b-publish", async move {
                let r = cx3.api.publish(T0, vec![(b"x".to_vec(), vec![]), (b"y".to_vec(), vec![])]).await;
                log3.push(&cx3, "publish", res(&r));
            });
            tryv!(cx.quiesce().await);
            if !h.is_finished() {
                return ScenarioOut::viol("blocking/not-woken", format!("a Publish racing with the start of the Pull: the Pull is still waiting at quiescence although messages are available; {}", log.key()));
            }
            let got = log.last_of("pull").unwrap().what;
            let n: usize = got.trim_start_matches("OK(").trim_end_matches(')').parse().unwrap_or(usize::MAX);
            if !got.starts_with("OK(") || n == 0 || n > (max as usize).min(2) {
                return ScenarioOut::viol("blocking/wrong-batch", format!("racing publish, max={}: returned {}", max, got));
            }
            return ScenarioOut::ok(format!("together:{}", log.key_per_client()));
        }
        tryv!(cx.quiesce().await);
        if h.is_finished() {
            return ScenarioOut::viol("blocking/returned-at-once", format!("a Pull without return_immediately on an empty subscription returned {}", log.key()));
        }
        let t_start = cx.now_ms();
        let case = format!("event={} max={} after={}ms", ["none", "publish", "nack", "expiry", "fruitless"][ev], max, when_ms);
        if ev == 4 {
            // woken several times with nothing to take: the wait limit still counts from the start of the request
            let times: Vec<u64> = match cx.choose("fruitless-wake-ups", 3) { 0 => vec![100_000, 150_000], 1 => vec![30_000, 60_000, 90_000, 250_000], _ => vec![299_000] };
            let steal = cx.choose("how", 2) == 1;
            let mut now = 0u64;
            for t in times {
                tryv!(cx.advance_ms(t - now).await);
                now = t;
                if steal {
                    // a message that a return_immediately Pull of another client takes before the waiting Pull is scheduled
                    let a3 = cx.api.clone();
                    let r = tryv!(cx.settle("client:b-publish-and-take", async move { a3.publish(T0, vec![(b"s".to_vec(), vec![])]).await?; a3.pull(S0, 10, true).await.map(|v| v.len()) }).await);
                    if r == Ok(0) && h.is_finished() {
                        // the waiting Pull won the race: legitimate, nothing to check in this execution
                        return ScenarioOut::ok("waiting pull took the message");
                    }
                } else {
                    let a3 = cx.api.clone();
                    let _ = tryv!(cx.settle("client:b-empty-publish", async move { a3.publish(T0, vec![]).await }).await);
                }
                if h.is_finished() {
                    return ScenarioOut::viol("blocking/empty-before-wait-limit", format!("max={} fruitless wake-up at {} ms: the Pull returned {} although nothing was available and {} ms of its wait limit remain", max, t, log.key(), 300_000 - t));
                }
            }
            tryv!(cx.advance_ms(299_900 - now).await);
            if h.is_finished() {
                return ScenarioOut::viol("blocking/empty-before-wait-limit", format!("max={}: after fruitless wake-ups the Pull returned {} before its wait limit (at or before 299.9 s)", max, log.key()));
            }
            tryv!(cx.advance_ms(100 + SLACK_MS as u64).await);
            if !h.is_finished() || log.key() != "pull:OK(0)" {
                return ScenarioOut::viol("blocking/exceeds-wait-limit", format!("max={}: after fruitless wake-ups the Pull has not returned empty at 300 s + slack ({})", max, log.key()));
            }
            return ScenarioOut::ok("fruitless wake-ups, empty at the limit");
        }
        match ev {
            0 => {
                tryv!(cx.advance_ms(299_900).await);
                if h.is_finished() {
                    return ScenarioOut::viol("blocking/empty-before-wait-limit", format!("{}: returned {} after 299.9 s", case, log.key()));
                }
                tryv!(cx.advance_ms(100 + SLACK_MS as u64).await);
                if !h.is_finished() {
                    return ScenarioOut::viol("blocking/exceeds-wait-limit", format!("{}: still waiting after 300 s + slack", case));
                }
                if log.key() != "pull:OK(0)" {
                    return ScenarioOut::viol("blocking/wait-limit-answer", format!("{}: {}", case, log.key()));
                }
            }
            _ => {
                // an expiry can only be awaited: the hand-out was at t_start
                // (a nack needs the held lease to be still alive: stay below its 10 s deadline)
                if ev != 3 {
                    tryv!(cx.advance_ms(if ev == 2 { when_ms.min(5_000) } else { when_ms }).await);
                }
                if h.is_finished() {
                    return ScenarioOut::viol("blocking/empty-before-wait-limit", format!("{}: returned {} while nothing was available", case, log.key()));
                }
                match ev {
                    1 => {
                        let (cx3, log3) = (cx.clone(), log.clone());
                        cx.spawn("client:b-publish", async move {
                            let r = cx3.api.publish(T0, vec![(b"x".to_vec(), vec![]), (b"y".to_vec(), vec![])]).await;
                            log3.push(&cx3, "publish", res(&r));
                        });
                    }
                    2 => {
                        let (cx3, log3, id) = (cx.clone(), log.clone(), held[0].ack_id.clone());
                        cx.spawn("client:b-nack", async move {
                            let r = cx3.api.modify(S0, vec![id], 0).await;
                            log3.push(&cx3, "nack", res(&r));
                        });
                    }
                    _ => {
                        tryv!(cx.advance_to_ms(t_start + 10_000 - 1).await);
                        if h.is_finished() {
                            return ScenarioOut::viol("blocking/early", format!("{}: returned {} before the lease expired", case, log.key()));
                        }
                        tryv!(cx.advance_to_ms(t_start + 10_000 + SLACK_MS).await);
                    }
                }
                tryv!(cx.quiesce().await);
                if !h.is_finished() {
                    return ScenarioOut::viol("blocking/not-woken", format!("{}: the Pull is still waiting although a message is available; {}", case, log.key()));
                }
                let got = log.last_of("pull").unwrap().what;
                let want_max = if ev == 1 { (max as usize).min(2) } else { 1 };
                let n: usize = got.trim_start_matches("OK(").trim_end_matches(')').parse().unwrap_or(usize::MAX);
                if !got.starts_with("OK(") || n == 0 || n > want_max {
                    return ScenarioOut::viol("blocking/wrong-batch", format!("{}: returned {} (expected 1..={} messages)", case, got, want_max));
                }
            }
        }
        ScenarioOut { sample: Some(case), ..ScenarioOut::ok(log.key_per_client()) }
    });
    explore_unit(
        "sched/blocking-pull",
        "a Pull without return_immediately: pending until 299.9 s, empty at 300 s + slack; returns 1..=max messages in the same quiescence as the first publish / nack / expiry (at 0, 1 s, 150 s into the wait)",
        Bounds::new(if thorough { 5 } else { 2 }),
        ExecCfg::default(),
        f,
    )
}

pub fn units(thorough: bool) -> Vec<Unit> {
    vec![limits_unit(thorough), blocking_unit(thorough)]
}
