//! `sched`-mode litmus units of C01, C08, C10 and C11 (concurrent clients; history oracles).
use crate::explore::*;
use crate::litmus::*;
use crate::report::Unit;
use crate::scen::*;
use crate::world::*;
use crate::{must, scen, tryv};
use std::collections::{BTreeMap, BTreeSet};

const SUBS: [&str; 3] = [S0, S1, S2];
const TOPICS: [&str; 2] = [T0, T1];

/// Everything that is or becomes available on `sub`, in hand-out order (now, then after the leases ran out).
pub async fn drain_all(cx: &Ctx, sub: &'static str) -> Result<Result<Vec<Rm>, Code>, Verdict> {
    let mut all = vec![];
    for round in 0..3 {
        loop {
            let a = cx.api.clone();
            let r = cx.settle("probe:drain-pull", async move { a.pull(sub, 1000, true).await }).await?;
            match r {
                Err(c) => return Ok(Err(c)),
                Ok(v) if v.is_empty() => break,
                Ok(v) => {
                    let ids: Vec<String> = v.iter().map(|m| m.ack_id.clone()).collect();
                    all.extend(v);
                    let a = cx.api.clone();
                    let _ = cx.settle("probe:drain-ack", async move { a.ack(sub, ids).await }).await?;
                }
            }
        }
        if round < 2 {
            let was = cx.freeze(true);
            let q = cx.advance_ms(31_000).await;
            cx.freeze(was);
            q?;
        }
    }
    Ok(Ok(all))
}

pub struct World {
    pub topics: BTreeSet<String>,
    /// existing subscriptions -> the topic they report
    pub subs: BTreeMap<String, String>,
    /// what each existing subscription still delivered in the final drain (payloads)
    pub drained: BTreeMap<String, Vec<Rm>>,
}

/// Quiescent-state consistency shared by C10/C11/C01: get / list / manager agree, ListTopicSubscriptions of a live
/// topic = the existing subscriptions that report it, a probe message reaches exactly those.
pub async fn world_check(cx: &Ctx, name: &str, hist_key: &str) -> Result<World, Verdict> {
    let a = cx.api.clone();
    let v = |sig: &str, detail: String| Verdict::Violation { sig: format!("{}/{}", name, sig), detail: format!("{} | history: {}", detail, hist_key) };
    let (lt, ls) = cx.settle("probe:lists", { let a = a.clone(); async move { (a.list_topics("projects/p", 1000, "").await, a.list_subs("projects/p", 1000, "").await) } }).await?;
    let lt: Vec<String> = lt.map_err(|c| v("list-topics-failed", format!("{:?}", c)))?.0;
    let ls: Vec<SubView> = ls.map_err(|c| v("list-subs-failed", format!("{:?}", c)))?.0;
    let mut w = World { topics: BTreeSet::new(), subs: BTreeMap::new(), drained: BTreeMap::new() };
    for t in TOPICS {
        let g = cx.settle("probe:get-topic", { let a = a.clone(); async move { a.get_topic(t).await } }).await?;
        if g.is_ok() != lt.contains(&t.to_string()) {
            return Err(v("topic-get-vs-list", format!("GetTopic({}) = {:?} but ListTopics = {:?}", t, g, lt)));
        }
        if g.is_ok() {
            w.topics.insert(t.to_string());
        }
    }
    if lt.iter().collect::<BTreeSet<_>>().len() != lt.len() || ls.iter().map(|s| &s.name).collect::<BTreeSet<_>>().len() != ls.len() {
        return Err(v("duplicate-in-list", format!("topics {:?} subs {:?}", lt, ls.iter().map(|s| &s.name).collect::<Vec<_>>())));
    }
    for s in SUBS {
        let g = cx.settle("probe:get-sub", { let a = a.clone(); async move { a.get_sub(s).await } }).await?;
        let listed = ls.iter().find(|x| x.name == s);
        if g.is_ok() != listed.is_some() {
            return Err(v("sub-get-vs-list", format!("GetSubscription({}) = {:?} but ListSubscriptions has it: {}", s, g, listed.is_some())));
        }
        if cx.stats(s).await?.is_some() != g.is_ok() {
            return Err(v("sub-manager-vs-get", format!("manager lookup of {} disagrees with GetSubscription = {:?}", s, g)));
        }
        if let Ok(view) = g {
            if Some(&view) != listed {
                return Err(v("sub-get-vs-list", format!("GetSubscription({}) = {:?} but listed as {:?}", s, view, listed)));
            }
            w.subs.insert(s.to_string(), view.topic);
        }
    }
    for t in TOPICS {
        if !w.topics.contains(t) {
            continue;
        }
        let lts = cx.settle("probe:lts", { let a = a.clone(); async move { a.list_topic_subs(t, 1000, "").await } }).await?;
        let lts: BTreeSet<String> = lts.map_err(|c| v("list-topic-subs-failed", format!("{}: {:?}", t, c)))?.0.into_iter().collect();
        let want: BTreeSet<String> = w.subs.iter().filter(|(_, tt)| tt.as_str() == t).map(|(s, _)| s.clone()).collect();
        if lts != want {
            return Err(v("topic-subscription-list-mismatch", format!("ListTopicSubscriptions({}) = {:?} but the existing subscriptions reporting that topic are {:?}", t, lts, want)));
        }
        let pr = cx.settle("probe:publish", { let a = a.clone(); async move { a.publish(t, vec![(format!("probe:{}", t).into_bytes(), vec![])]).await } }).await?;
        if pr.is_err() {
            return Err(v("topic-wedged", format!("Publish to live topic {} = {:?}", t, pr)));
        }
    }
    for s in SUBS {
        let Some(topic) = w.subs.get(s).cloned() else { continue };
        // conservation: every unacknowledged message is exactly once either in the backlog or leased
        let before = cx.stats(s).await?.map(|st| st.backlog + st.outstanding).unwrap_or(0);
        let got = drain_all(cx, s).await?.map_err(|c| v("subscription-wedged", format!("Pull on existing {} = {:?}", s, c)))?;
        let distinct: BTreeSet<&String> = got.iter().map(|m| &m.msg_id).collect();
        if got.len() != distinct.len() || before != distinct.len() {
            return Err(v("message-accounting", format!("{}: backlog+outstanding was {} at quiescence, the final drain (each delivery acknowledged at once) delivered {} messages, {} distinct", s, before, got.len(), distinct.len())));
        }
        for t in TOPICS {
            let has = got.iter().any(|m| m.data == format!("probe:{}", t).into_bytes());
            let should = topic == t && w.topics.contains(t);
            if has != should {
                return Err(v(if should { "existing-subscription-not-attached" } else { "message-from-foreign-topic" }, format!("{} (topic {}) {} the message published to {} afterwards", s, topic, if has { "received" } else { "did not receive" }, t)));
            }
        }
        w.drained.insert(s.to_string(), got);
    }
    Ok(w)
}

// ------------------------------------------------------------------------------------------- C10

#[derive(Clone, Copy, Debug, PartialEq)]
enum K {
    Create,
    Delete,
    Get,
}

#[derive(Clone, Copy, Debug, PartialEq)]
enum O {
    Ok,
    Exists,
    NotFound,
    Other,
    Abandoned,
}

/// Brute-force linearizability of the operations on ONE name against the map specification.
/// An operation whose caller disappeared (`O::Abandoned`) may have taken effect at any point after its invocation, or not at all.
fn linearizable(ops: &[(K, O, u64, u64)], initially: bool) -> bool {
    fn rec(ops: &[(K, O, u64, u64)], done: &mut Vec<bool>, state: bool) -> bool {
        if done.iter().all(|d| *d) {
            return true;
        }
        for i in 0..ops.len() {
            if done[i] {
                continue;
            }
            // real-time order: i may go next only if no other pending op returned before i was invoked
            if (0..ops.len()).any(|j| !done[j] && j != i && ops[j].3 < ops[i].2) {
                continue;
            }
            let (k, o, _, _) = ops[i];
            if o == O::Abandoned {
                // either it never happened ...
                done[i] = true;
                if rec(ops, done, state) {
                    return true;
                }
                // ... or it happened here, with whatever result the specification gives
                let s2 = match k {
                    K::Create => true,
                    K::Delete => false,
                    K::Get => state,
                };
                if rec(ops, done, s2) {
                    return true;
                }
                done[i] = false;
                continue;
            }
            // a Create that overlaps a Delete of the same name and is answered with an error status other than the
            // specified ones may nevertheless have created the subscription (the racing Delete removed it before the
            // creator could read it back): C12 allows requests racing with a deletion to fail with another error status
            if k == K::Create && o == O::Other && ops.iter().any(|x| x.0 == K::Delete && x.2 <= ops[i].3 && ops[i].2 <= x.3) {
                done[i] = true;
                if rec(ops, done, true) {
                    return true;
                }
                done[i] = false;
            }
            let next = match (k, o, state) {
                (K::Create, O::Ok, false) => Some(true),
                (K::Create, O::Exists, true) => Some(true),
                (K::Delete, O::Ok, true) => Some(false),
                (K::Delete, O::NotFound, false) => Some(false),
                (K::Get, O::Ok, true) => Some(true),
                (K::Get, O::NotFound, false) => Some(false),
                // an error status other than the specified ones: tolerated (as a no-op) only next to a Delete of the name
                (_, O::Other, s) if ops.iter().any(|x| x.0 == K::Delete && x.2 <= ops[i].3 && ops[i].2 <= x.3) => Some(s),
                _ => None,
            };
            if let Some(s) = next {
                done[i] = true;
                if rec(ops, done, s) {
                    return true;
                }
                done[i] = false;
            }
        }
        false
    }
    rec(ops, &mut vec![false; ops.len()], initially)
}

fn classify(r: &R) -> O {
    if *r == R::Pending {
        return O::Abandoned;
    }
    match r.code() {
        None => O::Ok,
        Some(Code::AlreadyExists) => O::Exists,
        Some(Code::NotFound) => O::NotFound,
        Some(_) => O::Other,
    }
}

fn c10_scenario(name: &'static str, progs: Vec<Vec<COp>>, topic_initially: bool, sub_initially: bool) -> ScenFn {
    c10_scenario_x(name, progs, topic_initially, sub_initially, false)
}

/// `abandon`: client 0 disappears after k polls (data choice over k); its unfinished call may or may not have taken effect.
fn c10_scenario_x(name: &'static str, progs: Vec<Vec<COp>>, topic_initially: bool, sub_initially: bool, abandon: bool) -> ScenFn {
    scen!([progs] |cx| {
        if topic_initially {
            must!(cx, "setup:create-topic", { let a = cx.api.clone(); async move { a.create_topic(T0).await } });
        }
        if sub_initially {
            must!(cx, "setup:create-sub", { let a = cx.api.clone(); async move { a.create_sub(S0, T0, 10, None).await } });
        }
        let l = start(&cx, &progs, &[]);
        let mut abandoned = false;
        if abandon {
            let k = cx.choose("abandon-client0-after-polls", 5);
            if k < 4 {
                tryv!(cx.quiesce_until_polls("client:00", k as u32).await);
                if !l.handles[0].is_finished() {
                    cx.abort_now(&l.handles[0]).await;
                    abandoned = true;
                }
            }
        }
        if abandoned {
            // the abandoned client's pending call never returns: wait for everybody else
            tryv!(cx.quiesce().await);
            tryv!(cx.advance_ms(1000).await);
            if let Some(c) = l.hist.pending().into_iter().find(|c| c.client != 0) {
                return ScenarioOut::viol(format!("{}/hang-next-to-abandoned-request", name), format!("client {} is still waiting for {:?}: {}", c.client, c.op, l.hist.key()));
            }
        } else {
            tryv!(await_termination(&cx, &l, name).await);
        }
        let key = l.hist.key();
        // per-name histories
        let mut topic_ops = vec![];
        let mut sub_ops = vec![];
        let topic_deleted_in_program = progs.iter().flatten().any(|o| matches!(o, COp::DeleteTopic(_)));
        for c in l.hist.calls() {
            let (i, r) = (c.invoke_step, c.ret_step.unwrap_or(u64::MAX));
            match &c.op {
                COp::CreateTopic(t) if *t == T0 => topic_ops.push((K::Create, classify(&c.result), i, r)),
                COp::DeleteTopic(t) if *t == T0 => topic_ops.push((K::Delete, classify(&c.result), i, r)),
                COp::GetTopic(t) | COp::Publish(t, _) | COp::ListTopicSubs(t) if *t == T0 => topic_ops.push((K::Get, classify(&c.result), i, r)),
                COp::CreateSub(s, _) if *s == S0 => {
                    // NOT_FOUND here speaks about the topic, not about the subscription name
                    if !(topic_deleted_in_program && c.result.code() == Some(Code::NotFound)) {
                        sub_ops.push((K::Create, classify(&c.result), i, r))
                    }
                }
                COp::DeleteSub(s) if *s == S0 => sub_ops.push((K::Delete, classify(&c.result), i, r)),
                COp::GetSub(s) | COp::PullNow(s, _) if *s == S0 => sub_ops.push((K::Get, classify(&c.result), i, r)),
                _ => {}
            }
        }
        // final observations, invoked after everything else has returned: what the names map to at quiescence must be the
        // state some linearization of the history ends in (a request answered with an error must not have taken effect)
        let fin_t = tryv!(cx.settle("final:get-topic", { let a = cx.api.clone(); async move { a.get_topic(T0).await } }).await);
        let fin_s = tryv!(cx.settle("final:get-sub", { let a = cx.api.clone(); async move { a.get_sub(S0).await } }).await);
        let fin = |c: Option<Code>| match c { None => O::Ok, Some(Code::NotFound) => O::NotFound, Some(_) => O::Other };
        topic_ops.push((K::Get, fin(fin_t.as_ref().err().cloned()), u64::MAX - 1, u64::MAX));
        sub_ops.push((K::Get, fin(fin_s.as_ref().err().cloned()), u64::MAX - 1, u64::MAX));
        let key = format!("{} final:topic={} sub={}", key, fin_t.is_ok(), fin_s.is_ok());
        if !linearizable(&topic_ops, topic_initially) {
            return ScenarioOut::viol(format!("{}/topic-history-not-linearizable", name), format!("no order of the operations on {} that respects real time explains their results as a name->topic map: {}", T0, key));
        }
        if !linearizable(&sub_ops, sub_initially) {
            return ScenarioOut::viol(format!("{}/subscription-history-not-linearizable", name), format!("no order of the operations on {} that respects real time explains their results as a name->subscription map: {}", S0, key));
        }
        tryv!(l.close_streams(&cx).await);
        tryv!(world_check(&cx, name, &key).await);
        ScenarioOut::ok(key)
    })
}

pub fn c10_sched(thorough: bool) -> Vec<Unit> {
    use COp::*;
    let d = if thorough { 5 } else { 3 };
    let progs: Vec<(&'static str, Vec<Vec<COp>>, bool, bool)> = vec![
        ("create-topic‖create-topic", vec![vec![CreateTopic(T0)], vec![CreateTopic(T0)], vec![GetTopic(T0)]], false, false),
        ("create-sub‖create-sub", vec![vec![CreateSub(S0, T0)], vec![CreateSub(S0, T0)], vec![GetSub(S0)]], true, false),
        ("create-topic‖delete-topic‖get", vec![vec![CreateTopic(T0)], vec![DeleteTopic(T0)], vec![GetTopic(T0), GetTopic(T0)]], true, false),
        ("create-sub‖delete-sub‖get", vec![vec![CreateSub(S0, T0)], vec![DeleteSub(S0)], vec![GetSub(S0), GetSub(S0)]], true, true),
        ("create-absent-sub‖delete-sub", vec![vec![CreateSub(S0, T0)], vec![DeleteSub(S0)], vec![GetSub(S0)]], true, false),
        ("create-absent-sub‖delete-sub‖delete-sub", vec![vec![CreateSub(S0, T0)], vec![DeleteSub(S0)], vec![DeleteSub(S0)]], true, false),
        ("delete-sub‖delete-sub‖create-sub", vec![vec![DeleteSub(S0)], vec![DeleteSub(S0)], vec![CreateSub(S0, T0)]], true, true),
        ("delete-topic‖delete-topic", vec![vec![DeleteTopic(T0)], vec![DeleteTopic(T0)]], true, false),
        ("delete-topic‖delete-topic‖create-topic", vec![vec![DeleteTopic(T0)], vec![DeleteTopic(T0)], vec![CreateTopic(T0)]], true, true),
        ("delete-sub;create-sub‖pull", vec![vec![DeleteSub(S0), CreateSub(S0, T0), GetSub(S0)], vec![PullNow(S0, 1), PullNow(S0, 1)]], true, true),
        ("create-sub‖delete-topic", vec![vec![CreateSub(S0, T0)], vec![DeleteTopic(T0)], vec![GetSub(S0)]], true, false),
        ("delete-topic;create-topic‖publish", vec![vec![DeleteTopic(T0), CreateTopic(T0)], vec![Publish(T0, 1), Publish(T0, 1)], vec![GetTopic(T0)]], true, true),
    ];
    let mut v: Vec<Unit> = progs
        .into_iter()
        .map(|(n, p, t, s)| {
            // the creation overtaken by a deletion needs two tasks held back at once: these small programs run two levels deeper
            let dd = if n == "create-absent-sub‖delete-sub" { d + 2 } else { d };
            explore_unit(format!("sched/{}", n), format!("{:?}: per-name linearizability (brute force over all orders consistent with real time) and quiescent-state consistency", p), Bounds::new(dd), ExecCfg::default(), c10_scenario(n, p, t, s))
        })
        .collect();
    let ab: Vec<(&'static str, Vec<Vec<COp>>, bool, bool)> = vec![
        ("abandoned-delete-sub‖get;delete;create", vec![vec![DeleteSub(S0)], vec![GetSub(S0), DeleteSub(S0), CreateSub(S0, T0), GetSub(S0)]], true, true),
        ("abandoned-create-sub‖get;create", vec![vec![CreateSub(S0, T0)], vec![GetSub(S0), CreateSub(S0, T0), GetSub(S0)]], true, false),
        ("abandoned-delete-topic‖get;create", vec![vec![DeleteTopic(T0)], vec![GetTopic(T0), CreateTopic(T0), Publish(T0, 1)]], true, true),
        ("abandoned-create-topic‖create", vec![vec![CreateTopic(T0)], vec![CreateTopic(T0), GetTopic(T0)]], false, false),
    ];
    for (n, p, t, s) in ab {
        v.push(explore_unit(format!("sched/{}", n), format!("{:?}, client 0 disappears after k polls (every k): its call either took effect or did not - the rest of the history must be explainable either way, and the quiescent state consistent", p), Bounds::new(d - 1), ExecCfg::default(), c10_scenario_x(n, p, t, s, true)));
    }
    v
}

// ------------------------------------------------------------------------------------------- C11

fn c11_scenario(name: &'static str, progs: Vec<Vec<COp>>) -> ScenFn {
    c11_scenario_x(name, progs, false)
}

fn c11_scenario_x(name: &'static str, progs: Vec<Vec<COp>>, abandon: bool) -> ScenFn {
    scen!([progs] |cx| {
        must!(cx, "setup:create-topic", { let a = cx.api.clone(); async move { a.create_topic(T0).await } });
        must!(cx, "setup:create-sub", { let a = cx.api.clone(); async move { a.create_sub(S0, T0, 10, None).await } });
        must!(cx, "setup:create-sub", { let a = cx.api.clone(); async move { a.create_sub(S1, T0, 10, None).await } });
        must!(cx, "setup:publish", { let a = cx.api.clone(); async move { a.publish(T0, vec![(b"held".to_vec(), vec![])]).await } });
        if name.contains("two-topics") {
            must!(cx, "setup:create-topic", { let a = cx.api.clone(); async move { a.create_topic(T1).await } });
        }
        let l = start(&cx, &progs, &[]);
        let mut abandoned = false;
        if abandon {
            let k = cx.choose("abandon-client0-after-polls", 5);
            if k < 4 {
                tryv!(cx.quiesce_until_polls("client:00", k as u32).await);
                if !l.handles[0].is_finished() {
                    cx.abort_now(&l.handles[0]).await;
                    abandoned = true;
                }
            }
        }
        if abandoned {
            tryv!(cx.quiesce().await);
            tryv!(cx.advance_ms(1000).await);
            if let Some(c) = l.hist.pending().into_iter().find(|c| c.client != 0) {
                return ScenarioOut::viol(format!("{}/hang-next-to-abandoned-request", name), format!("client {} is still waiting for {:?}: {}", c.client, c.op, l.hist.key()));
            }
            // whether the abandoned deletion took effect is open; the quiescent state must be consistent either way
            let key = l.hist.key();
            tryv!(l.close_streams(&cx).await);
            tryv!(world_check(&cx, name, &key).await);
            return ScenarioOut::ok(format!("abandoned: {}", key));
        }
        tryv!(await_termination(&cx, &l, name).await);
        let key = l.hist.key();
        tryv!(l.close_streams(&cx).await);
        let calls = l.hist.calls();
        let w = tryv!(world_check(&cx, name, &key).await);
        // "after DeleteTopic returns, its subscriptions report their topic as deleted": every GetSubscription invoked after a
        // successful DeleteTopic returned (no topic is created again in these programs before it) must say so, also while
        // other requests that looked the topic up earlier are still in flight
        for g in calls.iter().filter(|c| matches!(c.op, COp::GetSub(_))) {
            if let R::View(Ok(v)) = &g.result {
                let after_delete = calls.iter().any(|d| matches!(d.op, COp::DeleteTopic(_)) && d.result.is_ok() && d.ret_step.map(|r| r <= g.invoke_step).unwrap_or(false));
                let any_create = calls.iter().any(|c| matches!(c.op, COp::CreateTopic(_)));
                if after_delete && !any_create && v.topic != "_deleted_topic_" {
                    return ScenarioOut::viol(format!("{}/topic-reported-after-delete-topic-returned", name), format!("GetSubscription({}) invoked after DeleteTopic had returned OK reports topic {:?}: {}", v.name, v.topic, key));
                }
            }
        }
        // "after DeleteSubscription returns, the subscription is absent from its topic's subscription list": every
        // ListTopicSubscriptions invoked after a successful DeleteSubscription returned (the name is not created again
        // in these programs before it) must not contain it
        for g in calls.iter().filter(|c| matches!(c.op, COp::ListTopicSubs(_))) {
            if let R::Names(Ok(names)) = &g.result {
                for d in calls.iter().filter(|d| matches!(d.op, COp::DeleteSub(_)) && d.result.is_ok() && d.ret_step.map(|r| r <= g.invoke_step).unwrap_or(false)) {
                    if let COp::DeleteSub(sname) = &d.op {
                        let recreated = calls.iter().any(|c| matches!(&c.op, COp::CreateSub(x, _) if x == sname));
                        if !recreated && names.iter().any(|n| n == sname) {
                            return ScenarioOut::viol(format!("{}/listed-after-delete-subscription-returned", name), format!("ListTopicSubscriptions invoked after DeleteSubscription({}) had returned OK still lists it: {}", sname, key));
                        }
                    }
                }
            }
        }
        // after DeleteTopic returned, its subscriptions still exist, report the topic as deleted and keep serving what they hold
        let topic_deleted = calls.iter().any(|c| matches!(c.op, COp::DeleteTopic(_)) && c.result.is_ok());
        let topic_recreated = calls.iter().any(|c| matches!(c.op, COp::CreateTopic(_)) && c.result.is_ok());
        for s in [S0, S1] {
            let deleted = calls.iter().any(|c| matches!(&c.op, COp::DeleteSub(x) if *x == s) && c.result.is_ok());
            let recreated = calls.iter().any(|c| matches!(&c.op, COp::CreateSub(x, _) if *x == s) && c.result.is_ok());
            if !deleted && !w.subs.contains_key(s) {
                return ScenarioOut::viol(format!("{}/subscription-vanished", name), format!("{} was never deleted but does not exist any more: {}", s, key));
            }
            if deleted && !recreated && w.subs.contains_key(s) {
                return ScenarioOut::viol(format!("{}/deleted-subscription-still-exists", name), format!("DeleteSubscription({}) returned OK but it still exists: {}", s, key));
            }
            if topic_deleted && !deleted {
                if w.subs.get(s).map(|t| t.as_str()) != Some("_deleted_topic_") {
                    return ScenarioOut::viol(format!("{}/subscription-of-deleted-topic-relinked", name), format!("{} reports topic {:?} after DeleteTopic (re-created: {}): {}", s, w.subs.get(s), topic_recreated, key));
                }
                // the message it held before the deletion is still served (unless a client of the program took and acked it: none does)
                let pulled_in_program = calls.iter().any(|c| matches!(&c.result, R::Msgs(Ok(v)) if v.iter().any(|m| m.data == b"held")) && matches!(&c.op, COp::PullNow(x, _) if *x == s));
                let drained = w.drained.get(s).map(|v| v.iter().any(|m| m.data == b"held")).unwrap_or(false);
                if !pulled_in_program && !drained {
                    return ScenarioOut::viol(format!("{}/held-message-lost", name), format!("{} held a message when its topic was deleted and never served it: {}", s, key));
                }
            }
        }
        ScenarioOut::ok(key)
    })
}

/// A subscription deleted and created again under the same name while messages are published: shared with C01 (the
/// re-created subscription must be attached: a probe publish reaches every subscription that exists).
pub fn recreate_unit(thorough: bool) -> Unit {
    use COp::*;
    let p = vec![vec![DeleteSub(S0)], vec![CreateSub(S0, T0), CreateSub(S0, T0)], vec![Publish(T0, 1)]];
    explore_unit("sched/delete-sub‖create-sub-same-name", format!("{:?}; afterwards every subscription that exists is listed by its topic and receives a probe message", p), Bounds::new(if thorough { 4 } else { 3 }), ExecCfg::default(), c11_scenario("delete-sub‖create-sub-same-name", p))
}

pub fn c11_sched(thorough: bool) -> Vec<Unit> {
    use COp::*;
    let d = if thorough { 4 } else { 3 };
    let progs: Vec<(&'static str, Vec<Vec<COp>>)> = vec![
        ("delete-sub‖publish‖list", vec![vec![DeleteSub(S0)], vec![Publish(T0, 1)], vec![ListTopicSubs(T0)]]),
        ("delete-topic‖publish‖pull", vec![vec![DeleteTopic(T0)], vec![Publish(T0, 1)], vec![PullNow(S0, 10)]]),
        ("delete-sub‖create-sub-same-name", vec![vec![DeleteSub(S0)], vec![CreateSub(S0, T0), CreateSub(S0, T0)], vec![Publish(T0, 1)]]),
        ("delete-topic;create-topic‖create-sub", vec![vec![DeleteTopic(T0), CreateTopic(T0)], vec![CreateSub(S2, T0)], vec![Publish(T0, 1)]]),
        ("delete-sub‖delete-topic", vec![vec![DeleteSub(S0)], vec![DeleteTopic(T0)], vec![ListTopicSubs(T0)]]),
        ("two-topics:create-sub‖create-sub-same-name", vec![vec![CreateSub(S2, T0)], vec![CreateSub(S2, T1)], vec![Publish(T1, 1)]]),
        ("delete-sub;list‖publish", vec![vec![DeleteSub(S0), ListTopicSubs(T0)], vec![Publish(T0, 1)], vec![ListTopicSubs(T0)]]),
        ("delete-topic;get-sub‖publish", vec![vec![DeleteTopic(T0), GetSub(S0), GetSub(S1)], vec![Publish(T0, 1)], vec![Publish(T0, 2)]]),
    ];
    let mut v: Vec<Unit> = progs.into_iter().map(|(n, p)| explore_unit(format!("sched/{}", n), format!("{:?}; afterwards ListTopicSubscriptions of every live topic = the existing subscriptions reporting it, a probe publish reaches exactly those, deleted things are gone, subscriptions of a deleted topic keep serving", p), Bounds::new(d), ExecCfg::default(), c11_scenario(n, p))).collect();
    let ab: Vec<(&'static str, Vec<Vec<COp>>)> = vec![
        ("abandoned-delete-topic‖publish‖list", vec![vec![DeleteTopic(T0)], vec![Publish(T0, 1), Publish(T0, 1)], vec![ListTopicSubs(T0)]]),
        ("abandoned-delete-sub‖publish‖list", vec![vec![DeleteSub(S0)], vec![Publish(T0, 1)], vec![ListTopicSubs(T0), GetSub(S0)]]),
        ("abandoned-create-sub‖publish", vec![vec![CreateSub(S2, T0)], vec![Publish(T0, 1), Publish(T0, 1)]]),
    ];
    for (n, p) in ab {
        v.push(explore_unit(format!("sched/{}", n), format!("{:?}, client 0 disappears after k polls (every k); whatever became of its request, topics and subscriptions must be consistent with each other at quiescence", p), Bounds::new(d - 1), ExecCfg::default(), c11_scenario_x(n, p, true)));
    }
    v
}

// ------------------------------------------------------------------------------------------- C01 / C08

/// Checks fan-out and order over the complete history + the final drain.
fn c01_c08_scenario(name: &'static str, progs: Vec<Vec<COp>>, check_order: bool, held_for: Option<usize>) -> ScenFn {
    scen!([progs] |cx| {
        must!(cx, "setup:create-topic", { let a = cx.api.clone(); async move { a.create_topic(T0).await } });
        must!(cx, "setup:create-sub", { let a = cx.api.clone(); async move { a.create_sub(S0, T0, 10, None).await } });
        must!(cx, "setup:create-sub", { let a = cx.api.clone(); async move { a.create_sub(S1, T0, 10, None).await } });
        let mut held = vec![vec![]; progs.len()];
        if let Some(k) = held_for {
            must!(cx, "setup:publish", { let a = cx.api.clone(); async move { a.publish(T0, vec![(b"pre".to_vec(), vec![])]).await } });
            held[k] = must!(cx, "setup:pull", { let a = cx.api.clone(); async move { a.pull(S0, 1, true).await } });
        }
        let l = start(&cx, &progs, &held);
        tryv!(await_termination(&cx, &l, name).await);
        let key = l.hist.key();
        tryv!(l.close_streams(&cx).await);
        let calls = l.hist.calls();
        let w = tryv!(world_check(&cx, name, &key).await);
        // deliveries per subscription, in ack-id (= hand-out) order: what clients received during the program + the final drain
        let mut per_sub: BTreeMap<&str, Vec<(u64, String)>> = BTreeMap::new();
        for c in &calls {
            if let R::Msgs(Ok(v)) = &c.result {
                let s = match &c.op { COp::PullNow(s, _) | COp::PullBlock(s, _) | COp::Stream(s, _) => *s, _ => continue };
                for m in v {
                    per_sub.entry(s).or_default().push((m.ack_id.parse().unwrap_or(0), m.msg_id.clone()));
                }
            }
        }
        for (s, v) in &w.drained {
            let s: &'static str = SUBS.into_iter().find(|x| x == s).unwrap();
            for m in v {
                if !m.data.starts_with(b"probe:") {
                    per_sub.entry(s).or_default().push((m.ack_id.parse().unwrap_or(0), m.msg_id.clone()));
                }
            }
        }
        // published messages in the order of their ids; (id, request index, invoke, ret)
        let mut published: Vec<(u64, usize, u64, u64)> = vec![];
        let mut all_ids = BTreeSet::new();
        for (ri, c) in calls.iter().enumerate() {
            if let (COp::Publish(_, n) | COp::PublishBig(_, n, _), R::Ids(Ok(ids))) = (&c.op, &c.result) {
                if ids.len() != *n {
                    return ScenarioOut::viol(format!("{}/id-count", name), format!("Publish of {} messages returned {} ids", n, ids.len()));
                }
                let mut last = 0u64;
                for id in ids {
                    let v: u64 = id.parse().unwrap_or(0);
                    if !all_ids.insert(v) {
                        return ScenarioOut::viol(format!("{}/duplicate-id", name), format!("message id {} issued twice: {}", id, key));
                    }
                    if v <= last {
                        return ScenarioOut::viol(format!("{}/ids-not-in-request-order", name), format!("ids of one Publish are not increasing: {:?}", ids));
                    }
                    last = v;
                    published.push((v, ri, c.invoke_step, c.ret_step.unwrap_or(u64::MAX)));
                }
            }
        }
        // every delivery carries the id that Publish returned for THAT message: client k's j-th message has the payload
        // "c<k>-<j>", and its id is the j-th id of one of client k's Publish responses
        {
            let mut returned: BTreeMap<(usize, usize), BTreeSet<String>> = BTreeMap::new();
            for c in &calls {
                if let (COp::Publish(..), R::Ids(Ok(ids))) = (&c.op, &c.result) {
                    for (j, id) in ids.iter().enumerate() {
                        returned.entry((c.client, j)).or_default().insert(id.clone());
                    }
                }
            }
            let mut delivered: Vec<(Vec<u8>, String)> = vec![];
            for c in &calls {
                if let R::Msgs(Ok(v)) = &c.result {
                    delivered.extend(v.iter().map(|m| (m.data.clone(), m.msg_id.clone())));
                }
            }
            for v in w.drained.values() {
                delivered.extend(v.iter().map(|m| (m.data.clone(), m.msg_id.clone())));
            }
            for (data, id) in &delivered {
                let txt = String::from_utf8_lossy(data).to_string();
                if let Some(rest) = txt.strip_prefix('c') {
                    let mut it = rest.split('-');
                    if let (Some(Ok(k)), Some(Ok(j))) = (it.next().map(|x| x.parse::<usize>()), it.next().map(|x| x.parse::<usize>())) {
                        if let Some(ids) = returned.get(&(k, j)) {
                            if !ids.contains(id) {
                                return ScenarioOut::viol(format!("{}/delivered-id-is-not-the-one-publish-returned", name), format!("the message with payload {:?} was delivered with id {}, but Publish returned {:?} for it: {}", txt, id, ids, key));
                            }
                        }
                    }
                }
            }
        }
        // ids follow the real-time order of publishes
        for a in &published {
            for b in &published {
                if a.3 < b.2 && a.0 >= b.0 {
                    return ScenarioOut::viol(format!("{}/ids-against-real-time-order", name), format!("a Publish that returned before another was invoked got the larger id ({} vs {}): {}", a.0, b.0, key));
                }
            }
        }
        for s in [S0, S1] {
            let deleted = calls.iter().any(|c| matches!(&c.op, COp::DeleteSub(x) if *x == s));
            let topic_deleted = calls.iter().any(|c| matches!(&c.op, COp::DeleteTopic(_)));
            let got = per_sub.get(s).cloned().unwrap_or_default();
            let got_ids: BTreeSet<u64> = got.iter().map(|(_, m)| m.parse().unwrap_or(0)).collect();
            if !deleted && !topic_deleted {
                // attached throughout every publish of the program: nothing may be missing
                for p in &published {
                    if !got_ids.contains(&p.0) {
                        return ScenarioOut::viol(format!("{}/message-never-delivered", name), format!("message {} (Publish returned OK) was never delivered on {} although it was attached throughout: {}", p.0, s, key));
                    }
                }
            }
            if check_order {
                // first deliveries in hand-out order must follow publish (= id) order, batches contiguous
                let mut v = got.clone();
                v.sort();
                let mut seen = BTreeSet::new();
                let mut firsts: Vec<u64> = vec![];
                for (_, m) in v {
                    let id: u64 = m.parse().unwrap_or(0);
                    if seen.insert(id) && all_ids.contains(&id) {
                        firsts.push(id);
                    }
                }
                if firsts.windows(2).any(|w| w[0] > w[1]) {
                    return ScenarioOut::viol(format!("{}/first-deliveries-out-of-publish-order", name), format!("{}: first deliveries in hand-out order carry ids {:?}: {}", s, firsts.iter().take(12).collect::<Vec<_>>(), key));
                }
                // the messages of one Publish request stay contiguous
                let req_of: BTreeMap<u64, usize> = published.iter().map(|p| (p.0, p.1)).collect();
                let mut closed: BTreeSet<usize> = BTreeSet::new();
                let mut current: Option<usize> = None;
                for id in &firsts {
                    let r = req_of[id];
                    if current != Some(r) {
                        if let Some(c) = current {
                            closed.insert(c);
                        }
                        if closed.contains(&r) {
                            return ScenarioOut::viol(format!("{}/request-not-contiguous", name), format!("{}: the messages of one Publish request are interleaved with another request's messages (around id {}): {}", s, id, key));
                        }
                        current = Some(r);
                    }
                }
            }
        }
        // a subscription created by the program must not hold messages whose Publish returned before its creation began
        for c in &calls {
            if let (COp::CreateSub(s, _), true) = (&c.op, c.result.is_ok()) {
                let got: BTreeSet<u64> = per_sub.get(*s).map(|v| v.iter().map(|(_, m)| m.parse().unwrap_or(0)).collect()).unwrap_or_default();
                for p in &published {
                    if p.3 < c.invoke_step && got.contains(&p.0) {
                        return ScenarioOut::viol(format!("{}/message-from-before-creation", name), format!("{} received message {} whose Publish had returned before its creation began: {}", s, p.0, key));
                    }
                }
            }
        }
        ScenarioOut::ok(key)
    })
}

pub fn c01_sched(thorough: bool) -> Vec<Unit> {
    use COp::*;
    let d = if thorough { 4 } else { 3 };
    let mut v = vec![];
    let progs: Vec<(&'static str, Vec<Vec<COp>>, (usize, usize), Option<usize>)> = vec![
        ("pub‖pub‖pull", vec![vec![Publish(T0, 1)], vec![Publish(T0, 2)], vec![PullNow(S0, 10), PullNow(S0, 10)]], (0, 0), None),
        ("pub‖create-sub", vec![vec![Publish(T0, 1), Publish(T0, 1)], vec![CreateSub(S2, T0), PullNow(S2, 10)]], (0, 0), None),
        ("pub‖delete-sub", vec![vec![Publish(T0, 2)], vec![DeleteSub(S0)], vec![PullNow(S1, 1)]], (0, 0), None),
        ("pub‖delete-topic", vec![vec![Publish(T0, 1), Publish(T0, 1)], vec![DeleteTopic(T0)], vec![PullNow(S1, 10)]], (0, 0), None),
        ("nack‖pull‖pub", vec![vec![NackHeld(S0, 0)], vec![PullNow(S0, 10), PullNow(S0, 10)], vec![Publish(T0, 1)]], (0, 0), Some(0)),
        ("cap1:pub‖pull‖pull", vec![vec![Publish(T0, 2)], vec![PullNow(S0, 1), PullNow(S0, 1)], vec![PullNow(S0, 10), GetSub(S0)], vec![Publish(T0, 1)]], (1, 1), None),
        ("cap1:pub‖pub‖stream", vec![vec![Publish(T0, 1)], vec![Publish(T0, 1)], vec![Stream(S0, 10)], vec![PullBlock(S1, 1)]], (1, 1), None),
    ];
    for (n, p, caps, held) in progs {
        // the two largest programs run one level lower in the quick tier
        let heavy = ["pub‖create-sub", "pub‖pub‖pull"].contains(&n);
        let dd = if p.len() >= 4 || (heavy && !thorough) { d - 1 } else { d };
        v.push(explore_unit(format!("sched/{}", n), format!("{:?} (mailbox capacity {:?}); every message whose Publish returned OK reaches every subscription attached throughout (program deliveries + final drain), nothing from before a subscription's creation", p, caps), Bounds::new(dd), ExecCfg { caps, ..Default::default() }, c01_c08_scenario(n, p, false, held)));
    }
    v
}

/// First deliveries on a StreamingPull follow publish order whatever the stream's initial request says about
/// max_outstanding_bytes / max_outstanding_messages, and whatever the sizes of the messages are.
pub fn stream_budget_order_unit() -> Unit {
    let f: ScenFn = scen!(|cx| {
        let a = cx.api.clone();
        must!(cx, "setup:create-topic", { let a = a.clone(); async move { a.create_topic(T0).await } });
        must!(cx, "setup:create-sub", { let a = a.clone(); async move { a.create_sub(S0, T0, 10, None).await } });
        let patterns: [&[usize]; 5] = [&[60, 60, 10], &[10, 60, 60], &[100, 1, 100, 1], &[5, 5, 5, 5, 5], &[200, 10, 10, 200, 10]];
        let sizes = patterns[cx.choose("payload-sizes", patterns.len())];
        let budgets = [0i64, 1, 50, 64, 100, 130, 1_000];
        let bytes = budgets[cx.choose("max-outstanding-bytes", budgets.len())];
        let msgs_limit = [0i64, 1, 2, 1000][cx.choose("max-outstanding-messages", 4)];
        let per_request = cx.choose("published-in-one-request", 2) == 1;
        let payloads: Vec<Msg> = sizes.iter().enumerate().map(|(i, n)| (vec![b'a' + i as u8; *n], vec![])).collect();
        let mut ids: Vec<String> = vec![];
        if per_request {
            ids = must!(cx, "setup:publish", { let (a, p) = (a.clone(), payloads.clone()); async move { a.publish(T0, p).await } });
        } else {
            for p in payloads.clone() {
                ids.extend(must!(cx, "setup:publish", { let a = a.clone(); async move { a.publish(T0, vec![p]).await } }));
            }
        }
        let got: std::sync::Arc<std::sync::Mutex<Vec<String>>> = Default::default();
        let (g2, a2) = (got.clone(), a.clone());
        let h = cx.spawn("client:00-stream", async move {
            let mut first = first_stream_req(S0, msgs_limit);
            first.max_outstanding_bytes = bytes;
            let (tx, r) = a2.streaming_pull(first).await;
            let _keep = tx;
            if let Ok(mut st) = r {
                while let Ok(Some(m)) = st.message().await {
                    let mut acks = vec![];
                    for r in &m.received_messages {
                        let rm = to_rm(r);
                        g2.lock().unwrap().push(rm.msg_id.clone());
                        acks.push(rm.ack_id);
                    }
                    // acknowledge as we go, so that a stream that respects its budget can go on
                    let _ = a2.ack(S0, acks).await;
                }
            }
        });
        tryv!(cx.quiesce().await);
        tryv!(cx.advance_ms(500).await);
        let got = got.lock().unwrap().clone();
        h.abort();
        tryv!(cx.quiesce().await);
        let case = format!("sizes={:?} max_outstanding_bytes={} max_outstanding_messages={} one-request={}", sizes, bytes, msgs_limit, per_request);
        // first deliveries: the order in which message ids appear for the first time
        let mut firsts: Vec<String> = vec![];
        for id in &got {
            if !firsts.contains(id) {
                firsts.push(id.clone());
            }
        }
        let expected: Vec<String> = ids.iter().filter(|i| firsts.contains(i)).cloned().collect();
        if firsts != expected {
            return ScenarioOut::viol("stream-budget/first-deliveries-out-of-publish-order", format!("{}: published {:?}, first deliveries on the stream {:?}", case, ids, firsts));
        }
        if firsts.len() != ids.len() {
            return ScenarioOut::viol("stream-budget/not-all-delivered", format!("{}: the stream acknowledged everything it got, yet only {} of {} messages arrived within 500 ms", case, firsts.len(), ids.len()));
        }
        ScenarioOut::ok(format!("delivered={}", firsts.len()))
    });
    explore_unit("input/stream-budget-order", "messages of uneven sizes (5 patterns) published in one request or one by one; a StreamingPull opened with max_outstanding_bytes in {0,1,50,64,100,130,1000} and max_outstanding_messages in {0,1,2,1000} that acknowledges as it receives: first deliveries follow publish order and everything arrives", Bounds::new(0), ExecCfg::default(), f)
}

pub fn c08_sched(thorough: bool) -> Vec<Unit> {
    use COp::*;
    let d = if thorough { 4 } else { 3 };
    let mut v = vec![];
    let progs: Vec<(&'static str, Vec<Vec<COp>>, (usize, usize))> = vec![
        ("pub2‖pub2", vec![vec![Publish(T0, 2)], vec![Publish(T0, 2)], vec![PullNow(S0, 1), PullNow(S0, 1)]], (0, 0)),
        ("pub;pub‖pub", vec![vec![Publish(T0, 1), Publish(T0, 2)], vec![Publish(T0, 1)], vec![PullNow(S1, 10)]], (0, 0)),
        ("pub‖pub‖stream", vec![vec![Publish(T0, 2)], vec![Publish(T0, 1), Publish(T0, 1)], vec![Stream(S0, 10)]], (0, 0)),
        ("cap1:pub2‖pub2‖pull", vec![vec![Publish(T0, 2)], vec![Publish(T0, 2)], vec![PullNow(S0, 1), PullNow(S0, 10)]], (1, 1)),
        ("cap1:pub;pub‖pub;pub", vec![vec![Publish(T0, 1), Publish(T0, 1)], vec![Publish(T0, 1), Publish(T0, 1)], vec![GetSub(S0), GetSub(S1)]], (1, 1)),
        ("cap2:pub‖pub‖pub", vec![vec![Publish(T0, 1)], vec![Publish(T0, 1)], vec![Publish(T0, 2)], vec![PullNow(S1, 1)]], (2, 2)),
        ("big-batch‖pub;pub", vec![vec![Publish(T0, 1001)], vec![Publish(T0, 1), Publish(T0, 2)]], (0, 0)),
        ("bigger-batch‖pub;pub", vec![vec![Publish(T0, 2500)], vec![Publish(T0, 1), Publish(T0, 1)]], (0, 0)),
        ("big-payload-batch‖big-payload-batch", vec![vec![PublishBig(T0, 24, 100 * 1024)], vec![PublishBig(T0, 24, 100 * 1024)], vec![Publish(T0, 1)]], (0, 0)),
        ("huge-payload-batch‖pub", vec![vec![PublishBig(T0, 3, 1200 * 1024)], vec![Publish(T0, 1), Publish(T0, 1)]], (0, 0)),
    ];
    for (n, p, caps) in progs {
        // the two largest programs (4 publishes / 3 publishes + a stream) run one level lower in the quick tier
        let heavy = ["cap1:pub;pub‖pub;pub", "pub‖pub‖stream", "pub;pub‖pub", "cap1:pub2‖pub2‖pull", "pub2‖pub2"].contains(&n);
        let dd = if n.contains("batch") { 2 } else if p.len() >= 4 || (heavy && !thorough) { d - 1 } else { d };
        v.push(explore_unit(format!("sched/{}", n), format!("{:?} (mailbox capacity {:?}); one id per message in request order, ids follow the real-time order of publishes, first deliveries on each subscription (hand-out order) follow id order", p, caps), Bounds::new(dd), ExecCfg { caps, ..Default::default() }, c01_c08_scenario(n, p, true, None)));
    }
    v
}

// ------------------------------------------------------------------------------------------- C02

/// Acknowledgement is final and local, over a concurrent history: once an Acknowledge returned OK before the delivery's
/// deadline, that message is never delivered again on that subscription (program + final drain); the other
/// subscription still gets every message.
fn c02_scenario(name: &'static str, progs: Vec<Vec<COp>>) -> ScenFn {
    scen!([progs] |cx| {
        must!(cx, "setup:create-topic", { let a = cx.api.clone(); async move { a.create_topic(T0).await } });
        must!(cx, "setup:create-sub", { let a = cx.api.clone(); async move { a.create_sub(S0, T0, 10, None).await } });
        must!(cx, "setup:create-sub", { let a = cx.api.clone(); async move { a.create_sub(S1, T0, 10, None).await } });
        let ids = must!(cx, "setup:publish", { let a = cx.api.clone(); async move { a.publish(T0, vec![(b"a".to_vec(), vec![]), (b"b".to_vec(), vec![]), (b"c".to_vec(), vec![])]).await } });
        let l = start(&cx, &progs, &[]);
        tryv!(await_termination(&cx, &l, name).await);
        let key = l.hist.key();
        tryv!(l.close_streams(&cx).await);
        let calls = l.hist.calls();
        // all deliveries on S0: (ack id, message id, receive time)
        let mut delivs: Vec<(u64, String, i64)> = vec![];
        for c in &calls {
            if let (R::Msgs(Ok(v)), COp::PullNow(s, _) | COp::PullBlock(s, _) | COp::Stream(s, _)) = (&c.result, &c.op) {
                if *s == S0 {
                    for m in v {
                        delivs.push((m.ack_id.parse().unwrap_or(0), m.msg_id.clone(), c.ret_ms));
                    }
                }
            }
        }
        let t_end = cx.now_ms();
        let w = tryv!(world_check(&cx, name, &key).await);
        for m in w.drained.get(S0).cloned().unwrap_or_default() {
            if !m.data.starts_with(b"probe:") {
                delivs.push((m.ack_id.parse().unwrap_or(0), m.msg_id.clone(), t_end));
            }
        }
        for c in &calls {
            let is_ack = matches!(&c.op, COp::AckLast(s) | COp::AckHeld(s, _) if *s == S0);
            if !is_ack || !c.result.is_ok() {
                continue;
            }
            for id in &c.arg_ids {
                let Ok(n) = id.parse::<u64>() else { continue };
                let Some((_, msg, recv)) = delivs.iter().find(|d| d.0 == n).cloned() else { continue };
                if c.ret_ms >= recv + 10_000 {
                    continue; // the lease may already have ended: finality is not promised
                }
                if let Some(later) = delivs.iter().find(|d| d.1 == msg && d.0 > n) {
                    return ScenarioOut::viol(format!("{}/delivered-again-after-ack", name), format!("message {} (ack id {}) was acknowledged with OK at {} ms, within its deadline, and was delivered again with ack id {}: {}", msg, n, c.ret_ms, later.0, key));
                }
            }
        }
        // the other subscription's copies are untouched
        let on_s1: BTreeSet<String> = calls.iter().filter_map(|c| match (&c.result, &c.op) { (R::Msgs(Ok(v)), COp::PullNow(s, _)) if *s == S1 => Some(v.iter().map(|m| m.msg_id.clone()).collect::<Vec<_>>()), _ => None }).flatten().chain(w.drained.get(S1).cloned().unwrap_or_default().into_iter().map(|m| m.msg_id)).collect();
        for id in &ids {
            if !on_s1.contains(id) {
                return ScenarioOut::viol(format!("{}/other-subscription-lost-its-copy", name), format!("message {} never arrived on {} although only {} was acknowledged: {}", id, S1, S0, key));
            }
        }
        ScenarioOut::ok(key)
    })
}

/// An Acknowledge issued just before the delivery's deadline: once it HAS RETURNED, the acknowledgement is final even
/// if the deadline passes before anybody else gets to run.  (The clock moves on as soon as the call has returned, not
/// only once the server is quiescent.)
fn ack_at_deadline_scenario() -> ScenFn {
    scen!([] |cx| {
        let a = cx.api.clone();
        must!(cx, "setup:create-topic", { let a = a.clone(); async move { a.create_topic(T0).await } });
        must!(cx, "setup:create-sub", { let a = a.clone(); async move { a.create_sub(S0, T0, 10, None).await } });
        must!(cx, "setup:publish", { let a = a.clone(); async move { a.publish(T0, vec![(b"m".to_vec(), vec![])]).await } });
        let t_pull = cx.now_ms();
        let got = must!(cx, "setup:pull", { let a = a.clone(); async move { a.pull(S0, 1, true).await } });
        let id = got[0].ack_id.clone();
        // t0 is on the server's rounding grid, so the deadline is exactly 10 s after the hand-out
        let before = [1i64, 2, 40][cx.choose("ack-ms-before-the-deadline", 3)];
        tryv!(cx.advance_to_ms(t_pull + 10_000 - before).await);
        let via = cx.choose("ack-via", 2); // 0 = unary Acknowledge, 1 = unary ModifyAckDeadline(30) ("returned" = applied as well)
        let busy = cx.choose("another-request-queued-first", 2) == 1;
        let hb = if busy { let a = a.clone(); Some(cx.spawn("client:00-get-sub", async move { a.get_sub(S0).await.is_ok() })) } else { None };
        let ha = { let (a, id) = (a.clone(), id.clone()); cx.spawn("client:01-ack", async move { if via == 0 { a.ack(S0, vec![id]).await } else { a.modify(S0, vec![id], 30).await } }) };
        tryv!(cx.run_until_done("client:01-ack").await);
        if !ha.is_finished() {
            return ScenarioOut::viol("ack-at-deadline/hang", "the Acknowledge did not return".to_string());
        }
        let r = ha.await.unwrap();
        if r.is_err() {
            return ScenarioOut::viol("ack-at-deadline/failed", format!("{:?}", r));
        }
        // the call has returned; now the deadline passes
        tryv!(cx.advance_ms(before as u64 + 4).await);
        tryv!(cx.quiesce().await);
        if let Some(h) = hb {
            if !h.is_finished() {
                return ScenarioOut::viol("ack-at-deadline/hang", "GetSubscription did not return".to_string());
            }
        }
        let mut again = vec![];
        for t in [0u64, 5_000, 12_000] {
            let was = cx.freeze(true);
            let q = cx.advance_ms(t).await;
            cx.freeze(was);
            tryv!(q);
            let v = tryv!(cx.settle("probe:pull", { let a = a.clone(); async move { a.pull(S0, 10, true).await } }).await);
            match v {
                Ok(v) => again.extend(v.into_iter().map(|m| (cx.now_ms(), m.msg_id))),
                Err(c) => return ScenarioOut::viol("ack-at-deadline/probe-failed", format!("{:?}", c)),
            }
        }
        if via == 0 && !again.is_empty() {
            return ScenarioOut::viol("ack-at-deadline/delivered-again-after-ack", format!("Acknowledge({}) had returned OK {} ms before the deadline (another request queued first: {}); the message was delivered again: {:?}", id, before, busy, again));
        }
        if via == 1 {
            // extended to 30 s from the call: not before t_call + 30 s
            let t_call = t_pull + 10_000 - before;
            if let Some((t, _)) = again.iter().find(|(t, _)| *t < t_call + 30_000) {
                return ScenarioOut::viol("ack-at-deadline/extension-lost", format!("ModifyAckDeadline({}, 30) had returned OK {} ms before the old deadline; the message was nevertheless delivered again at {} ms (call at {} ms)", id, before, t, t_call));
            }
        }
        ScenarioOut::ok(format!("via={} busy={} before={} again={}", via, busy, before, again.len()))
    })
}

pub fn ack_at_deadline_unit(thorough: bool) -> Unit {
    explore_unit("sched/ack-returned-then-deadline", "Acknowledge / ModifyAckDeadline(30) issued 1, 2 or 40 ms before the delivery's deadline, optionally behind another queued request; as soon as the call HAS RETURNED the clock crosses the deadline (select order and schedules explored): the acknowledgement / extension holds", Bounds::new(if thorough { 3 } else { 2 }), ExecCfg::default(), ack_at_deadline_scenario())
}

pub fn c02_sched(thorough: bool) -> Vec<Unit> {
    use COp::*;
    let d = if thorough { 5 } else { 3 };
    let progs: Vec<(&'static str, Vec<Vec<COp>>)> = vec![
        ("pull;ack‖pull;ack", vec![vec![PullNow(S0, 1), AckLast(S0)], vec![PullNow(S0, 1), AckLast(S0)]]),
        ("pull;ack‖pull;ack‖pull", vec![vec![PullNow(S0, 1), AckLast(S0)], vec![PullNow(S0, 2), AckLast(S0)], vec![PullNow(S0, 10), PullNow(S1, 1)]]),
        ("pull;ack‖pull;nack‖pull;ack", vec![vec![PullNow(S0, 1), AckLast(S0)], vec![PullNow(S0, 1), NackLast(S0)], vec![PullNow(S0, 10), AckLast(S0)]]),
        ("stream‖pull;ack", vec![vec![Stream(S0, 1)], vec![PullNow(S0, 1), AckLast(S0), PullNow(S0, 1), AckLast(S0)]]),
    ];
    progs.into_iter().map(|(n, p)| explore_unit(format!("sched/{}", n), format!("{:?} on a subscription holding 3 messages; an ack that returned OK within the deadline is final (program deliveries + final drain), the other subscription keeps all its copies", p), Bounds::new(if p.len() >= 3 { d - 1 } else { d }), ExecCfg::default(), c02_scenario(n, p))).collect()
}

/// C01 (input mode): fan-out to MANY subscriptions of one topic.
pub fn many_subscriptions_unit(thorough: bool) -> Unit {
    let counts: Vec<usize> = if thorough { vec![3, 16, 17, 31, 32, 33, 40, 64, 65, 100, 257] } else { vec![3, 17, 33, 40, 65] };
    let f: ScenFn = scen!([counts] |cx| {
        let n = counts[cx.choose("subscriptions", counts.len())];
        let a = cx.api.clone();
        must!(cx, "setup:create-topic", { let a = a.clone(); async move { a.create_topic(T0).await } });
        let names: Vec<String> = (0..n).map(|i| format!("projects/p/subscriptions/many-{:03}", i)).collect();
        for s in &names {
            let (a2, s2) = (a.clone(), s.clone());
            must!(cx, "setup:create-sub", async move { a2.create_sub(&s2, T0, 10, None).await });
        }
        let mut ids = vec![];
        for k in [1usize, 2] {
            let r = must!(cx, "client:publish", { let a = a.clone(); async move { a.publish(T0, (0..k).map(|j| (format!("m{}-{}", k, j).into_bytes(), vec![])).collect()).await } });
            ids.extend(r);
        }
        // delete one in the middle, publish again: everybody else still gets it
        let gone = names[n / 2].clone();
        must!(cx, "client:delete-sub", { let (a2, g) = (a.clone(), gone.clone()); async move { a2.delete_sub(&g).await } });
        let late = must!(cx, "client:publish", { let a = a.clone(); async move { a.publish(T0, vec![(b"late".to_vec(), vec![])]).await } });
        for s in &names {
            if *s == gone {
                continue;
            }
            let (a2, s2) = (a.clone(), s.clone());
            let got = must!(cx, "client:pull", async move { a2.pull(&s2, 100, true).await });
            let got_ids: Vec<String> = got.iter().map(|m| m.msg_id.clone()).collect();
            let mut want = ids.clone();
            want.extend(late.clone());
            if got_ids != want {
                return ScenarioOut::viol("fan-out/subscription-missed-messages", format!("{} subscriptions on one topic: {} received {:?}, the topic accepted {:?}", n, s, got_ids, want));
            }
        }
        ScenarioOut { sample: Some(format!("{} subscriptions", n)), ..ScenarioOut::ok(format!("n={}", n)) }
    });
    explore_unit("input/many-subscriptions", format!("one topic with {:?} subscriptions, three publishes (one after deleting a subscription in the middle): every remaining subscription receives every message, in order", counts), Bounds::new(0), ExecCfg { points_on: false, max_steps: 500_000, ..Default::default() }, f)
}
