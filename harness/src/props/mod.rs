use crate::report::Unit;
pub mod c03;
pub mod c06;
pub mod c07;
pub mod c09;
pub mod c12;
pub mod c14;
pub mod c15;
pub mod c16;
pub mod c17;
pub mod c13;
pub mod c18;
pub mod schedprops;
pub mod seqprops;

/// Adds the units of a neighbouring property's check (skipping names that are already there): a change that is
/// filed under one property often shows its symptom in the terms of a neighbouring one.
fn share(v: &mut Vec<Unit>, more: Vec<Unit>) {
    for u in more {
        if !v.iter().any(|x| x.name == u.name) {
            v.push(u);
        }
    }
}

pub fn units(id: &str, tier: &str) -> Option<Vec<Unit>> {
    let thorough = tier == "thorough";
    Some(match id {
        "C01" => { let mut v = seqprops::c01(thorough); v.push(schedprops::many_subscriptions_unit(thorough)); v.push(c15::limits_unit(thorough)); v.push(seqprops::deadline_walk(thorough)); v.push(seqprops::big_batch_expiry_race(thorough)); v.extend(seqprops::core_units(thorough)); v.extend(schedprops::c01_sched(thorough)); v.push(schedprops::recreate_unit(thorough)); share(&mut v, c06::cancel_units_small(thorough)); v }
        "C02" => { let mut v = seqprops::c02(thorough); v.extend(seqprops::core_units(thorough)); v.extend(schedprops::c02_sched(thorough)); v.push(c03::abandoned_pull_ack_unit(thorough)); v.push(schedprops::ack_at_deadline_unit(thorough)); v }
        "C03" => {
            let mut v = c03::units(thorough);
            v.extend(seqprops::core_units(thorough));
            v.extend(seqprops::stream_units(thorough));
            v.push(seqprops::reincarnation_unit(thorough));
            // a push dispatch holds its lease while the endpoint is slow (shared with C14)
            share(&mut v, c14::units(thorough).into_iter().filter(|u| u.name == "fault/slow-endpoint" || u.name == "fault/long-deadline").collect());
            v
        }
        "C04" => {
            let mut v = seqprops::c04(thorough);
            v.extend(seqprops::core_units(thorough));
            // what an abandoned consumer leaves behind must not cut another consumer's lease short (shared with C02 / C03)
            share(&mut v, c03::units(thorough).into_iter().filter(|u| u.name.starts_with("crash/abandoned-pull")).collect());
            v
        }
        "C05" => { let mut v = seqprops::c05(thorough); v.extend(seqprops::core_units(thorough)); v.push(schedprops::ack_at_deadline_unit(thorough)); v.push(c03::stream_control_order_unit(thorough)); v }
        "C06" => {
            let mut v = c06::units(thorough);
            v.extend(seqprops::stream_units(thorough));
            v.push(c15::limits_unit(thorough));
            share(&mut v, vec![c15::blocking_unit(thorough)]);
            share(&mut v, c16::units(thorough).into_iter().filter(|u| u.name == "crash/next-to-a-waiting-consumer").collect());
            v
        }
        "C07" => {
            let mut v = c07::units(thorough);
            v.push(c15::blocking_unit(thorough));
            share(&mut v, c12::units(thorough));
            // listings and deletions racing each other terminate (shared with C11)
            share(&mut v, schedprops::c11_sched(thorough).into_iter().filter(|u| u.name.contains("list")).collect());
            v
        }
        "C08" => { let mut v = seqprops::c08(thorough); v.extend(schedprops::c08_sched(thorough)); v.push(schedprops::stream_budget_order_unit()); share(&mut v, c09::units(thorough).into_iter().filter(|u| u.name.starts_with("seq/unique-ids")).collect()); v }
        "C09" => {
            let mut v = c09::units(thorough);
            // the id a delivery carries is the one Publish returned for that message, also with concurrent publishers (shared with C08)
            share(&mut v, schedprops::c08_sched(thorough).into_iter().filter(|u| u.name == "sched/pub2‖pub2" || u.name == "sched/pub;pub‖pub").collect());
            v
        }
        "C10" => { let mut v = seqprops::c10(thorough); v.extend(schedprops::c10_sched(thorough)); share(&mut v, schedprops::c11_sched(thorough)); v }
        "C11" => { let mut v = seqprops::c11(thorough); v.extend(schedprops::c11_sched(thorough)); v.push(c14::interference_unit()); share(&mut v, schedprops::c10_sched(thorough)); v }
        "C12" => {
            // the deletion behind a busy mailbox (shared with C07): nothing that races with the deletion may hang
            let mut v = c12::units(thorough);
            v.extend(c07::units(thorough).into_iter().filter(|u| u.name.starts_with("sched/cap1/delete-sub+") || u.name.contains("/stream+delete+publish")));
            v
        }
        "C13" => c13::units(thorough),
        "C14" => c14::units(thorough),
        "C15" => { let mut v = c15::units(thorough); v.extend(seqprops::stream_units(thorough)); v.extend(c06::cancel_units_small(thorough)); share(&mut v, c06::units(thorough)); v }
        "C16" => {
            let mut v = c16::units(thorough);
            share(&mut v, schedprops::c10_sched(thorough).into_iter().filter(|u| u.name.contains("abandoned")).collect());
            share(&mut v, schedprops::c11_sched(thorough).into_iter().filter(|u| u.name.contains("abandoned")).collect());
            v
        }
        "C17" => c17::units(thorough),
        "C18" => c18::units(thorough),
        _ => return None,
    })
}

pub const ALL: &[&str] = &["C12"];

/// Re-runs the execution / case stored in a replay file, twice, and reports whether it still fails.
pub fn replay(path: &str) -> i32 {
    let Ok(text) = std::fs::read_to_string(path) else {
        eprintln!("cannot read {}", path);
        return 2;
    };
    let Ok(doc) = serde_json::from_str::<serde_json::Value>(&text) else {
        eprintln!("not JSON: {}", path);
        return 2;
    };
    let prop = doc["property"].as_str().unwrap_or("");
    let unit = doc["unit"].as_str().unwrap_or("");
    let sig = doc["signature"].as_str().unwrap_or("");
    for tier in ["quick", "thorough"] {
        let Some(us) = units(prop, tier) else { continue };
        for u in us {
            if u.name != unit {
                continue;
            }
            match &u.kind {
                crate::report::UnitKind::Explore { run, .. } => {
                    let choices: Vec<u32> = doc["replay"]["choices"].as_array().map(|a| a.iter().map(|v| v.as_u64().unwrap_or(0) as u32).collect()).unwrap_or_default();
                    let a = run(&choices, true);
                    let b = run(&choices, true);
                    if a.trace != b.trace {
                        eprintln!("MACHINERY: replay is not deterministic");
                        return 2;
                    }
                    for l in &a.trace {
                        println!("    {}", l);
                    }
                    match a.verdict {
                        crate::explore::Verdict::Violation { sig: s, detail } => {
                            println!("replayed: VIOLATION property={} replay={}\n  sig={} (recorded {})\n  {}", prop, path, s, sig, detail);
                            return 1;
                        }
                        crate::explore::Verdict::Ok(k) => {
                            println!("replayed: property held on this execution; outcome = {}", k);
                            return 0;
                        }
                        crate::explore::Verdict::Machinery(m) => {
                            eprintln!("MACHINERY: {}", m);
                            return 2;
                        }
                    }
                }
                crate::report::UnitKind::Enumerate { run } => {
                    let case = doc["replay"]["case"].as_str().unwrap_or("");
                    let r = run(Some(case), &|_| false);
                    if let Some(v) = r.violations.first() {
                        println!("replayed: VIOLATION property={} replay={}\n  sig={}\n  {}", prop, path, v.sig, v.detail);
                        return 1;
                    }
                    println!("replayed: case '{}' no longer violates ({} evaluations)", case, r.evaluations);
                    return 0;
                }
            }
        }
    }
    eprintln!("unit {} of {} not found", unit, prop);
    2
}
