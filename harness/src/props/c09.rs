//! C09 Messages are delivered intact with a stable, globally unique identity.
use crate::engine::PushAnswer;
use crate::explore::*;
use crate::model::Model;
use crate::report::Unit;
use crate::scen::*;
use crate::seq::*;
use crate::world::*;
use crate::{must, scen, tryv};
use base64::Engine;

fn payloads() -> Vec<(&'static str, Vec<u8>)> {
    vec![
        ("empty", vec![]),
        ("nul", vec![0]),
        ("binary", vec![0xff, 0xfe, 0x00, 0x80, 0x0a]),
        ("1KiB", (0..1024u32).map(|i| (i * 7 % 251) as u8).collect()),
        ("1MiB", (0..1_048_576u32).map(|i| (i % 253) as u8).collect()),
    ]
}

fn attr_sets() -> Vec<(&'static str, Vec<(String, String)>)> {
    vec![
        ("none", vec![]),
        ("one", vec![("k".into(), "v".into())]),
        ("twenty", (0..20).map(|i| (format!("key-{:02}", i), format!("value {}", i))).collect()),
        ("non-ascii", vec![("clé-é".into(), "värde ✓ 日本".into()), ("".into(), "empty key".into())]),
        ("empty-value", vec![("k".into(), "".into())]),
    ]
}

/// delivery path 0 = Pull, 1 = StreamingPull, 2 = push
fn integrity_unit() -> Unit {
    let f: ScenFn = scen!(|cx| {
        let ps = payloads();
        let ats = attr_sets();
        let (pn, data) = ps[cx.choose("payload", ps.len())].clone();
        let (an, attrs) = ats[cx.choose("attributes", ats.len())].clone();
        let path = cx.choose("path", 3);
        let case = format!("payload={} attrs={} path={}", pn, an, ["pull", "stream", "push"][path]);
        let mut model = Model::default();
        let a = cx.api.clone();
        let r = tryv!(cx.settle("setup:create-topic", { let a = a.clone(); async move { a.create_topic(T0).await } }).await);
        if let Err((s, d)) = model.create_topic(T0, &r) { return ScenarioOut::viol(s, d); }
        let push = if path == 2 { Some("http://push.example/endpoint") } else { None };
        let r = tryv!(cx.settle("setup:create-sub", { let a = a.clone(); async move { a.create_sub(S0, T0, 10, push).await } }).await);
        if let Err((s, d)) = model.create_sub(S0, T0, 10, push, &r) { return ScenarioOut::viol(s, d); }
        // a second message with different content must not bleed into the first
        let msgs = vec![(data.clone(), attrs.clone()), (b"other".to_vec(), vec![("other".to_string(), "1".to_string())])];
        let inbox: std::sync::Arc<std::sync::Mutex<Vec<Vec<Rm>>>> = Default::default();
        let mut _keep = None;
        if path == 1 {
            let (tx, r) = tryv!(cx.settle("client:stream-open", { let a = a.clone(); async move { a.streaming_pull(first_stream_req(S0, 1000)).await } }).await);
            let Ok(mut stream) = r else { return ScenarioOut::viol("stream/open-failed", format!("{}", case)) };
            let i2 = inbox.clone();
            cx.spawn("client:stream-reader", async move {
                while let Ok(Some(m)) = stream.message().await {
                    i2.lock().unwrap().push(m.received_messages.iter().map(to_rm).collect());
                }
            });
            _keep = Some(tx);
        }
        // push endpoint rejects the first round (=> redelivery), accepts later
        cx.set_push_menu(vec![PushAnswer::Status(500)]);
        let m2 = msgs.clone();
        let r = tryv!(cx.settle("client:publish", { let a = a.clone(); async move { a.publish(T0, m2).await } }).await);
        if let Err((s, d)) = model.publish(T0, &msgs, &r) { return ScenarioOut::viol(s, d); }
        let ids = r.unwrap();
        // three rounds of delivery: first, after nack, after expiry
        let mut delivered_rounds = 0;
        for round in 0..3 {
            let got: Vec<Rm> = match path {
                0 => {
                    let r = tryv!(cx.settle("client:pull", { let a = a.clone(); async move { a.pull(S0, 10, true).await } }).await);
                    match r { Ok(v) => v, Err(c) => return ScenarioOut::viol("pull/failed", format!("{}: {:?}", case, c)) }
                }
                1 => {
                    let was = cx.freeze(true);
                    let q = cx.quiesce().await;
                    cx.freeze(was);
                    tryv!(q);
                    std::mem::take(&mut *inbox.lock().unwrap()).into_iter().flatten().collect()
                }
                _ => {
                    // one push round (interval 1 s); the requests seen at the transport seam are the deliveries
                    let before = cx.push_log().len();
                    let was = cx.freeze(true);
                    let q = cx.advance_ms(1001).await;
                    cx.freeze(was);
                    tryv!(q);
                    let log = cx.push_log();
                    let mut v = vec![];
                    for att in &log[before..] {
                        if att.method != "POST" || att.url != "http://push.example/endpoint" {
                            return ScenarioOut::viol("push/wrong-request", format!("{}: {} {}", case, att.method, att.url));
                        }
                        let Ok(j) = serde_json::from_slice::<serde_json::Value>(&att.body) else { return ScenarioOut::viol("push/body-not-json", format!("{}: body is not JSON", case)) };
                        if j["subscription"].as_str() != Some(S0) {
                            return ScenarioOut::viol("push/subscription-not-named", format!("{}: payload names subscription {:?}", case, j["subscription"]));
                        }
                        let m = &j["message"];
                        let id = m["messageId"].as_str().or(m["message_id"].as_str()).unwrap_or("").to_string();
                        if m["messageId"].as_str().is_some() && m["message_id"].as_str().is_some() && m["messageId"] != m["message_id"] {
                            return ScenarioOut::viol("push/id-fields-disagree", format!("{}", case));
                        }
                        let Ok(d) = base64::engine::general_purpose::STANDARD.decode(m["data"].as_str().unwrap_or("!")) else { return ScenarioOut::viol("push/data-not-base64", format!("{}: data {:?}", case, m["data"])) };
                        let attrs = m["attributes"].as_object().map(|o| o.iter().map(|(k, v)| (k.clone(), v.as_str().unwrap_or("").to_string())).collect()).unwrap_or_default();
                        v.push(Rm { ack_id: format!("push-{}-{}", round, v.len()), msg_id: id, data: d, attrs, publish_time: (0, 0) });
                    }
                    v
                }
            };
            if !got.is_empty() {
                delivered_rounds += 1;
            }
            // identity / integrity / publish-time stability are checked by the model's delivery validation
            let r = if path == 2 {
                // push ack ids are synthetic: bypass lease bookkeeping by validating content only
                let mut ok = Ok(());
                for rm in &got {
                    let Some(i) = ids.iter().position(|x| *x == rm.msg_id) else { ok = Err(("push/unknown-message-id".to_string(), format!("{}: pushed id {}", case, rm.msg_id))); break };
                    if rm.data != msgs[i].0 { ok = Err(("delivery/data-mismatch".into(), format!("{}: pushed data differs ({} vs {} bytes)", case, rm.data.len(), msgs[i].0.len()))); break }
                    let mut a1: Vec<(String, String)> = rm.attrs.iter().map(|(k, v)| (k.clone(), v.clone())).collect();
                    let mut b1 = msgs[i].1.clone();
                    a1.sort(); b1.sort();
                    if a1 != b1 { ok = Err(("delivery/attributes-mismatch".into(), format!("{}: pushed attributes {:?}, published {:?}", case, a1, b1))); break }
                }
                if got.len() != 2 { ok = Err(("push/not-all-pushed".into(), format!("{}: round {} pushed {} of 2 messages", case, round, got.len()))); }
                ok
            } else {
                model.now_ms = cx.now_ms();
                model.deliveries(S0, None, &got, false)
            };
            if let Err((s, d)) = r { return ScenarioOut::viol(s, format!("{} round {}: {}", case, round, d)); }
            if path != 2 {
                if got.len() != 2 { return ScenarioOut::viol("delivery/missing", format!("{}: round {} delivered {} of 2 messages", case, round, got.len())); }
                // make them available again: round 0 -> nack, round 1 -> let the deadline pass
                if round == 0 {
                    let ids: Vec<String> = got.iter().map(|g| g.ack_id.clone()).collect();
                    let i2 = ids.clone();
                    let r = tryv!(cx.settle("client:nack", { let a = a.clone(); async move { a.modify(S0, i2, 0).await } }).await);
                    if let Err((s, d)) = model.modify(S0, &ids, 0, &r) { return ScenarioOut::viol(s, d); }
                } else if round == 1 {
                    let t = model.earliest_lo().unwrap() + SLACK_MS;
                    let was = cx.freeze(true);
                    let q = cx.advance_to_ms(t).await;
                    cx.freeze(was);
                    tryv!(q);
                    model.advance_to(t);
                }
            }
        }
        ScenarioOut { sample: Some(case), ..ScenarioOut::ok(format!("rounds={} path={}", delivered_rounds, path)) }
    });
    explore_unit(
        "input/integrity",
        "5 payloads x 5 attribute maps x {Pull, StreamingPull, push} x {first delivery, after nack / rejected push, after expiry}: data, attributes, id, publish time",
        Bounds::new(0),
        ExecCfg { points_on: false, push_interval_ms: Some(1000), max_steps: 100_000, ..Default::default() },
        f,
    )
}

fn ids_unit(depth: usize) -> Unit {
    // (TQ is a topic of another project: ids are unique across the whole server, not per project)
    let alphabet = vec![Op::CreateTopic(T0), Op::DeleteTopic(T0), Op::CreateTopic(T1), Op::DeleteTopic(T1), Op::CreateTopic(TQ), Op::Publish(T0, 2), Op::Publish(T1, 1), Op::Publish(TQ, 1)];
    let mut c = SeqCfg {
        name: format!("seq/unique-ids/n{}", depth),
        desc: format!("create / delete / re-create two topic names (and create a topic in another project) and publish: all message ids ever returned are pairwise distinct and increasing per topic incarnation; all sequences of length {}", depth),
        setup: vec![],
        alphabet,
        depth,
        all_enabled: true,
        drain: false,
        exec: ExecCfg { points_on: false, ..Default::default() },
        bounds: Bounds::new(0),
        unfrozen: false,
    };
    c.all_enabled = true;
    seq_unit(c)
}

/// 65536+ topic creations in one server lifetime: the part of a message id that identifies the topic does not wrap.
fn many_topics_unit() -> Unit {
    let f: ScenFn = scen!(|cx| {
        let n = [300usize, 65_536 + 2][cx.choose("topic-creations", 2)];
        let a = cx.api.clone();
        must!(cx, "setup:create-topic", { let a = a.clone(); async move { a.create_topic(T0).await } });
        let early = must!(cx, "setup:publish", { let a = a.clone(); async move { a.publish(T0, vec![(b"early".to_vec(), vec![])]).await } });
        let mut seen: std::collections::BTreeSet<String> = early.iter().cloned().collect();
        // create + delete many throw-away topics; every 4096th keeps a message id for the comparison
        let a2 = a.clone();
        let ids = tryv!(cx.settle("client:churn", async move {
            let mut ids = vec![];
            for i in 0..n {
                let name = "projects/p/topics/churn";
                if a2.create_topic(name).await.is_err() { return Err(format!("create #{} failed", i)); }
                if i % 4096 == 0 || i + 3 > n {
                    match a2.publish(name, vec![(b"x".to_vec(), vec![])]).await { Ok(v) => ids.extend(v), Err(c) => return Err(format!("publish #{}: {:?}", i, c)) }
                }
                if a2.delete_topic(name).await.is_err() { return Err(format!("delete #{} failed", i)); }
            }
            Ok(ids)
        }).await);
        let ids = match ids { Ok(v) => v, Err(e) => return ScenarioOut::viol("many-topics/churn-failed", e) };
        for id in ids {
            if !seen.insert(id.clone()) {
                return ScenarioOut::viol("many-topics/duplicate-message-id", format!("after up to {} topic creations message id {} was issued a second time", n, id));
            }
        }
        must!(cx, "client:create-topic", { let a = a.clone(); async move { a.create_topic(T1).await } });
        for t in [T0, T1] {
            let r = must!(cx, "client:publish", { let a = a.clone(); async move { a.publish(t, vec![(b"late".to_vec(), vec![])]).await } });
            for id in r {
                if !seen.insert(id.clone()) {
                    return ScenarioOut::viol("many-topics/duplicate-message-id", format!("after {} topic creations message id {} (topic {}) was issued a second time", n, id, t));
                }
            }
        }
        ScenarioOut { sample: Some(format!("{} creations", n)), ..ScenarioOut::ok(format!("n={}", n)) }
    });
    explore_unit("input/many-topics", "300 and 65538 create/delete cycles of topics in one server lifetime with publishes along the way: all message ids distinct", Bounds::new(0), ExecCfg { points_on: false, max_steps: 5_000_000, ..Default::default() }, f)
}

/// Topics created / re-created concurrently: ids stay globally unique.
fn concurrent_ids_unit(name: &'static str, progs: Vec<Vec<crate::litmus::COp>>, pre: bool, d: usize) -> Unit {
    use crate::litmus::*;
    let desc = format!("{:?}: every message id returned is distinct", progs);
    let f: ScenFn = scen!([progs] |cx| {
        let mut seen = std::collections::BTreeSet::new();
        if pre {
            must!(cx, "setup:create-topic", { let a = cx.api.clone(); async move { a.create_topic(T0).await } });
            let ids = must!(cx, "setup:publish", { let a = cx.api.clone(); async move { a.publish(T0, vec![(b"pre".to_vec(), vec![]), (b"pre2".to_vec(), vec![])]).await } });
            seen.extend(ids);
        }
        let l = start(&cx, &progs, &[]);
        tryv!(await_termination(&cx, &l, name).await);
        let key = l.hist.key();
        for c in l.hist.calls() {
            if let R::Ids(Ok(ids)) = &c.result {
                for id in ids {
                    if !seen.insert(id.clone()) {
                        return ScenarioOut::viol(format!("{}/duplicate-message-id", name), format!("message id {} was returned for two distinct messages: {}", id, key));
                    }
                }
            }
        }
        ScenarioOut::ok(format!("{} ids={}", key, seen.len()))
    });
    explore_unit(format!("sched/{}", name), desc, Bounds::new(d), ExecCfg::default(), f)
}

/// Fields of a published message that only the server may decide (id, publish time) are set by the client - e.g. a
/// received message re-published verbatim.  Ids stay unique; what is delivered carries the id Publish returned.
fn client_fields_unit() -> Unit {
    let f: ScenFn = scen!(|cx| {
        let a = cx.api.clone();
        must!(cx, "setup:create-topic", { let a = a.clone(); async move { a.create_topic(T0).await } });
        must!(cx, "setup:create-topic", { let a = a.clone(); async move { a.create_topic(T1).await } });
        must!(cx, "setup:create-sub", { let a = a.clone(); async move { a.create_sub(S0, T0, 10, None).await } });
        must!(cx, "setup:create-sub", { let a = a.clone(); async move { a.create_sub(S1, T1, 10, None).await } });
        let first = must!(cx, "setup:publish", { let a = a.clone(); async move { a.publish(T0, vec![(b"orig".to_vec(), vec![])]).await } });
        let got = must!(cx, "setup:pull", { let a = a.clone(); async move { a.pull(S0, 1, true).await } });
        let which = cx.choose("client-set-id", 7);
        let target = [T0, T1][cx.choose("target-topic", 2)];
        let id_field = match which {
            0 => first[0].clone(),
            1 => "1".to_string(),
            2 => "0".to_string(),
            3 => "18446744073709551615".to_string(),
            4 => "not-a-number".to_string(),
            5 => format!("{}", first[0].parse::<u64>().unwrap_or(0) + 1),
            _ => String::new(),
        };
        let msg = deltio::pubsub_proto::PubsubMessage {
            data: b"republished".to_vec(),
            message_id: id_field.clone(),
            publish_time: Some(deltio::pubsub_proto::PubsubMessage::default().publish_time.unwrap_or_default()),
            ordering_key: "key".into(),
            attributes: [("origin".to_string(), got[0].msg_id.clone())].into_iter().collect(),
        };
        let m2 = msg.clone();
        let r = tryv!(cx.settle("client:publish-raw", { let a = a.clone(); async move { a.publish_raw(target, vec![m2.clone(), m2]).await } }).await);
        let ids = match r { Ok(v) => v, Err(c) => return ScenarioOut::viol("client-fields/publish-failed", format!("Publish with message_id={:?} failed with {:?}", id_field, c)) };
        let mut all: Vec<String> = first.clone();
        all.extend(ids.clone());
        // a further ordinary publish on each topic
        for t in [T0, T1] {
            let r = must!(cx, "client:publish", { let a = a.clone(); async move { a.publish(t, vec![(b"later".to_vec(), vec![])]).await } });
            all.extend(r);
        }
        let mut uniq = all.clone();
        uniq.sort();
        uniq.dedup();
        if uniq.len() != all.len() {
            return ScenarioOut::viol("client-fields/duplicate-message-id", format!("publishing a message whose message_id field was set to {:?} by the client: ids returned so far {:?}", id_field, all));
        }
        let sub = if target == T0 { S0 } else { S1 };
        let got2 = must!(cx, "client:pull", { let a = a.clone(); async move { a.pull(sub, 10, true).await } });
        for id in &ids {
            match got2.iter().find(|m| m.msg_id == *id) {
                None => return ScenarioOut::viol("client-fields/returned-id-not-delivered", format!("Publish returned id {} but the subscription delivered {:?}", id, got2.iter().map(|m| m.msg_id.clone()).collect::<Vec<_>>())),
                Some(m) if m.data != b"republished" => return ScenarioOut::viol("client-fields/data-mismatch", format!("id {} delivered with other data", id)),
                _ => {}
            }
        }
        ScenarioOut { sample: Some(format!("message_id={:?} -> {}", id_field, target)), ..ScenarioOut::ok(format!("which={}", which)) }
    });
    explore_unit("input/client-set-fields", "Publish requests whose messages carry a client-chosen message_id (an id issued earlier, 1, 0, u64::MAX, garbage, next id, empty), publish_time and ordering_key, to the same and to another topic: ids stay pairwise distinct, the delivered id is the returned one", Bounds::new(0), ExecCfg { points_on: false, ..Default::default() }, f)
}

pub fn units(thorough: bool) -> Vec<Unit> {
    use crate::litmus::COp::*;
    let _ = must_use();
    let d = if thorough { 6 } else { 3 };
    vec![
        integrity_unit(),
        client_fields_unit(),
        many_topics_unit(),
        ids_unit(if thorough { 8 } else { 6 }),
        concurrent_ids_unit("create‖create;publish", vec![vec![CreateTopic(T0), Publish(T0, 2)], vec![CreateTopic(T1), Publish(T1, 2)]], false, d),
        concurrent_ids_unit("delete;create‖create;publish", vec![vec![DeleteTopic(T0), CreateTopic(T0), Publish(T0, 1)], vec![CreateTopic(T1), Publish(T1, 1)], vec![Publish(T0, 1)]], true, d),
        concurrent_ids_unit("delete‖publish‖publish", vec![vec![DeleteTopic(T0)], vec![Publish(T0, 1), Publish(T0, 2)], vec![Publish(T0, 1)]], true, d),
    ]
}

fn must_use() -> bool {
    // keep the `must!` import used for future scenarios
    let _ = |cx: Ctx| async move {
        must!(cx, "x", async { Ok::<(), Code>(()) });
        ScenarioOut::ok("")
    };
    true
}
