//! C06 Waiting consumers are woken when a message becomes available.
use crate::explore::*;
use crate::litmus::*;
use crate::report::Unit;
use crate::scen::*;
use crate::world::*;
use crate::{must, scen, tryv};

#[derive(Clone, Copy, Debug, PartialEq)]
enum Event {
    Publish1,
    Publish2,
    TwoPublishes,
    Nack,
    Expiry,
    PublishThenNack,
}

/// At a quiescent point: nothing may sit in the backlog while a consumer is known to be waiting.
async fn no_sleeper(cx: &Ctx, l: &Litmus, consumers: usize, cancelled: Option<usize>, when: &str, name: &str) -> Result<(), Verdict> {
    let waiting: Vec<String> = l
        .hist
        .pending()
        .into_iter()
        .filter(|c| c.client < consumers && Some(c.client) != cancelled && matches!(c.op, COp::PullBlock(..) | COp::Stream(..)))
        .map(|c| format!("client {} {:?}", c.client, c.op))
        .collect();
    if waiting.is_empty() {
        return Ok(());
    }
    if let Some(st) = cx.stats(S0).await? {
        if st.backlog > 0 {
            return Err(Verdict::Violation {
                sig: format!("{}/sleeping-over-backlog", name),
                detail: format!("{}: {} message(s) are available on the subscription at quiescence while {:?} keep(s) waiting; history: {}", when, st.backlog, waiting, l.hist.key()),
            });
        }
    }
    Ok(())
}

fn scenario(name: &'static str, consumers: Vec<COp>, event: Event, cancel_first: bool) -> ScenFn {
    scenario_x(name, consumers, event, cancel_first, false)
}

/// With another client keeping the subscription's mailbox busy with requests that wake nobody (GetSubscription).
fn scenario_busy(name: &'static str, consumers: Vec<COp>, event: Event) -> ScenFn {
    scenario_y(name, consumers, event, true, false, true)
}

/// `push_cfg`: the subscription was created with a push endpoint (no push loop is running here: it is only pulled)
fn scenario_x(name: &'static str, consumers: Vec<COp>, event: Event, cancel_first: bool, push_cfg: bool) -> ScenFn {
    scenario_y(name, consumers, event, cancel_first, push_cfg, false)
}

fn scenario_y(name: &'static str, consumers: Vec<COp>, event: Event, cancel_first: bool, push_cfg: bool, busy: bool) -> ScenFn {
    scen!([consumers] |cx| {
        let a = cx.api.clone();
        must!(cx, "setup:create-topic", { let a = a.clone(); async move { a.create_topic(T0).await } });
        must!(cx, "setup:create-sub", { let a = a.clone(); async move { a.create_sub(S0, T0, 10, if push_cfg { Some("http://push.example/unused") } else { None }).await } });
        let mut held: Vec<Rm> = vec![];
        let t_handout = cx.now_ms();
        if matches!(event, Event::Nack | Event::Expiry | Event::PublishThenNack) {
            must!(cx, "setup:publish", { let a = a.clone(); async move { a.publish(T0, vec![(b"held".to_vec(), vec![])]).await } });
            held = must!(cx, "setup:pull", { let a = a.clone(); async move { a.pull(S0, 1, true).await } });
        }
        let nc = consumers.len();
        let mut progs: Vec<Vec<COp>> = consumers.iter().map(|c| vec![c.clone()]).collect();
        let mut helds: Vec<Vec<Rm>> = vec![vec![]; nc];
        match event {
            Event::Publish1 => progs.push(vec![COp::Publish(T0, 1)]),
            Event::Publish2 => progs.push(vec![COp::Publish(T0, 2)]),
            Event::TwoPublishes => {
                progs.push(vec![COp::Publish(T0, 1)]);
                progs.push(vec![COp::Publish(T0, 1)]);
            }
            Event::Nack => {
                progs.push(vec![COp::NackHeld(S0, 0)]);
                helds.push(held.clone());
            }
            Event::PublishThenNack => {
                progs.push(vec![COp::Publish(T0, 1)]);
                helds.push(vec![]);
                progs.push(vec![COp::NackHeld(S0, 0)]);
                helds.push(held.clone());
            }
            Event::Expiry => {}
        }
        if busy {
            progs.push(vec![COp::GetSub(S0), COp::GetSub(S0), COp::GetSub(S0)]);
            helds.push(vec![]);
        }
        // which step boundary of the first consumer it is cancelled at (data choice; last value = never)
        let k = if cancel_first { cx.choose("cancel-after-polls", 6) } else { 5 };
        let l = start(&cx, &progs, &helds);
        let mut cancelled = None;
        if k < 5 {
            tryv!(cx.quiesce_until_polls("client:00", k as u32).await);
            cx.abort_now(&l.handles[0]).await;
            cancelled = Some(0);
        }
        tryv!(cx.quiesce().await);
        tryv!(no_sleeper(&cx, &l, nc, cancelled, "after the event", name).await);
        if event == Event::Expiry {
            tryv!(cx.advance_to_ms(t_handout + 10_000 - 1).await);
            tryv!(no_sleeper(&cx, &l, nc, cancelled, "1 ms before the deadline", name).await);
            tryv!(cx.advance_to_ms(t_handout + 10_000 + SLACK_MS).await);
            tryv!(no_sleeper(&cx, &l, nc, cancelled, "after the deadline", name).await);
        }
        tryv!(cx.advance_ms(1000).await);
        tryv!(no_sleeper(&cx, &l, nc, cancelled, "one second later", name).await);
        // what a cancelled consumer had in hand comes back after its deadline and must again reach a waiting consumer
        if cancelled.is_some() {
            tryv!(cx.advance_ms(10_000 + SLACK_MS as u64).await);
            tryv!(no_sleeper(&cx, &l, nc, cancelled, "after the cancelled consumer's lease expired", name).await);
        }
        let key = l.hist.key();
        tryv!(l.close_streams(&cx).await);
        ScenarioOut::ok(format!("{} cancel={}", key, if k < 5 { k as i32 } else { -1 }))
    })
}

/// The smallest cancel scenarios, shared with C15 (a blocked Pull must return as soon as a message is available, also
/// when the consumer that was woken first has gone away).
pub fn cancel_units_small(thorough: bool) -> Vec<Unit> {
    use COp::*;
    let mut v = vec![];
    for (cn, c) in [("pull1+pull1", vec![PullBlock(S0, 1), PullBlock(S0, 1)]), ("pull10+pull10", vec![PullBlock(S0, 10), PullBlock(S0, 10)])] {
        for e in [Event::Publish1, Event::Nack] {
            v.push(explore_unit(
                format!("sched-cancel/cap0/{}/{:?}", cn, e),
                format!("consumers {:?}, event {:?}, the first consumer is cancelled after k polls for every k", c, e),
                Bounds::new(if thorough { 3 } else { 1 }),
                ExecCfg::default(),
                scenario("cancel", c.clone(), e, true),
            ));
        }
    }
    v
}

pub fn units(thorough: bool) -> Vec<Unit> {
    use COp::*;
    let d = if thorough { 5 } else { 2 };
    let mut v = vec![];
    let cons: Vec<(&'static str, Vec<COp>)> = vec![
        ("pull1", vec![PullBlock(S0, 1)]),
        ("pull10", vec![PullBlock(S0, 10)]),
        ("stream", vec![Stream(S0, 10)]),
        ("pull1+pull1", vec![PullBlock(S0, 1), PullBlock(S0, 1)]),
        ("pull1+stream", vec![PullBlock(S0, 1), Stream(S0, 10)]),
        ("stream+stream", vec![Stream(S0, 10), Stream(S0, 1)]),
        ("pull1+pull10+stream", vec![PullBlock(S0, 1), PullBlock(S0, 10), Stream(S0, 10)]),
    ];
    let events = [Event::Publish1, Event::Publish2, Event::TwoPublishes, Event::Nack, Event::Expiry, Event::PublishThenNack];
    for (cn, c) in &cons {
        for e in events {
            if c.len() == 3 && !thorough && !matches!(e, Event::Publish2 | Event::PublishThenNack) {
                continue;
            }
            let dd = if c.len() >= 3 { d - 1 } else { d };
            v.push(explore_unit(
                format!("sched/{}/{:?}", cn, e),
                format!("consumers {:?} start together with the availability event {:?}; no message may sit in the backlog at quiescence while a consumer waits", c, e),
                Bounds::new(dd),
                ExecCfg::default(),
                scenario("wake", c.clone(), e, false),
            ));
        }
    }
    // a subscription that has a push configuration but is pulled
    for (cn, c) in [("pull1", vec![PullBlock(S0, 1)]), ("stream", vec![Stream(S0, 10)]), ("pull1+stream", vec![PullBlock(S0, 1), Stream(S0, 10)])] {
        for e in [Event::Publish1, Event::Nack, Event::Expiry] {
            v.push(explore_unit(
                format!("sched-push-config/{}/{:?}", cn, e),
                format!("the subscription was created with a push endpoint; consumers {:?} pull it; event {:?}", c, e),
                Bounds::new(d.min(3)),
                ExecCfg::default(),
                scenario_x("push-config", c.clone(), e, false, true),
            ));
        }
    }
    // cancellation of the first consumer at every step boundary, also with a full mailbox (capacity 1)
    for (cn, c) in [("pull1+pull1", vec![PullBlock(S0, 1), PullBlock(S0, 1)]), ("pull1+stream", vec![PullBlock(S0, 1), Stream(S0, 10)]), ("stream+pull10", vec![Stream(S0, 10), PullBlock(S0, 10)])] {
        for e in [Event::Publish1, Event::Publish2, Event::Nack] {
            for cap in [0usize, 1] {
                v.push(explore_unit(
                    format!("sched-cancel/cap{}/{}/{:?}", cap, cn, e),
                    format!("consumers {:?}, event {:?}, the first consumer is cancelled after k polls for every k (mailbox capacity {})", c, e, if cap == 0 { 16 } else { cap }),
                    Bounds::new(if thorough { 3 } else { 1 }),
                    ExecCfg { caps: (cap, cap), ..Default::default() },
                    scenario("cancel", c.clone(), e, true),
                ));
            }
        }
    }
    // ... and with a client that keeps the (capacity-1) mailbox busy with requests that wake nobody: a consumer that
    // has consumed the wake-up and disappears while its pull waits for room must not leave the others asleep
    for (cn, c) in [("pull1+pull1", vec![PullBlock(S0, 1), PullBlock(S0, 1)]), ("stream+pull10", vec![Stream(S0, 10), PullBlock(S0, 10)])] {
        for e in [Event::Publish1, Event::Nack] {
            v.push(explore_unit(
                format!("sched-cancel-busy/cap1/{}/{:?}", cn, e),
                format!("consumers {:?}, event {:?}, a third client sends three GetSubscription requests; the first consumer is cancelled after k polls for every k (mailbox capacity 1)", c, e),
                Bounds::new(if thorough { 3 } else { 2 }),
                ExecCfg { caps: (1, 1), ..Default::default() },
                scenario_busy("cancel-busy", c.clone(), e),
            ));
        }
    }
    v
}
