//! C17 Malformed requests are rejected cleanly and change nothing.
use crate::explore::*;
use crate::props::c18::recognise;
use crate::report::Unit;
use crate::scen::*;
use crate::world::*;
use crate::{must, scen, tryv};
use deltio::pubsub_proto::StreamingPullRequest;

const PUSH_SUB: &str = "projects/p/subscriptions/pushed";

#[derive(Clone, Debug)]
enum Case {
    /// (rpc, field) takes the odd name
    Name(&'static str, String),
    /// bad ack id at position `pos` of a 3-element batch in (ack | modify | stream-ack | stream-modify)
    AckId(&'static str, String, usize),
    Int(&'static str, i64),
    PushEndpoint(String),
    Token(&'static str, String),
    StreamCtl(&'static str),
}

fn odd_names() -> Vec<String> {
    let mut v: Vec<String> = [
        "", "/", "//", "projects", "projects/", "projects/p", "projects/p/", "projects/p/topics", "projects/p/topics/", "projects/p/subscriptions/",
        "projects//topics/x", "projects//subscriptions/x", "projects/p/subscriptions/x", "projects/p/topics/x", "brojects/p/topics/t0", "Projects/p/topics/t0",
        "projects/p/topicz/t0", "projects/p/subscriptionz/s0", " projects/p/topics/t0", "projects/p/topics/t0 ", "projects/p/topics/t0/", "projects/p/subscriptions/s0/",
        "projects/é/topics/é", "projectsé/p/topics/t", "projects/p/topicsé/t", "ééééééééé/p/topics/t", "projects/pé/subscriptions/sé", "é", "ééééééééééééééééééééé",
        "projects/p/topics/\u{0}", "projects/p/subscriptions/a\nb", "projects/p/topics/t0?x=1", "projects/p/topics/../t0", "projects/p/snapshots/x", "%70rojects/p/topics/t0",
        "projects/q/topics/t0", "projects/q/subscriptions/s0", "projects/p/topics/nope", "projects/p/subscriptions/nope",
    ]
    .iter()
    .map(|s| s.to_string())
    .collect();
    v.push("x".repeat(10_000));
    v.push(format!("projects/p/topics/{}", "y".repeat(10_000)));
    v.push(format!("projects/p/subscriptions/{}", "é".repeat(5_000)));
    v.push(format!("projects/{}/topics/t", "p/".repeat(3_000)));
    // a multi-byte character at every byte offset around the fixed segments
    for off in 0..26 {
        let base = "projects/p/subscriptions/s0";
        let mut s: String = base.chars().take(off).collect();
        s.push('é');
        s.extend(base.chars().skip(off));
        v.push(s.clone());
        v.push(s.replace("subscriptions", "topics"));
    }
    // long malformed values made of multi-byte characters, at every alignment of the characters against byte offsets
    // (error messages that quote the value must not cut it in the middle of a character)
    for lead in ["", "x", "xy", "topics/", "projects/p/topics/"] {
        for (ch, n) in [("日", 100), ("日", 200), ("é", 200), ("😀", 80), ("日", 1500)] {
            v.push(format!("{}{}", lead, ch.repeat(n)));
        }
    }
    v.sort();
    v.dedup();
    v
}

const NAME_FIELDS: [&str; 15] = [
    "create-topic.name", "get-topic.topic", "delete-topic.topic", "publish.topic", "list-topics.project", "list-topic-subs.topic", "create-sub.name", "create-sub.topic",
    "get-sub.subscription", "delete-sub.subscription", "list-subs.project", "pull.subscription", "ack.subscription", "modify.subscription", "streaming-pull.subscription",
];

fn cases() -> Vec<Case> {
    let mut v = vec![];
    for f in NAME_FIELDS {
        for n in odd_names() {
            v.push(Case::Name(f, n));
        }
    }
    // creating what already exists is rejected, and rejected requests change nothing (not even hidden registrations)
    for n in [T0, T1] {
        v.push(Case::Name("create-topic.name", n.to_string()));
    }
    for n in [S0, S1, PUSH_SUB] {
        v.push(Case::Name("create-sub.name", n.to_string()));
        // ... also when the rejected request names another topic than the existing subscription's
        v.push(Case::Name("create-sub.name@t1", n.to_string()));
    }
    for rpc in ["ack", "modify", "stream-ack", "stream-modify"] {
        let long_ids: Vec<String> = ["", "1", "12"].iter().map(|lead| format!("{}{}", lead, "日".repeat(120))).collect();
        let mut ids: Vec<String> = ["", "x", "-1", "1.5", "18446744073709551616", " 1", "1 ", "+1", "0x1", "١", "1\u{0}", "99999999999999999999999999999"].iter().map(|s| s.to_string()).collect();
        ids.extend(long_ids);
        for id in ids {
            for pos in 0..3 {
                v.push(Case::AckId(rpc, id.clone(), pos));
            }
        }
    }
    let ints: [i64; 16] = [i32::MIN as i64, -65537, -65536, -1, 0, 1, 9, 10, 11, 599, 600, 601, 65535, 65536, 65537, i32::MAX as i64];
    for f in ["create-sub.ack_deadline_seconds", "pull.max_messages", "pull-blocking.max_messages", "modify.ack_deadline_seconds", "stream-modify.seconds", "list-topics.page_size", "list-subs.page_size", "list-topic-subs.page_size", "streaming-pull.max_outstanding_messages", "streaming-pull.max_outstanding_bytes", "streaming-pull.stream_ack_deadline_seconds"] {
        for i in ints {
            v.push(Case::Int(f, i));
        }
    }
    for f in ["streaming-pull.max_outstanding_messages", "streaming-pull.max_outstanding_bytes"] {
        for i in [i64::MIN, i64::MAX, u32::MAX as i64 + 1] {
            v.push(Case::Int(f, i));
        }
    }
    for e in ["", " ", "ftp://example.com/x", "mailto:x@example.com", "example.com/push", "HTTP://EXAMPLE.COM", "   http://example.com/push  ", "http", "https://example.com/é", "http://[::1", "httpx", "http//x", "http://", "http://host:99999/x", "http:///path", "https:/one-slash"] {
        v.push(Case::PushEndpoint(e.to_string()));
    }
    for rpc in ["list-topics", "list-subs", "list-topic-subs"] {
        for t in ["!", "AAA", "A", "====", "AAAAAAAAAAA", "AAAAAAAAAAAAAAAA", "é", "-_-_", "AQAAAAAAAAA", "//////////8=", "AQAAAAAAAAA= "] {
            v.push(Case::Token(rpc, t.to_string()));
        }
    }
    for c in ["subscription-repeated", "max-bytes-repeated", "max-messages-repeated", "max-bytes-repeated-1", "max-messages-repeated-1", "max-bytes-repeated-max", "max-messages-repeated-max", "length-mismatch-more-ids", "length-mismatch-more-seconds", "length-mismatch-seconds-only", "length-mismatch-ids-only", "valid-ack-plus-malformed-modify-id", "valid-ack-plus-negative-seconds", "empty"] {
        v.push(Case::StreamCtl(c));
    }
    v
}

#[derive(Debug, PartialEq, Clone)]
struct Snapshot {
    topics_p: Result<(Vec<String>, String), Code>,
    topics_q: Result<(Vec<String>, String), Code>,
    subs_p: Result<(Vec<SubView>, String), Code>,
    subs_q: Result<(Vec<SubView>, String), Code>,
    ts0: Result<(Vec<String>, String), Code>,
    ts1: Result<(Vec<String>, String), Code>,
    stats: Vec<Option<Stats>>,
    /// names registered for HTTP push (internal registry)
    push_registry: Vec<String>,
}

async fn snapshot(cx: &Ctx) -> Result<Snapshot, Verdict> {
    let a = cx.api.clone();
    let (topics_p, topics_q, subs_p, subs_q, ts0, ts1) = cx
        .settle("probe:snapshot", async move {
            (
                a.list_topics("projects/p", 1000, "").await,
                a.list_topics("projects/q", 1000, "").await,
                a.list_subs("projects/p", 1000, "").await,
                a.list_subs("projects/q", 1000, "").await,
                a.list_topic_subs(T0, 1000, "").await,
                a.list_topic_subs(T1, 1000, "").await,
            )
        })
        .await?;
    let mut stats = vec![];
    for s in [S0, S1] {
        stats.push(cx.stats(s).await?);
    }
    let mut push_registry: Vec<String> = cx.parts.push.entries().into_iter().map(|(n, c)| format!("{} -> {}", n, c.endpoint)).collect();
    push_registry.sort();
    Ok(Snapshot { topics_p, topics_q, subs_p, subs_q, ts0, ts1, stats, push_registry })
}

/// Reads a stream to its end; returns the terminal status ("OK" for a clean end) and the number of messages seen.
async fn drain_stream(r: Result<tonic::Streaming<deltio::pubsub_proto::StreamingPullResponse>, Code>) -> (String, usize) {
    match r {
        Err(c) => (format!("{:?}", c), 0),
        Ok(mut st) => {
            let mut n = 0;
            loop {
                match st.message().await {
                    Ok(Some(m)) => n += m.received_messages.len(),
                    Ok(None) => return ("OK".into(), n),
                    Err(e) => return (format!("{:?}", e.code()), n),
                }
            }
        }
    }
}

fn unit() -> Unit {
    let all = cases();
    let n = all.len();
    let f: ScenFn = scen!([all] |cx| {
        let case = all[cx.choose("case", n)].clone();
        let a = cx.api.clone();
        // world: T0 with S0 (one outstanding delivery, one message in the backlog), untouched T1/S1
        must!(cx, "setup:create-topic", { let a = a.clone(); async move { a.create_topic(T0).await } });
        must!(cx, "setup:create-topic", { let a = a.clone(); async move { a.create_topic(T1).await } });
        must!(cx, "setup:create-sub", { let a = a.clone(); async move { a.create_sub(S0, T0, 10, None).await } });
        must!(cx, "setup:create-sub", { let a = a.clone(); async move { a.create_sub(S1, T1, 10, None).await } });
        must!(cx, "setup:create-push-sub", { let a = a.clone(); async move { a.create_sub(PUSH_SUB, T1, 10, Some("http://push.example/hook")).await } });
        must!(cx, "setup:publish", { let a = a.clone(); async move { a.publish(T0, vec![(b"one".to_vec(), vec![]), (b"two".to_vec(), vec![])]).await } });
        let held = must!(cx, "setup:pull", { let a = a.clone(); async move { a.pull(S0, 1, true).await } });
        let good_id = held[0].ack_id.clone();
        let before = tryv!(snapshot(&cx).await);

        // run the request; `status` is "OK" or the gRPC code; `malformed` = the input is on the definitely-malformed list
        let label = format!("{:?}", case);
        let label = if label.len() > 140 { format!("{}...({} chars)", label.chars().take(140).collect::<String>(), label.len()) } else { label };
        let (status, malformed, may_change): (String, bool, bool) = match case.clone() {
            Case::Name(field, name) => {
                let n2 = name.clone();
                let is_topic_field = matches!(field, "create-topic.name" | "get-topic.topic" | "delete-topic.topic" | "publish.topic" | "list-topic-subs.topic" | "create-sub.topic");
                let is_project_field = matches!(field, "list-topics.project" | "list-subs.project");
                let malformed = if is_project_field { !name.starts_with("projects/") } else if is_topic_field { recognise(&name, "/topics/").is_none() } else { recognise(&name, "/subscriptions/").is_none() };
                let st = tryv!(cx.settle("client:request", async move {
                    match field {
                        "create-topic.name" => res(&a.create_topic(&n2).await),
                        "get-topic.topic" => res(&a.get_topic(&n2).await),
                        "delete-topic.topic" => res(&a.delete_topic(&n2).await),
                        "publish.topic" => res(&a.publish(&n2, vec![(b"z".to_vec(), vec![])]).await),
                        "list-topics.project" => res(&a.list_topics(&n2, 10, "").await),
                        "list-topic-subs.topic" => res(&a.list_topic_subs(&n2, 10, "").await),
                        "create-sub.name" => res(&a.create_sub(&n2, T0, 10, None).await),
                        "create-sub.name@t1" => res(&a.create_sub(&n2, T1, 10, None).await),
                        "create-sub.topic" => res(&a.create_sub("projects/p/subscriptions/fresh", &n2, 10, None).await),
                        "get-sub.subscription" => res(&a.get_sub(&n2).await),
                        "delete-sub.subscription" => res(&a.delete_sub(&n2).await),
                        "list-subs.project" => res(&a.list_subs(&n2, 10, "").await),
                        "pull.subscription" => res(&a.pull(&n2, 10, true).await),
                        "ack.subscription" => res(&a.ack(&n2, vec!["1".into()]).await),
                        "modify.subscription" => res(&a.modify(&n2, vec!["1".into()], 10).await),
                        "streaming-pull.subscription" => {
                            let (tx, r) = a.streaming_pull(first_stream_req(&n2, 10)).await;
                            // a well-formed existing name opens a stream that stays open: close our side and stop reading
                            match r {
                                Err(c) => format!("{:?}", c),
                                Ok(_st) => {
                                    drop(tx);
                                    "OK".into()
                                }
                            }
                        }
                        _ => unreachable!(),
                    }
                })
                .await);
                // well-formed names may legitimately create / delete / consume
                (st, malformed, !malformed)
            }
            Case::AckId(rpc, bad, pos) => {
                let mut ids = vec![good_id.clone(), "9999".to_string()];
                ids.insert(pos.min(2), bad.clone());
                let malformed = bad != "+1";
                let st = tryv!(cx.settle_opt("client:request", async move {
                    match rpc {
                        "ack" => res(&a.ack(S0, ids).await),
                        "modify" => res(&a.modify(S0, ids, 30).await),
                        _ => {
                            let (tx, r) = a.streaming_pull(first_stream_req(S0, 1000)).await;
                            let req = if rpc == "stream-ack" { StreamingPullRequest { ack_ids: ids, ..Default::default() } } else { StreamingPullRequest { modify_deadline_seconds: vec![30; ids.len()], modify_deadline_ack_ids: ids, ..Default::default() } };
                            let _ = tx.send(req).await;
                            drop(tx);
                            drain_stream(r).await.0
                        }
                    }
                })
                .await).unwrap_or_else(|| "OPEN".to_string());
                // the stream itself legitimately takes the backlog message; everything else must stay
                (st, malformed, !malformed || rpc.starts_with("stream"))
            }
            Case::Int(field, val) => {
                let v32 = val.clamp(i32::MIN as i64, i32::MAX as i64) as i32;
                let gid = good_id.clone();
                let malformed = matches!(field, "modify.ack_deadline_seconds" | "stream-modify.seconds" | "list-topics.page_size" | "list-subs.page_size" | "list-topic-subs.page_size") && val < 0;
                let st = tryv!(cx.settle_opt("client:request", async move {
                    match field {
                        "create-sub.ack_deadline_seconds" => res(&a.create_sub("projects/p/subscriptions/fresh", T0, v32, None).await),
                        "pull.max_messages" => res(&a.pull(S0, v32, true).await),
                        "pull-blocking.max_messages" => res(&a.pull(S0, v32, false).await),
                        "modify.ack_deadline_seconds" => res(&a.modify(S0, vec![gid], v32).await),
                        "list-topics.page_size" => res(&a.list_topics("projects/p", v32, "").await),
                        "list-subs.page_size" => res(&a.list_subs("projects/p", v32, "").await),
                        "list-topic-subs.page_size" => res(&a.list_topic_subs(T0, v32, "").await),
                        _ => {
                            let mut first = first_stream_req(S0, 10);
                            match field {
                                "streaming-pull.max_outstanding_messages" => first.max_outstanding_messages = val,
                                "streaming-pull.max_outstanding_bytes" => first.max_outstanding_bytes = val,
                                "streaming-pull.stream_ack_deadline_seconds" => first.stream_ack_deadline_seconds = v32,
                                _ => {}
                            }
                            let (tx, r) = a.streaming_pull(first).await;
                            if field == "stream-modify.seconds" {
                                let _ = tx.send(StreamingPullRequest { modify_deadline_ack_ids: vec![gid], modify_deadline_seconds: vec![v32], ..Default::default() }).await;
                                drop(tx);
                                drain_stream(r).await.0
                            } else {
                                drop(tx);
                                match r {
                                    Err(c) => format!("{:?}", c),
                                    Ok(_) => "OK".into(),
                                }
                            }
                        }
                    }
                })
                .await).unwrap_or_else(|| "OPEN".to_string());
                (st, malformed, !malformed)
            }
            Case::PushEndpoint(e) => {
                let malformed = !e.trim().starts_with("http");
                let e2 = e.clone();
                let st = tryv!(cx.settle("client:request", async move { res(&a.create_sub("projects/p/subscriptions/fresh", T0, 10, Some(&e2)).await) }).await);
                (st, malformed, !malformed)
            }
            Case::Token(rpc, t) => {
                let core = t.trim_end_matches('=');
                let malformed = core.chars().any(|c| !(c.is_ascii_alphanumeric() || c == '+' || c == '/')) || core.len() % 4 == 1;
                let st = tryv!(cx.settle("client:request", async move {
                    match rpc {
                        "list-topics" => res(&a.list_topics("projects/p", 10, &t).await),
                        "list-subs" => res(&a.list_subs("projects/p", 10, &t).await),
                        _ => res(&a.list_topic_subs(T0, 10, &t).await),
                    }
                })
                .await);
                (st, malformed, false)
            }
            Case::StreamCtl(kind) => {
                let gid = good_id.clone();
                let malformed = kind != "empty";
                let st = tryv!(cx.settle_opt("client:request", async move {
                    // open on S1 (empty) so that the stream itself consumes nothing; the ids refer to S0's world only by value
                    let (tx, r) = a.streaming_pull(first_stream_req(S1, 10)).await;
                    let req = match kind {
                        "subscription-repeated" => StreamingPullRequest { subscription: S1.into(), ..Default::default() },
                        "max-bytes-repeated" => StreamingPullRequest { max_outstanding_bytes: 10, ..Default::default() },
                        "max-messages-repeated" => StreamingPullRequest { max_outstanding_messages: 10, ..Default::default() },
                        "max-bytes-repeated-1" => StreamingPullRequest { max_outstanding_bytes: 1, ..Default::default() },
                        "max-messages-repeated-1" => StreamingPullRequest { max_outstanding_messages: 1, ..Default::default() },
                        "max-bytes-repeated-max" => StreamingPullRequest { max_outstanding_bytes: i64::MAX, ..Default::default() },
                        "max-messages-repeated-max" => StreamingPullRequest { max_outstanding_messages: i64::MAX, ..Default::default() },
                        "length-mismatch-more-ids" => StreamingPullRequest { modify_deadline_ack_ids: vec![gid.clone(), "2".into()], modify_deadline_seconds: vec![10], ..Default::default() },
                        "length-mismatch-seconds-only" => StreamingPullRequest { modify_deadline_seconds: vec![10], ..Default::default() },
                        "length-mismatch-ids-only" => StreamingPullRequest { modify_deadline_ack_ids: vec![gid.clone()], ..Default::default() },
                        "length-mismatch-more-seconds" => StreamingPullRequest { modify_deadline_ack_ids: vec![gid.clone()], modify_deadline_seconds: vec![10, 10], ..Default::default() },
                        _ => StreamingPullRequest::default(),
                    };
                    let _ = tx.send(req).await;
                    drop(tx);
                    drain_stream(r).await.0
                })
                .await).unwrap_or_else(|| "OPEN".to_string());
                if kind.starts_with("valid-ack-plus") {
                    // a control message on S0's stream that carries a valid ack and an invalid modification:
                    // it is rejected, so none of it may be applied
                    let (a, gid) = (cx.api.clone(), good_id.clone());
                    let st = tryv!(cx.settle_opt("client:request", async move {
                        // max_outstanding 1000: the stream takes the backlog message, which is allowed; the ack must not happen
                        let (tx, r) = a.streaming_pull(first_stream_req(S0, 1000)).await;
                        let req = if kind == "valid-ack-plus-malformed-modify-id" {
                            StreamingPullRequest { ack_ids: vec![gid.clone()], modify_deadline_ack_ids: vec!["x".into()], modify_deadline_seconds: vec![10], ..Default::default() }
                        } else {
                            StreamingPullRequest { ack_ids: vec![gid.clone()], modify_deadline_ack_ids: vec!["9999".into()], modify_deadline_seconds: vec![-5], ..Default::default() }
                        };
                        let _ = tx.send(req).await;
                        drop(tx);
                        drain_stream(r).await.0
                    })
                    .await).unwrap_or_else(|| "OPEN".to_string());
                    (st, true, true)
                } else {
                    (st, malformed, false)
                }
            }
        };
        // the push loop is running: let two rounds pass (whatever was registered must not bring it down)
        {
            let was = cx.freeze(true);
            let q = cx.advance_ms(2_100).await;
            cx.freeze(was);
            tryv!(q);
        }
        if malformed && status != "InvalidArgument" {
            return ScenarioOut::viol("malformed-not-INVALID_ARGUMENT", format!("{} is malformed but was answered with {}", label, status));
        }
        let after = tryv!(snapshot(&cx).await);
        if status != "OK" && status != "OPEN" && !(may_change && matches!(case, Case::AckId(..) | Case::StreamCtl(..))) && after != before {
            return ScenarioOut::viol("rejected-request-changed-state", format!("{} was answered with {} but the world changed:\n before {:?}\n after  {:?}", label, status, before, after));
        }
        if let Case::AckId(rpc, _, _) | Case::StreamCtl(rpc) = &case {
            // rejected stream requests: the stream may have pulled the backlog message, but the held delivery must still be outstanding
            if status != "OK" && status != "OPEN" && (rpc.starts_with("stream") || rpc.starts_with("valid-ack")) {
                let s0 = after.stats[0].clone().unwrap();
                let b0 = before.stats[0].clone().unwrap();
                if s0.backlog + s0.outstanding != b0.backlog + b0.outstanding {
                    return ScenarioOut::viol("rejected-request-changed-state", format!("{} was answered with {} but a delivery of S0 was acknowledged: before {:?}, after {:?}", label, status, b0, s0));
                }
            }
        }
        // the server keeps serving everything else
        let a = cx.api.clone();
        let ok = tryv!(cx.settle("probe:round-trip", async move {
            let t = "projects/p/topics/round-trip";
            let s = "projects/p/subscriptions/round-trip";
            a.create_topic(t).await.map_err(|c| format!("create-topic {:?}", c))?;
            a.create_sub(s, t, 10, None).await.map_err(|c| format!("create-sub {:?}", c))?;
            a.publish(t, vec![(b"rt".to_vec(), vec![])]).await.map_err(|c| format!("publish {:?}", c))?;
            let got = a.pull(s, 10, true).await.map_err(|c| format!("pull {:?}", c))?;
            if got.len() != 1 || got[0].data != b"rt" {
                return Err(format!("pull returned {} messages", got.len()));
            }
            a.ack(s, vec![got[0].ack_id.clone()]).await.map_err(|c| format!("ack {:?}", c))?;
            a.publish(T1, vec![(b"u".to_vec(), vec![])]).await.map_err(|c| format!("publish untouched {:?}", c))?;
            let got = a.pull(S1, 10, true).await.map_err(|c| format!("pull untouched {:?}", c))?;
            if got.len() != 1 {
                return Err(format!("untouched subscription delivered {} messages", got.len()));
            }
            // whatever an ACCEPTED odd request created must itself be usable: a subscription created with an odd (but
            // accepted) ack deadline serves a publish / pull / ack / delete cycle, and so does its topic
            let fresh = "projects/p/subscriptions/fresh";
            if a.get_sub(fresh).await.is_ok() {
                a.publish(T0, vec![(b"f".to_vec(), vec![])]).await.map_err(|c| format!("publish to the topic of the subscription the request created: {:?}", c))?;
                let got = a.pull(fresh, 10, true).await.map_err(|c| format!("pull on the subscription the request created: {:?}", c))?;
                if got.is_empty() {
                    return Err("the subscription the request created did not get a message published to its topic".to_string());
                }
                a.ack(fresh, got.iter().map(|m| m.ack_id.clone()).collect()).await.map_err(|c| format!("ack on the subscription the request created: {:?}", c))?;
                a.delete_sub(fresh).await.map_err(|c| format!("delete of the subscription the request created: {:?}", c))?;
                a.publish(T0, vec![(b"g".to_vec(), vec![])]).await.map_err(|c| format!("publish after deleting it: {:?}", c))?;
            }
            Ok::<(), String>(())
        })
        .await);
        if let Err(e) = ok {
            return ScenarioOut::viol("server-impaired-afterwards", format!("after {}: {}", label, e));
        }
        let kind = match &case {
            Case::Name(f, _) => format!("name:{}", f),
            Case::AckId(r, _, _) => format!("ack-id:{}", r),
            Case::Int(f, _) => format!("int:{}", f),
            Case::PushEndpoint(_) => "push-endpoint".into(),
            Case::Token(r, _) => format!("token:{}", r),
            Case::StreamCtl(k) => format!("stream-ctl:{}", k),
        };
        ScenarioOut { sample: Some(label), ..ScenarioOut::ok(format!("{} -> {}", kind, status)) }
    });
    explore_unit(
        "input/malformed",
        format!("{} malformed / boundary requests (odd names in every name field of every RPC, bad ack ids at every position of a batch, boundary integers, push endpoints, page tokens, inconsistent StreamingPull control messages): status, no panic, no hang, unchanged world on rejection, server still serving", n),
        Bounds::new(0),
        ExecCfg { points_on: false, max_steps: 200_000, push_interval_ms: Some(1000), ..Default::default() },
        f,
    )
}

/// 1500 ids in one request, the malformed one at various positions: rejected as a whole.
fn large_batch_unit() -> Unit {
    let f: ScenFn = scen!(|cx| {
        const N: usize = 1500;
        let a = cx.api.clone();
        must!(cx, "setup:create-topic", { let a = a.clone(); async move { a.create_topic(T0).await } });
        must!(cx, "setup:create-sub", { let a = a.clone(); async move { a.create_sub(S0, T0, 10, None).await } });
        must!(cx, "setup:publish", { let a = a.clone(); async move { a.publish(T0, (0..N).map(|i| (format!("{}", i).into_bytes(), vec![])).collect()).await } });
        let held = must!(cx, "setup:pull", { let a = a.clone(); async move { a.pull(S0, 2000, true).await } });
        if held.len() != N {
            return ScenarioOut::viol("setup/pull", format!("pulled {} of {}", held.len(), N));
        }
        let rpc = ["ack", "modify", "stream-ack", "stream-modify"][cx.choose("rpc", 4)];
        let pos = [0usize, 999, 1000, 1001, 1200, 1499][cx.choose("bad-position", 6)];
        let bad = ["x", "", "-1"][cx.choose("bad-id", 3)];
        let mut ids: Vec<String> = held.iter().map(|m| m.ack_id.clone()).collect();
        ids[pos] = bad.to_string();
        let st = tryv!(cx.settle_opt("client:request", { let a = a.clone(); async move {
            match rpc {
                "ack" => res(&a.ack(S0, ids).await),
                "modify" => res(&a.modify(S0, ids, 30).await),
                _ => {
                    let (tx, r) = a.streaming_pull(first_stream_req(S0, 10)).await;
                    let req = if rpc == "stream-ack" { StreamingPullRequest { ack_ids: ids, ..Default::default() } } else { StreamingPullRequest { modify_deadline_seconds: vec![30; ids.len()], modify_deadline_ack_ids: ids, ..Default::default() } };
                    let _ = tx.send(req).await;
                    drop(tx);
                    drain_stream(r).await.0
                }
            }
        } }).await).unwrap_or_else(|| "OPEN".to_string());
        let case = format!("{} with {} ids, {:?} at position {}", rpc, N, bad, pos);
        if st != "InvalidArgument" {
            return ScenarioOut::viol("malformed-not-INVALID_ARGUMENT", format!("{} was answered with {}", case, st));
        }
        let stats = tryv!(cx.stats(S0).await).unwrap();
        if stats.outstanding != N || stats.backlog != 0 {
            return ScenarioOut::viol("rejected-request-changed-state", format!("{} was rejected but the subscription now has backlog={} outstanding={} (was 0 / {})", case, stats.backlog, stats.outstanding, N));
        }
        // none of the deadlines moved: everything is back after the original deadline
        tryv!(cx.advance_to_ms(10_000 + SLACK_MS).await);
        let stats = tryv!(cx.stats(S0).await).unwrap();
        if stats.backlog != N {
            return ScenarioOut::viol("rejected-request-changed-state", format!("{} was rejected but only {} of {} deliveries expired at their original deadline", case, stats.backlog, N));
        }
        ScenarioOut { sample: Some(case), ..ScenarioOut::ok(format!("{}@{}", rpc, pos)) }
    });
    explore_unit("input/large-batches", "Acknowledge / ModifyAckDeadline / StreamingPull control messages carrying 1500 ids with one malformed id at position 0, 999, 1000, 1001, 1200 or 1499: INVALID_ARGUMENT and not a single delivery acknowledged or moved", Bounds::new(0), ExecCfg { points_on: false, max_steps: 200_000, ..Default::default() }, f)
}

pub fn units(_thorough: bool) -> Vec<Unit> {
    vec![unit(), large_batch_unit()]
}
