//! C16 Abandoned requests have all-or-nothing effect.
use crate::explore::*;
use crate::report::Unit;
use crate::scen::*;
use crate::world::*;
use crate::{must, scen, tryv};
use std::collections::BTreeSet;

#[derive(Clone, Copy, Debug, PartialEq)]
enum Victim {
    CreateSub,
    DeleteSub,
    DeleteTopic,
    Publish,
    Pull,
    PullBlocking,
    StreamingPull,
    Ack,
    Nack,
    Modify,
    ListSubs,
    ListTopicSubs,
    GetSub,
    CreateTopic,
    CreatePushSub,
}

const VICTIMS: [Victim; 15] = [
    Victim::CreateSub, Victim::DeleteSub, Victim::DeleteTopic, Victim::Publish, Victim::Pull, Victim::PullBlocking, Victim::StreamingPull,
    Victim::Ack, Victim::Nack, Victim::Modify, Victim::ListSubs, Victim::ListTopicSubs, Victim::GetSub, Victim::CreateTopic, Victim::CreatePushSub,
];

const MAX_K: usize = 7;

/// Pulls everything that is or becomes available on `sub` (now, and after every lease has expired), acking as it goes.
async fn drain_sub(cx: &Ctx, sub: &'static str) -> Result<Result<Vec<Vec<u8>>, Code>, Verdict> {
    let mut seen = vec![];
    for round in 0..3 {
        loop {
            let a = cx.api.clone();
            let r = cx.settle("probe:drain-pull", async move { a.pull(sub, 1000, true).await }).await?;
            match r {
                Err(c) => return Ok(Err(c)),
                Ok(v) if v.is_empty() => break,
                Ok(v) => {
                    for m in &v {
                        seen.push(m.data.clone());
                    }
                    let ids: Vec<String> = v.iter().map(|m| m.ack_id.clone()).collect();
                    let a = cx.api.clone();
                    let _ = cx.settle("probe:drain-ack", async move { a.ack(sub, ids).await }).await?;
                }
            }
        }
        if round < 2 {
            // leases handed to consumers that no longer exist end after the deadline (10 s; modified ones up to 30 s)
            let was = cx.freeze(true);
            let q = cx.advance_ms(31_000).await;
            cx.freeze(was);
            q?;
        }
    }
    Ok(Ok(seen))
}

fn scenario(saturated: bool) -> ScenFn {
    scen!(|cx| {
        let victim = VICTIMS[cx.choose("victim", VICTIMS.len())];
        let k = cx.choose("abort-after-polls", MAX_K + 1);
        let a = cx.api.clone();
        // world: T0 with S0 and (unless the victim creates it) S1; message m1 published; S0's copy held by the victim-to-be
        must!(cx, "setup:create-topic", { let a = a.clone(); async move { a.create_topic(T0).await } });
        must!(cx, "setup:create-sub", { let a = a.clone(); async move { a.create_sub(S0, T0, 10, None).await } });
        if victim != Victim::CreateSub && victim != Victim::CreatePushSub {
            must!(cx, "setup:create-sub", { let a = a.clone(); async move { a.create_sub(S1, T0, 10, None).await } });
        }
        must!(cx, "setup:publish", { let a = a.clone(); async move { a.publish(T0, vec![(b"m1".to_vec(), vec![])]).await } });
        let mut held_id = String::new();
        if matches!(victim, Victim::Ack | Victim::Nack | Victim::Modify) {
            let got = must!(cx, "setup:pull", { let a = a.clone(); async move { a.pull(S0, 1, true).await } });
            held_id = got[0].ack_id.clone();
        }
        // competing traffic that keeps the (capacity 1) mailboxes full while the victim runs
        let mut competitors = vec![];
        if saturated {
            for i in 0..2 {
                let a2 = a.clone();
                competitors.push(cx.spawn(&format!("client:0-competitor-publish{}", i), async move { a2.publish(T0, vec![(format!("c{}", i).into_bytes(), vec![])]).await.is_ok() }));
            }
            for i in 0..2 {
                let a2 = a.clone();
                competitors.push(cx.spawn(&format!("client:0-competitor-get{}", i), async move { a2.get_sub(S0).await.is_ok() }));
            }
        }
        let done = std::sync::Arc::new(std::sync::Mutex::new(None::<String>));
        let d2 = done.clone();
        let a2 = a.clone();
        let hid = held_id.clone();
        let h = cx.spawn("client:1-victim", async move {
            let r = match victim {
                Victim::CreateSub => res(&a2.create_sub(S1, T0, 10, None).await),
                Victim::CreatePushSub => res(&a2.create_sub(S1, T0, 10, Some("http://push.example/s1")).await),
                Victim::DeleteSub => res(&a2.delete_sub(S0).await),
                Victim::DeleteTopic => res(&a2.delete_topic(T0).await),
                Victim::Publish => res(&a2.publish(T0, vec![(b"p1".to_vec(), vec![]), (b"p2".to_vec(), vec![])]).await),
                Victim::Pull => res(&a2.pull(S0, 10, true).await),
                Victim::PullBlocking => res(&a2.pull(S0, 10, false).await),
                Victim::StreamingPull => {
                    let (tx, r) = a2.streaming_pull(first_stream_req(S0, 10)).await;
                    match r {
                        Err(c) => format!("{:?}", c),
                        Ok(mut st) => {
                            let _keep = tx;
                            let mut n = 0;
                            while let Ok(Some(m)) = st.message().await {
                                n += m.received_messages.len();
                            }
                            format!("stream-ended({})", n)
                        }
                    }
                }
                Victim::Ack => res(&a2.ack(S0, vec![hid]).await),
                Victim::Nack => res(&a2.modify(S0, vec![hid], 0).await),
                Victim::Modify => res(&a2.modify(S0, vec![hid], 30).await),
                Victim::ListSubs => res(&a2.list_subs("projects/p", 10, "").await),
                Victim::ListTopicSubs => res(&a2.list_topic_subs(T0, 10, "").await),
                Victim::GetSub => res(&a2.get_sub(S0).await),
                Victim::CreateTopic => res(&a2.create_topic(T1).await),
            };
            *d2.lock().unwrap() = Some(r);
        });
        // the caller disappears after k polls of its task (k = MAX_K: it never disappears) - or, second mode, k scheduler
        // steps (of any task) after its first poll: the server may be anywhere in the middle of the request by then
        let by_steps = k > 0 && k < MAX_K && cx.choose("abort-instant-counted-in", 2) == 1;
        if k < MAX_K {
            if by_steps {
                tryv!(cx.quiesce_until_polls("client:1-victim", 1).await);
                tryv!(cx.run_steps(k as u32).await);
            } else {
                tryv!(cx.quiesce_until_polls("client:1-victim", k as u32).await);
            }
            cx.abort_now(&h).await;
        }
        tryv!(cx.quiesce().await);
        tryv!(cx.advance_ms(1000).await);
        let completed = done.lock().unwrap().clone();
        if victim == Victim::StreamingPull && !h.is_finished() {
            h.abort();
            tryv!(cx.quiesce().await);
        }
        for c in &competitors {
            if !c.is_finished() {
                return ScenarioOut::viol("wedged/competing-request-hangs", format!("victim {:?} abandoned after {} polls: a competing request never returned", victim, k));
            }
        }
        let case = format!("{:?} abandoned after {} polls ({}), saturated={}", victim, k, completed.clone().unwrap_or_else(|| "no response seen".into()), saturated);

        // ---- the world afterwards must be one that completing or never receiving the request produces
        let a3 = a.clone();
        let (subs, tsubs, topics, g0, g1, gt) = tryv!(cx.settle("probe:namespace", async move {
            (a3.list_subs("projects/p", 1000, "").await, a3.list_topic_subs(T0, 1000, "").await, a3.list_topics("projects/p", 1000, "").await, a3.get_sub(S0).await, a3.get_sub(S1).await, a3.get_topic(T0).await)
        }).await);
        let listed: Vec<String> = subs.clone().map(|x| x.0.into_iter().map(|v| v.name).collect()).unwrap_or_default();
        let topic_alive = gt.is_ok();
        if topic_alive != topics.clone().map(|x| x.0.contains(&T0.to_string())).unwrap_or(false) {
            return ScenarioOut::viol("half-done/topic-get-vs-list", format!("{}: GetTopic {:?} but ListTopics {:?}", case, gt, topics));
        }
        let attached: Vec<String> = tsubs.clone().map(|x| x.0).unwrap_or_default();
        if topic_alive && tsubs.is_err() {
            return ScenarioOut::viol("wedged/topic", format!("{}: ListTopicSubscriptions = {:?}", case, tsubs));
        }
        for (name, g) in [(S0, &g0), (S1, &g1)] {
            let exists = g.is_ok();
            if exists != listed.contains(&name.to_string()) {
                return ScenarioOut::viol("half-done/sub-get-vs-list", format!("{}: GetSubscription({}) = {:?} but ListSubscriptions = {:?}", case, name, g, listed));
            }
            if tryv!(cx.stats(name).await).is_some() != exists {
                return ScenarioOut::viol("half-done/sub-manager-vs-get", format!("{}: manager lookup of {} disagrees with GetSubscription {:?}", case, name, g));
            }
            if topic_alive {
                let on_live_topic = g.as_ref().map(|v| v.topic == T0).unwrap_or(false);
                if exists && on_live_topic && !attached.contains(&name.to_string()) {
                    return ScenarioOut::viol("half-created/subscription-exists-but-not-attached", format!("{}: {} exists (topic {}) but its topic does not list it: {:?}", case, name, T0, attached));
                }
                if !exists && attached.contains(&name.to_string()) {
                    return ScenarioOut::viol("half-deleted/topic-lists-missing-subscription", format!("{}: the topic lists {} which does not exist", case, name));
                }
            }
        }
        // every existing subscription that reports a push endpoint is registered for push, and nothing else is
        {
            let reg: BTreeSet<String> = cx.parts.push.entries().into_iter().map(|(n, _)| n.to_string()).collect();
            for (name, g) in [(S0, &g0), (S1, &g1)] {
                let wants = g.as_ref().map(|v| v.push_endpoint.is_some()).unwrap_or(false);
                if wants != reg.contains(name) {
                    return ScenarioOut::viol("half-created/push-registration", format!("{}: {} {} a push endpoint according to GetSubscription, but the push registry {} it", case, name, if wants { "has" } else { "has no" }, if reg.contains(name) { "contains" } else { "does not contain" }));
                }
            }
        }
        // message conservation: a probe message reaches every subscription on the live topic; everything published
        // earlier and not acknowledged is still deliverable (now or after the deadline); a Publish is all-or-nothing
        if topic_alive {
            let a4 = a.clone();
            let pr = tryv!(cx.settle("probe:publish", async move { a4.publish(T0, vec![(b"probe".to_vec(), vec![])]).await }).await);
            if pr.is_err() {
                return ScenarioOut::viol("wedged/topic", format!("{}: Publish after the fact = {:?}", case, pr));
            }
        }
        let mut got: Vec<(&str, BTreeSet<Vec<u8>>)> = vec![];
        for (name, g) in [(S0, &g0), (S1, &g1)] {
            if g.is_err() {
                continue;
            }
            // conservation: every unacknowledged message is exactly once either in the backlog or leased
            let held = tryv!(cx.stats(name).await).map(|st| st.backlog + st.outstanding).unwrap_or(0);
            match tryv!(drain_sub(&cx, name).await) {
                Err(c) => return ScenarioOut::viol("wedged/subscription", format!("{}: Pull on existing {} = {:?}", case, name, c)),
                Ok(list) => {
                    let set: BTreeSet<Vec<u8>> = list.iter().cloned().collect();
                    if list.len() != set.len() || held != set.len() {
                        return ScenarioOut::viol("message-accounting", format!("{}: {} had backlog+outstanding = {} at quiescence; the drain (each delivery acknowledged at once) delivered {} messages, {} distinct", case, name, held, list.len(), set.len()));
                    }
                    got.push((name, set))
                }
            }
        }
        let has = |set: &BTreeSet<Vec<u8>>, x: &str| set.contains(x.as_bytes());
        let mut publish_seen: Vec<bool> = vec![];
        for (name, set) in &got {
            let on_live = topic_alive;
            if on_live && !has(set, "probe") {
                return ScenarioOut::viol("half-created/subscription-exists-but-not-attached", format!("{}: {} exists but did not receive a message published afterwards", case, name));
            }
            // m1: published before anything else; only the victim's own Ack may remove S0's copy; a subscription created by the victim never had it
            let created_by_victim = (victim == Victim::CreateSub || victim == Victim::CreatePushSub) && *name == S1;
            let may_be_acked = victim == Victim::Ack && *name == S0;
            if !created_by_victim && !may_be_acked && !has(set, "m1") {
                return ScenarioOut::viol("lost-message", format!("{}: message m1 was never redelivered on {} (received {:?})", case, name, set.iter().map(|d| String::from_utf8_lossy(d).to_string()).collect::<Vec<_>>()));
            }
            if saturated && !created_by_victim && topic_alive && victim != Victim::DeleteTopic {
                for c in ["c0", "c1"] {
                    if !has(set, c) {
                        return ScenarioOut::viol("lost-message", format!("{}: competing publish {} (which returned OK) never arrived on {}", case, c, name));
                    }
                }
            }
            if victim == Victim::Publish {
                if has(set, "p1") != has(set, "p2") {
                    return ScenarioOut::viol("half-done/publish-partial-batch", format!("{}: {} received only part of the abandoned Publish", case, name));
                }
                publish_seen.push(has(set, "p1"));
            }
        }
        if publish_seen.windows(2).any(|w| w[0] != w[1]) {
            return ScenarioOut::viol("half-done/publish-partial-fanout", format!("{}: the abandoned Publish reached some subscriptions but not others", case));
        }
        let effect = match victim {
            Victim::CreateSub | Victim::CreatePushSub => if g1.is_ok() { "created" } else { "not-created" },
            Victim::DeleteSub => if g0.is_ok() { "kept" } else { "deleted" },
            Victim::DeleteTopic => if topic_alive { "kept" } else { "deleted" },
            Victim::Publish => if publish_seen.first() == Some(&true) { "published" } else { "not-published" },
            _ => "-",
        };
        ScenarioOut { sample: Some(case), ..ScenarioOut::ok(format!("{:?}:{}:{}", victim, if completed.is_some() { "responded" } else { "abandoned" }, effect)) }
    })
}

/// An abandoned consumer next to a waiting one: whatever the abandoned consumer was about to take (or took) must
/// reach the consumer that is still waiting - at once, or after the abandoned lease has expired.
fn bystander_scenario() -> ScenFn {
    scen!(|cx| {
        let a = cx.api.clone();
        must!(cx, "setup:create-topic", { let a = a.clone(); async move { a.create_topic(T0).await } });
        must!(cx, "setup:create-sub", { let a = a.clone(); async move { a.create_sub(S0, T0, 10, None).await } });
        let kind = cx.choose("victim", 2);
        let k = cx.choose("abandon-after-polls-since-the-publish", 6);
        let a2 = a.clone();
        let victim = cx.spawn("client:1-victim", async move {
            if kind == 0 {
                let _ = a2.pull(S0, 1, false).await;
            } else {
                let (tx, r) = a2.streaming_pull(first_stream_req(S0, 1)).await;
                if let Ok(mut st) = r {
                    let _keep = tx;
                    while let Ok(Some(_)) = st.message().await {}
                }
            }
        });
        let was = cx.freeze(true);
        let q = cx.quiesce().await;
        cx.freeze(was);
        tryv!(q);
        let got: std::sync::Arc<std::sync::Mutex<Option<String>>> = Default::default();
        let (a3, g2) = (a.clone(), got.clone());
        let bystander = cx.spawn("client:2-bystander", async move {
            let r = a3.pull(S0, 1, false).await;
            *g2.lock().unwrap() = Some(match r { Ok(v) => format!("OK({})", v.len()), Err(c) => format!("{:?}", c) });
        });
        let was = cx.freeze(true);
        let q = cx.quiesce().await;
        cx.freeze(was);
        tryv!(q);
        if victim.is_finished() || bystander.is_finished() {
            return ScenarioOut::viol("setup/consumer-returned-early", "a consumer of an empty subscription returned".to_string());
        }
        let p0 = cx.polls_of("client:1-victim");
        let a4 = a.clone();
        cx.spawn("client:0-publisher", async move { a4.publish(T0, vec![(b"m".to_vec(), vec![])]).await.is_ok() });
        if k < 5 {
            tryv!(cx.quiesce_until_polls("client:1-victim", p0 + k as u32).await);
        } else {
            tryv!(cx.quiesce().await);
        }
        cx.abort_now(&victim).await;
        tryv!(cx.quiesce().await);
        let case = format!("victim={} abandoned {} polls after the publish", ["blocking Pull", "StreamingPull"][kind], k);
        let sleeping = |when: &str, st: Option<Stats>| -> Option<ScenarioOut> {
            let st = st?;
            if !bystander.is_finished() && st.backlog > 0 {
                return Some(ScenarioOut::viol("wedged/waiting-consumer-sleeps-over-backlog", format!("{}: {}: {} message(s) sit in the backlog while the other consumer keeps waiting", case, when, st.backlog)));
            }
            None
        };
        if let Some(v) = sleeping("at quiescence", tryv!(cx.stats(S0).await)) { return v; }
        tryv!(cx.advance_ms(1000).await);
        if let Some(v) = sleeping("one second later", tryv!(cx.stats(S0).await)) { return v; }
        tryv!(cx.advance_ms(10_000 + SLACK_MS as u64).await);
        if let Some(v) = sleeping("after the abandoned lease expired", tryv!(cx.stats(S0).await)) { return v; }
        let r = got.lock().unwrap().clone();
        if r.as_deref() != Some("OK(1)") {
            return ScenarioOut::viol("lost-message", format!("{}: the consumer that kept waiting ended up with {:?} 11 s after the publish", case, r));
        }
        ScenarioOut { sample: Some(case), ..ScenarioOut::ok(format!("victim={} k={}", kind, k)) }
    })
}

/// One request covering 1500 deliveries, abandoned after k polls: all of it took effect or none of it.
fn large_batch_scenario() -> ScenFn {
    scen!(|cx| {
        let a = cx.api.clone();
        const N: usize = 1500;
        must!(cx, "setup:create-topic", { let a = a.clone(); async move { a.create_topic(T0).await } });
        must!(cx, "setup:create-sub", { let a = a.clone(); async move { a.create_sub(S0, T0, 10, None).await } });
        must!(cx, "setup:publish", { let a = a.clone(); async move { a.publish(T0, (0..N).map(|i| (format!("{}", i).into_bytes(), vec![])).collect()).await } });
        let held = must!(cx, "setup:pull", { let a = a.clone(); async move { a.pull(S0, 2000, true).await } });
        if held.len() != N {
            return ScenarioOut::viol("setup/pull", format!("pulled {} of {}", held.len(), N));
        }
        let ids: Vec<String> = held.iter().map(|m| m.ack_id.clone()).collect();
        let kind = cx.choose("request", 4);
        let k = cx.choose("abandon-after-polls", 8);
        let (a2, ids2) = (a.clone(), ids.clone());
        let h = cx.spawn("client:1-victim", async move {
            match kind {
                0 => { let _ = a2.ack(S0, ids2).await; }
                1 => { let _ = a2.modify(S0, ids2, 60).await; }
                2 => { let _ = a2.modify(S0, ids2, 0).await; }
                _ => {
                    let (tx, r) = a2.streaming_pull(first_stream_req(S1, 1)).await;
                    let _ = (tx, r);
                }
            }
        });
        if kind == 3 {
            // (placeholder kind: a stream on an unknown subscription - exercises the abort path only)
        }
        if k < 7 {
            tryv!(cx.quiesce_until_polls("client:1-victim", k as u32).await);
            cx.abort_now(&h).await;
        }
        tryv!(cx.quiesce().await);
        let case = format!("{} of {} ids abandoned after {} polls", ["Acknowledge", "ModifyAckDeadline(60)", "ModifyAckDeadline(0)", "noop"][kind], N, k);
        let st = tryv!(cx.stats(S0).await).unwrap();
        if st.backlog + st.outstanding != N && !(kind == 0 && st.backlog + st.outstanding == 0) {
            return ScenarioOut::viol("half-done/large-batch-partially-applied", format!("{}: right afterwards the subscription holds backlog={} outstanding={}", case, st.backlog, st.outstanding));
        }
        if kind == 2 && st.backlog != 0 && st.backlog != N {
            return ScenarioOut::viol("half-done/large-batch-partially-applied", format!("{}: {} of {} messages were nacked", case, st.backlog, N));
        }
        // 15 s later (past the original 10 s deadline, before an extended one)
        tryv!(cx.advance_ms(15_000).await);
        let st = tryv!(cx.stats(S0).await).unwrap();
        let back = st.backlog;
        if back != 0 && back != N {
            return ScenarioOut::viol("half-done/large-batch-partially-applied", format!("{}: 15 s later {} of {} messages are back in the backlog (neither none nor all)", case, back, N));
        }
        ScenarioOut { sample: Some(case), ..ScenarioOut::ok(format!("kind={} k={} back={}", kind, k, back.min(1))) }
    })
}

/// A StreamingPull control message that carries an acknowledgement AND a deadline extension; the stream's client
/// disappears k polls after sending it.  Either the whole message was applied or none of it.
fn stream_control_scenario() -> ScenFn {
    scen!([] |cx| {
        let a = cx.api.clone();
        must!(cx, "setup:create-topic", { let a = a.clone(); async move { a.create_topic(T0).await } });
        must!(cx, "setup:create-sub", { let a = a.clone(); async move { a.create_sub(S0, T0, 10, None).await } });
        must!(cx, "setup:publish", { let a = a.clone(); async move { a.publish(T0, vec![(b"m1".to_vec(), vec![]), (b"m2".to_vec(), vec![])]).await } });
        let what = cx.choose("control-message", 3); // 0: ack m1 + extend m2; 1: ack m1 + nack m2; 2: extend m1 30 s + extend m2 60 s (two seconds, one list)
        let sent = std::sync::Arc::new(std::sync::atomic::AtomicBool::new(false));
        let sent2 = sent.clone();
        let a2 = a.clone();
        let h = cx.spawn("client:00-stream", async move {
            let (tx, r) = a2.streaming_pull(first_stream_req(S0, 1000)).await;
            let mut st = match r { Ok(s) => s, Err(_) => return };
            let mut got: Vec<Rm> = vec![];
            while got.len() < 2 {
                match st.message().await {
                    Ok(Some(m)) => got.extend(m.received_messages.iter().map(to_rm)),
                    _ => return,
                }
            }
            let id = |d: &[u8]| got.iter().find(|m| m.data == d).map(|m| m.ack_id.clone()).unwrap();
            let req = match what {
                0 => deltio::pubsub_proto::StreamingPullRequest { ack_ids: vec![id(b"m1")], modify_deadline_ack_ids: vec![id(b"m2")], modify_deadline_seconds: vec![30], ..Default::default() },
                1 => deltio::pubsub_proto::StreamingPullRequest { ack_ids: vec![id(b"m1")], modify_deadline_ack_ids: vec![id(b"m2")], modify_deadline_seconds: vec![0], ..Default::default() },
                _ => deltio::pubsub_proto::StreamingPullRequest { modify_deadline_ack_ids: vec![id(b"m1"), id(b"m2")], modify_deadline_seconds: vec![30, 60], ..Default::default() },
            };
            let _ = tx.send(req).await;
            sent2.store(true, std::sync::atomic::Ordering::SeqCst);
            // keep reading (and never acknowledge anything else)
            loop {
                match st.message().await {
                    Ok(Some(_)) => {}
                    _ => break,
                }
            }
            drop(tx);
        });
        // run until the control message has been handed to the transport, then k more polls of the client task
        let s3 = sent.clone();
        for _ in 0..400 {
            if s3.load(std::sync::atomic::Ordering::SeqCst) || h.is_finished() {
                break;
            }
            tryv!(cx.run_steps(1).await);
        }
        if !sent.load(std::sync::atomic::Ordering::SeqCst) {
            return ScenarioOut::viol("stream-control/setup", "the stream never received its two messages".to_string());
        }
        let k = cx.choose("abandon-after-steps", 9);
        if k < 8 {
            tryv!(cx.run_steps(k as u32).await);
        } else {
            tryv!(cx.quiesce().await);
        }
        let t_abandon = cx.now_ms();
        cx.abort_now(&h).await;
        tryv!(cx.quiesce().await);
        // what is available now, at +11 s, at +31 s, at +61 s (return_immediately pulls; everything pulled is acked so
        // that it does not come back)
        let mut seen: Vec<(i64, Vec<u8>)> = vec![];
        for at in [0i64, 11_000, 31_000, 61_500] {
            let was = cx.freeze(true);
            let q = cx.advance_to_ms(t_abandon + at).await;
            cx.freeze(was);
            tryv!(q);
            let a3 = a.clone();
            let v = match tryv!(cx.settle("probe:pull", async move { a3.pull(S0, 10, true).await }).await) { Ok(v) => v, Err(c) => return ScenarioOut::viol("stream-control/probe-failed", format!("probe pull failed with {:?}", c)) };
            let ids: Vec<String> = v.iter().map(|m| m.ack_id.clone()).collect();
            for m in &v {
                seen.push((at, m.data.clone()));
            }
            if !ids.is_empty() {
                let a4 = a.clone();
                let _ = tryv!(cx.settle("probe:ack", async move { a4.ack(S0, ids).await }).await);
            }
        }
        let when = |d: &[u8]| seen.iter().find(|(_, x)| x == d).map(|(t, _)| *t);
        let (w1, w2) = (when(b"m1"), when(b"m2"));
        // classification per half: Some(true) applied, Some(false) not applied
        let (first, second, desc) = match what {
            0 => (w1.is_none(), w2 == Some(31_000), "ack m1 / extend m2 to 30 s"),
            1 => (w1.is_none(), w2 == Some(0), "ack m1 / nack m2"),
            _ => (w1 == Some(31_000), w2 == Some(61_500), "extend m1 to 30 s / extend m2 to 60 s"),
        };
        // not applied means: the delivery expires at its original 10 s deadline
        let first_untouched = w1 == Some(11_000);
        let second_untouched = w2 == Some(11_000);
        let key = format!("what={} k={} m1@{:?} m2@{:?}", what, k, w1, w2);
        if !(first || first_untouched) || !(second || second_untouched) {
            return ScenarioOut::viol("stream-control/unexpected-state", format!("{} ({}): neither applied nor untouched", key, desc));
        }
        // a nacked message may be taken again by the very stream that nacked it (while it lives) and is then leased for
        // another 10 s: for the ack + nack message "m2 came back at +11 s" does not tell whether the nack was applied
        let second_unknown = what == 1 && w2 == Some(11_000);
        if first != second && !second_unknown {
            return ScenarioOut::viol("stream-control/half-applied", format!("control message [{}] abandoned after {} steps: first half {}, second half {} (m1 available again at {:?} ms, m2 at {:?} ms after the abandonment)", desc, k, if first { "applied" } else { "not applied" }, if second { "applied" } else { "not applied" }, w1, w2));
        }
        ScenarioOut::ok(format!("what={} applied={}", what, first))
    })
}

pub fn units(thorough: bool) -> Vec<Unit> {
    let d = if thorough { 3 } else { 1 };
    vec![
        explore_unit(
            "crash/idle",
            format!("14 request kinds, caller dropped after k polls for every k in 0..{} (and never), empty mailboxes; afterwards namespace consistency, attachment, message conservation", MAX_K),
            Bounds::new(d),
            ExecCfg::default(),
            scenario(false),
        ),
        explore_unit(
            "crash/next-to-a-waiting-consumer",
            "a blocking Pull / StreamingPull is parked on a subscription next to another blocking Pull; one message is published; the first consumer disappears k polls later (every k); the message must reach the consumer that keeps waiting, at once or after the abandoned lease expired",
            Bounds::new(d + 1),
            ExecCfg::default(),
            bystander_scenario(),
        ),
        explore_unit(
            "crash/large-batch",
            "Acknowledge / ModifyAckDeadline(60) / ModifyAckDeadline(0) covering 1500 deliveries, caller dropped after k polls (every k): right afterwards and 15 s later either all of them or none are affected",
            Bounds::new(0),
            ExecCfg { max_steps: 200_000, ..Default::default() },
            large_batch_scenario(),
        ),
        explore_unit(
            "crash/stream-control-message",
            "a StreamingPull control message carrying two parts (ack + extension, ack + nack, two extensions); the stream's client disappears k scheduler steps after sending it (every k in 0..8, and never): afterwards either both parts were applied or neither (probed at +0, +11, +31, +61.5 s)",
            Bounds::new(d),
            ExecCfg::default(),
            stream_control_scenario(),
        ),
        explore_unit(
            "crash/saturated",
            format!("the same with mailbox capacity 1 and four competing requests (2 Publish, 2 GetSubscription) in flight, so that the victim is suspended waiting for mailbox room"),
            Bounds::new(d),
            ExecCfg { caps: (1, 1), ..Default::default() },
            scenario(true),
        ),
    ]
}
