//! The `seq`-mode units of the properties that are (partly) about operation histories.
use crate::explore::Bounds;
use crate::report::Unit;
use crate::scen::*;
use crate::seq::Which::*;
use crate::seq::*;
use crate::world::ExecCfg;

fn cfg(name: &str, desc: &str, setup: Vec<Op>, alphabet: Vec<Op>, depth: usize) -> SeqCfg {
    SeqCfg {
        name: format!("seq/{}/n{}", name, depth),
        desc: format!("{}; all sequences of length {} over {} operations, every response and the stats of every subscription compared with the reference model after every step, final drain", desc, depth, alphabet.len()),
        setup,
        alphabet,
        depth,
        all_enabled: false,
        drain: true,
        exec: ExecCfg { points_on: false, ..Default::default() },
        bounds: Bounds::new(0),
        unfrozen: false,
    }
}

pub fn base_setup() -> Vec<Op> {
    vec![Op::CreateTopic(T0), Op::CreateSub(S0, T0, 10), Op::CreateSub(S1, T0, 10)]
}

/// C01 fan-out without loss.
pub fn c01(thorough: bool) -> Vec<Unit> {
    let alphabet = vec![
        Op::Publish(T0, 1),
        Op::Publish(T0, 2),
        Op::Publish(T1, 1),
        Op::CreateSub(S1, T0, 10),
        Op::CreateSub(S2, T1, 10),
        Op::DeleteSub(S0),
        Op::DeleteTopic(T1),
        Op::Pull(S0, 1),
        Op::Pull(S1, 10),
        Op::Pull(S2, 10),
        Op::Ack(S0, Oldest),
        Op::Nack(S1, Oldest),
        Op::AdvPast,
    ];
    let setup = vec![Op::CreateTopic(T0), Op::CreateTopic(T1), Op::CreateSub(S0, T0, 10)];
    let mut v = vec![];
    for n in if thorough { vec![3, 5, 6] } else { vec![3, 4] } {
        v.push(seq_unit(cfg("fanout", "2 topics / 3 subscriptions with create and delete in the alphabet", setup.clone(), alphabet.clone(), n)));
    }
    // scheduling deviations inside each operation (order of the per-subscription posts, actor steps)
    let mut c = cfg("fanout-sched", "same alphabet, operations run with scheduling/select choices explored (d<=1)", setup.clone(), alphabet.clone(), if thorough { 4 } else { 3 });
    c.unfrozen = true;
    c.bounds = Bounds::new(1);
    v.push(seq_unit(c));
    v
}

/// C02 acknowledgement is final and local.
pub fn c02(thorough: bool) -> Vec<Unit> {
    let alphabet = vec![
        Op::Publish(T0, 1),
        Op::Publish(T0, 2),
        Op::Pull(S0, 1),
        Op::Pull(S0, 10),
        Op::Pull(S1, 10),
        Op::Ack(S0, Oldest),
        Op::Ack(S0, Newest),
        Op::AckStale(S0),
        Op::AckUnknown(S0),
        Op::Nack(S0, Oldest),
        Op::Mod(S0, Oldest, 30),
        Op::AdvBefore,
        Op::AdvPast,
        Op::Adv(10_000),
    ];
    let mut v = vec![];
    for n in if thorough { vec![4, 6, 7] } else { vec![4, 5] } {
        v.push(seq_unit(cfg("ack", "one topic, two subscriptions; unary Acknowledge incl. stale/unknown ids, deadlines crossed after the ack", base_setup(), alphabet.clone(), n)));
    }
    let stream_alphabet = vec![
        Op::Publish(T0, 1),
        Op::Publish(T0, 2),
        Op::StreamOpen(S0, 1000),
        Op::Pull(S0, 10),
        Op::Pull(S1, 10),
        Op::StreamAck(S0, Oldest),
        Op::StreamAck(S0, Newest),
        Op::StreamMod(S0, Oldest, 30),
        Op::AckStale(S0),
        Op::AdvBefore,
        Op::AdvPast,
        Op::Adv(10_000),
    ];
    for n in if thorough { vec![4, 6] } else { vec![4, 5] } {
        v.push(seq_unit(cfg("stream-ack", "acknowledgements and modifications sent as StreamingPull control messages on an open stream", base_setup(), stream_alphabet.clone(), n)));
    }
    v
}

/// C04 redelivery at the deadline: several coexisting deliveries with different deadlines.
pub fn c04(thorough: bool) -> Vec<Unit> {
    let alphabet = vec![
        Op::Publish(T0, 1),
        Op::Publish(T0, 2),
        Op::Pull(S0, 1),
        Op::Pull(S0, 10),
        Op::Pull(S1, 1),
        Op::Adv(3_000),
        Op::Mod(S0, Oldest, 5),
        Op::Mod(S0, Newest, 30),
        Op::Ack(S0, Oldest),
        Op::AckStale(S0),
        Op::AdvBefore,
        Op::AdvPast,
    ];
    let setup = vec![Op::CreateTopic(T0), Op::CreateSub(S0, T0, 10), Op::CreateSub(S1, T0, 15)];
    let mut v = vec![];
    for n in if thorough { vec![4, 6, 7] } else { vec![4, 5] } {
        v.push(seq_unit(cfg("deadlines", "two subscriptions with 10 s and 15 s deadlines, deliveries handed out at different instants, probes 1 ms before and just after each deadline", setup.clone(), alphabet.clone(), n)));
    }
    v
}

/// C05 ModifyAckDeadline histories.
pub fn c05(thorough: bool) -> Vec<Unit> {
    let alphabet = vec![
        Op::Publish(T0, 2),
        Op::Pull(S0, 1),
        Op::Pull(S0, 10),
        Op::Mod(S0, Oldest, 0),
        Op::Mod(S0, Oldest, 5),
        Op::Mod(S0, Oldest, 30),
        Op::Mod(S0, Newest, 600),
        Op::Mod(S0, Newest, 1_000_000),
        Op::Mod(S0, Newest, 1),
        Op::StreamMod(S0, Oldest, 20),
        Op::Ack(S0, Oldest),
        Op::AdvBefore,
        Op::AdvPast,
    ];
    let mut v = vec![];
    for n in if thorough { vec![4, 6] } else { vec![4, 5] } {
        v.push(seq_unit(cfg("modify", "modifications (extend, shorten, cap at 600, nack) mixed with pulls, acks and deadline crossings", base_setup(), alphabet.clone(), n)));
    }
    v
}

/// C08 order: nack/expiry in between (redeliveries exempt), two subscriptions.
pub fn c08(thorough: bool) -> Vec<Unit> {
    let alphabet = vec![
        Op::Publish(T0, 1),
        Op::Publish(T0, 2),
        Op::Publish(T0, 3),
        Op::Pull(S0, 1),
        Op::Pull(S0, 2),
        Op::Pull(S1, 10),
        Op::Nack(S0, Newest),
        Op::Nack(S0, Oldest),
        Op::AdvPast,
        Op::Ack(S0, Oldest),
    ];
    let mut v = vec![];
    for n in if thorough { vec![4, 6, 7] } else { vec![4, 5] } {
        v.push(seq_unit(cfg("order", "publish order vs first-delivery order and id order, with nacks and expiries interleaved", base_setup(), alphabet.clone(), n)));
    }
    v
}

const TQ: &str = "projects/q/topics/t0";
const SQ: &str = "projects/q/subscriptions/s0";

/// C10 namespaces behave as maps (sequential specification).
pub fn c10(thorough: bool) -> Vec<Unit> {
    let alphabet = vec![
        Op::CreateTopic(T0),
        Op::DeleteTopic(T0),
        Op::GetTopic(T0),
        Op::CreateSub(S0, T0, 10),
        Op::CreateSub(S0, T1, 0),
        Op::CreateSub(SQ, T0, 10),
        Op::CreateSub(S0, T0, 700),
        Op::DeleteSub(S0),
        Op::GetSub(S0),
        Op::Publish(T0, 1),
        Op::Pull(S0, 10),
        Op::AckUnknown(S0),
        Op::ListTopics("p", 0),
        Op::ListSubs("p", 1),
        Op::ListTopicSubs(T0, 0),
        Op::CreateTopic(TQ),
    ];
    let mut v = vec![];
    for n in if thorough { vec![3, 5] } else { vec![3, 4] } {
        let mut c = cfg("namespace", "one topic name, one subscription name, two projects; create/get/delete/list and data-plane calls on present and absent names", vec![], alphabet.clone(), n);
        c.all_enabled = true;
        // AckUnknown on an absent sub must be NOT_FOUND too
        v.push(seq_unit(c));
    }
    v
}

/// C11 deletion consistency.
pub fn c11(thorough: bool) -> Vec<Unit> {
    let alphabet = vec![
        Op::CreateTopic(T0),
        Op::DeleteTopic(T0),
        Op::CreateSub(S0, T0, 10),
        Op::CreateSub(S1, T0, 10),
        Op::DeleteSub(S0),
        Op::Publish(T0, 1),
        Op::Pull(S0, 10),
        Op::Pull(S1, 1),
        Op::ListTopicSubs(T0, 0),
        Op::GetSub(S0),
        Op::ListSubs("p", 0),
    ];
    let mut v = vec![];
    for n in if thorough { vec![4, 6, 7] } else { vec![4, 5] } {
        let mut c = cfg("deletion", "create/delete/re-create of a topic name and two subscription names with publishes and pulls in between", vec![Op::CreateTopic(T0), Op::CreateSub(S0, T0, 10)], alphabet.clone(), n);
        c.all_enabled = true;
        v.push(seq_unit(c));
    }
    v
}
