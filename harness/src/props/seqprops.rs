//! The `seq`-mode units of the properties that are (partly) about operation histories.
use crate::explore::Bounds;
use crate::report::Unit;
use crate::scen::*;
use crate::seq::Which::*;
use crate::seq::*;
use crate::world::ExecCfg;

/// server uptimes (ms) used as a data choice: 72 min (2^32 µs = 71.6 min), 50 days (2^32 ms = 49.7 days), 5 years
pub const UPTIMES_MS: [u64; 3] = [72 * 60_000, 50 * 86_400_000, 5 * 365 * 86_400_000];

fn cfg(name: &str, desc: &str, setup: Vec<Op>, alphabet: Vec<Op>, depth: usize) -> SeqCfg {
    SeqCfg {
        name: format!("seq/{}/n{}", name, depth),
        desc: format!("{}; all sequences of length {} over {} operations, every response and the stats of every subscription compared with the reference model after every step, final drain", desc, depth, alphabet.len()),
        setup,
        alphabet,
        depth,
        all_enabled: false,
        drain: true,
        exec: ExecCfg { points_on: false, ..Default::default() },
        bounds: Bounds::new(0),
        unfrozen: false,
    }
}

/// The lease life-cycle alphabet shared by C01..C05: every way a delivery can end or be prolonged, singly and in
/// mixed batches (stale id before a live one), on a subscription with several coexisting deliveries.
pub fn core_units(thorough: bool) -> Vec<Unit> {
    use IdKind::*;
    let alphabet = vec![
        Op::Publish(T0, 1),
        Op::Publish(T0, 2),
        Op::Pull(S0, 1),
        Op::Pull(S0, 10),
        Op::Pull(S1, 10),
        Op::Ack(S0, Oldest),
        Op::Ack(S0, Newest),
        Op::AckIds(S0, vec![Stale, B], false),
        Op::AckIds(S0, vec![Unknown, A], true),
        Op::AckIds(S0, vec![A, A], false),
        Op::Nack(S0, Newest),
        Op::Mod(S0, Oldest, 10),
        Op::Mod(S0, Newest, 30),
        Op::ModIds(S0, vec![Stale, A], 20, false),
        Op::ModIds(S0, vec![A, A], 15, false),
        Op::StreamModPairs(S0, vec![(A, 30), (B, 0)]),
        Op::StreamModPairs(S0, vec![(A, 5), (A, 30)]),
        // a subscription outlives its topic and keeps serving, acknowledging and re-queueing what it holds
        Op::DeleteTopic(T0),
        Op::AdvBefore,
        Op::AdvPast,
        Op::Adv(3_000),
    ];
    let mut v = vec![];
    for n in if thorough { vec![4, 6, 7] } else { vec![4, 5] } {
        v.push(seq_unit(cfg("lease-lifecycle", "one topic, two subscriptions; acks / nacks / modifications singly and in mixed batches (stale or unknown id first, duplicate id), unary and as stream control messages, several coexisting deliveries with equal and different deadlines, every deadline probed", base_setup(), alphabet.clone(), n)));
    }
    // the same on a server that has been up for 72 minutes / 50 days (time since the deadline epoch as a data choice)
    {
        let mut c = cfg("lease-lifecycle-uptime", "the lease life-cycle alphabet after 72 minutes / 50 days / 5 years of (virtual) server uptime", base_setup(), alphabet.clone(), if thorough { 4 } else { 3 });
        c.exec.uptime_choices_ms = UPTIMES_MS.to_vec();
        v.push(seq_unit(c));
    }
    v
}

/// Open StreamingPulls as consumers inside the sequential model: what a stream receives is fed to the model after
/// every step, and an open stream must have taken everything that is available (no sleeping over a backlog).
pub fn stream_units(thorough: bool) -> Vec<Unit> {
    use IdKind::*;
    let alphabet = vec![
        Op::Publish(T0, 1),
        Op::Publish(T0, 3),
        Op::StreamOpen(S0, 1000),
        Op::StreamOpen(S1, 1),
        Op::Pull(S0, 10),
        Op::Pull(S1, 1),
        Op::Nack(S0, Oldest),
        Op::Nack(S1, Newest),
        Op::Ack(S0, Newest),
        Op::AckIds(S1, vec![Stale, A], true),
        Op::ModIds(S0, vec![Stale, A], 30, true),
        Op::StreamModPairs(S0, vec![(A, 0), (B, 30)]),
        Op::StreamModPairs(S1, vec![(A, 30), (A, 0)]),
        Op::DeleteTopic(T0),
        Op::AdvBefore,
        Op::AdvPast,
    ];
    let mut v = vec![];
    for n in if thorough { vec![4, 6, 7] } else { vec![4, 5] } {
        v.push(seq_unit(cfg("stream-consumers", "two subscriptions, StreamingPulls with max_outstanding 1000 and 1 opened at any point and kept open, pulls, nacks, acks and modifications (unary and as control messages), deadline crossings", base_setup(), alphabet.clone(), n)));
    }
    v
}

pub fn base_setup() -> Vec<Op> {
    vec![Op::CreateTopic(T0), Op::CreateSub(S0, T0, 10), Op::CreateSub(S1, T0, 10)]
}

/// C01 fan-out without loss.
pub fn c01(thorough: bool) -> Vec<Unit> {
    let alphabet = vec![
        Op::Publish(T0, 1),
        Op::Publish(T0, 2),
        Op::Publish(T1, 1),
        Op::CreateSub(S1, T0, 10),
        Op::CreateSub(S2, T1, 10),
        Op::DeleteSub(S0),
        Op::DeleteTopic(T1),
        Op::Pull(S0, 1),
        Op::Pull(S1, 10),
        Op::Pull(S2, 10),
        Op::Ack(S0, Oldest),
        Op::Nack(S1, Oldest),
        Op::AdvPast,
    ];
    let setup = vec![Op::CreateTopic(T0), Op::CreateTopic(T1), Op::CreateSub(S0, T0, 10)];
    let mut v = vec![];
    for n in if thorough { vec![3, 5, 6] } else { vec![3, 4] } {
        v.push(seq_unit(cfg("fanout", "2 topics / 3 subscriptions with create and delete in the alphabet", setup.clone(), alphabet.clone(), n)));
    }
    // scheduling deviations inside each operation (order of the per-subscription posts, actor steps)
    let mut c = cfg("fanout-sched", "same alphabet, operations run with scheduling/select choices explored (d<=1)", setup.clone(), alphabet.clone(), if thorough { 4 } else { 3 });
    c.unfrozen = true;
    c.bounds = Bounds::new(1);
    v.push(seq_unit(c));
    v
}

/// C02 acknowledgement is final and local.
pub fn c02(thorough: bool) -> Vec<Unit> {
    let alphabet = vec![
        Op::Publish(T0, 1),
        Op::Publish(T0, 2),
        Op::Pull(S0, 1),
        Op::Pull(S0, 10),
        Op::Pull(S1, 10),
        Op::Ack(S0, Oldest),
        Op::Ack(S0, Newest),
        Op::AckStale(S0),
        Op::AckUnknown(S0),
        Op::Nack(S0, Oldest),
        Op::Mod(S0, Oldest, 30),
        Op::AdvBefore,
        Op::AdvPast,
        Op::Adv(10_000),
    ];
    let mut v = vec![];
    for n in if thorough { vec![4, 6, 7] } else { vec![4, 5] } {
        v.push(seq_unit(cfg("ack", "one topic, two subscriptions; unary Acknowledge incl. stale/unknown ids, deadlines crossed after the ack", base_setup(), alphabet.clone(), n)));
    }
    v.push(reincarnation_unit(thorough));
    let stream_alphabet = vec![
        Op::Publish(T0, 1),
        Op::Publish(T0, 2),
        Op::StreamOpen(S0, 1000),
        Op::Pull(S0, 10),
        Op::Pull(S1, 10),
        Op::StreamAck(S0, Oldest),
        Op::StreamAck(S0, Newest),
        Op::StreamMod(S0, Oldest, 30),
        Op::AckStale(S0),
        Op::AdvBefore,
        Op::AdvPast,
        Op::Adv(10_000),
    ];
    for n in if thorough { vec![4, 6] } else { vec![4, 5] } {
        v.push(seq_unit(cfg("stream-ack", "acknowledgements and modifications sent as StreamingPull control messages on an open stream", base_setup(), stream_alphabet.clone(), n)));
    }
    v
}

/// A subscription is deleted and created again under the same name while a client still holds ack ids of the old one:
/// those ids are stale for the new subscription (acknowledging / nacking them has no effect) and are not handed out again.
pub fn reincarnation_unit(thorough: bool) -> Unit {
    let alphabet = vec![
        Op::Publish(T0, 1),
        Op::Pull(S0, 1),
        Op::Pull(S0, 10),
        Op::DeleteSub(S0),
        Op::CreateSub(S0, T0, 10),
        Op::AckStale(S0),
        Op::ModIds(S0, vec![IdKind::Stale], 0, false),
        Op::ModIds(S0, vec![IdKind::Stale], 30, true),
        Op::AdvPast,
    ];
    let setup = vec![Op::CreateTopic(T0), Op::CreateSub(S0, T0, 10), Op::Publish(T0, 2), Op::Pull(S0, 1)];
    seq_unit(cfg("reincarnation", "a subscription holding deliveries is deleted and re-created under the same name: ack ids of the old one are stale for the new one (ack / nack / extension by unary call or stream message have no effect) and are never handed out again", setup, alphabet, if thorough { 6 } else { 5 }))
}

/// C04 redelivery at the deadline: several coexisting deliveries with different deadlines.
pub fn c04(thorough: bool) -> Vec<Unit> {
    let alphabet = vec![
        Op::Publish(T0, 1),
        Op::Publish(T0, 2),
        Op::Pull(S0, 1),
        Op::Pull(S0, 10),
        Op::Pull(S1, 1),
        Op::Adv(3_000),
        Op::Mod(S0, Oldest, 5),
        Op::Mod(S0, Newest, 30),
        Op::Ack(S0, Oldest),
        Op::AckStale(S0),
        Op::AdvBefore,
        Op::AdvPast,
    ];
    let setup = vec![Op::CreateTopic(T0), Op::CreateSub(S0, T0, 10), Op::CreateSub(S1, T0, 15)];
    let mut v = vec![];
    for n in if thorough { vec![4, 6, 7] } else { vec![4, 5] } {
        v.push(seq_unit(cfg("deadlines", "two subscriptions with 10 s and 15 s deadlines, deliveries handed out at different instants, probes 1 ms before and just after each deadline", setup.clone(), alphabet.clone(), n)));
    }
    v.push(c04_phase_sweep(thorough));
    v.push(deadline_walk(thorough));
    v.push(big_batch_expiry_race(thorough));
    v.push(waiting_consumer_handout(thorough));
    v
}

/// C05 ModifyAckDeadline histories.
pub fn c05(thorough: bool) -> Vec<Unit> {
    let alphabet = vec![
        Op::Publish(T0, 2),
        Op::Pull(S0, 1),
        Op::Pull(S0, 10),
        Op::Mod(S0, Oldest, 0),
        Op::Mod(S0, Oldest, 5),
        Op::Mod(S0, Oldest, 30),
        Op::Mod(S0, Newest, 600),
        Op::Mod(S0, Newest, 1_000_000),
        Op::Mod(S0, Oldest, 65_541),
        Op::Mod(S0, Newest, 1),
        Op::StreamMod(S0, Oldest, 20),
        Op::Ack(S0, Oldest),
        Op::AdvBefore,
        Op::AdvPast,
    ];
    let mut v = vec![];
    for n in if thorough { vec![4, 6, 7] } else { vec![4, 5] } {
        v.push(seq_unit(cfg("modify", "modifications (extend, shorten, cap at 600, nack) mixed with pulls, acks and deadline crossings", base_setup(), alphabet.clone(), n)));
    }
    v.push(c05_input(thorough));
    v
}

/// C08 order: nack/expiry in between (redeliveries exempt), two subscriptions.
pub fn c08(thorough: bool) -> Vec<Unit> {
    let alphabet = vec![
        Op::Publish(T0, 1),
        Op::Publish(T0, 2),
        Op::Publish(T0, 3),
        Op::Pull(S0, 1),
        Op::Pull(S0, 2),
        Op::Pull(S1, 10),
        Op::Nack(S0, Newest),
        Op::Nack(S0, Oldest),
        Op::AdvPast,
        Op::Ack(S0, Oldest),
        // nack batches whose length differs from the number of deliveries they return to the backlog (an unknown id, a repeated id):
        // the returned delivery goes behind the never-delivered messages, which keep their order
        Op::ModIds(S0, vec![IdKind::Unknown, IdKind::A], 0, false),
        Op::ModIds(S0, vec![IdKind::A, IdKind::A], 0, false),
    ];
    let mut v = vec![];
    for n in if thorough { vec![4, 6, 7] } else { vec![4, 5] } {
        v.push(seq_unit(cfg("order", "publish order vs first-delivery order and id order, with nacks and expiries interleaved", base_setup(), alphabet.clone(), n)));
    }
    v
}


/// C10 namespaces behave as maps (sequential specification).
pub fn c10(thorough: bool) -> Vec<Unit> {
    let alphabet = vec![
        Op::CreateTopic(T0),
        Op::DeleteTopic(T0),
        Op::GetTopic(T0),
        Op::CreateSub(S0, T0, 10),
        Op::CreateSub(S0, T1, 0),
        Op::CreateSub(SQ, T0, 10),
        Op::CreateSub(S0, T0, 700),
        Op::DeleteSub(S0),
        Op::GetSub(S0),
        Op::Publish(T0, 1),
        Op::Pull(S0, 10),
        Op::AckUnknown(S0),
        Op::AckIds(S0, vec![], false),
        Op::ModIds(S0, vec![], 10, false),
        Op::ListTopics("p", 0),
        Op::ListSubs("p", 1),
        Op::ListTopicSubs(T0, 0),
        Op::CreateTopic(TQ),
        Op::CreateSub(SQ, TQ, 10),
        Op::ListSubs("q", 1),
        // a third topic name: deletion orders among three
        Op::CreateTopic(T1),
        Op::DeleteTopic(T1),
        Op::DeleteTopic(TQ),
    ];
    let mut v = vec![];
    for n in if thorough { vec![3, 5, 6] } else { vec![3, 4] } {
        let mut c = cfg("namespace", "one topic name, one subscription name, two projects; create/get/delete/list and data-plane calls on present and absent names", vec![], alphabet.clone(), n);
        c.all_enabled = true;
        // AckUnknown on an absent sub must be NOT_FOUND too
        v.push(seq_unit(c));
    }
    // what a subscription reads back as must survive its use: streams opened on it (whose initial request carries its
    // own stream_ack_deadline_seconds), pulls, modifications and the deletion of its topic
    {
        let alphabet = vec![
            Op::StreamOpen(S0, 1000),
            Op::StreamOpen(S1, 1),
            Op::Publish(T0, 1),
            Op::Pull(S0, 10),
            Op::Mod(S0, Oldest, 30),
            Op::GetSub(S0),
            Op::GetSub(S1),
            Op::ListSubs("p", 0),
            Op::DeleteTopic(T0),
        ];
        let setup = vec![Op::CreateTopic(T0), Op::CreateSub(S0, T0, 20), Op::CreateSub(S1, T0, 600)];
        let mut c = cfg("read-back-after-use", "subscriptions created with 20 s and 600 s ack deadlines are used (streams, pulls, modifications, topic deletion) and read back by get / list: name, topic, ack deadline and push configuration as created", setup, alphabet, if thorough { 5 } else { 3 });
        c.all_enabled = true;
        v.push(seq_unit(c));
    }
    // the same with a topic in each of two projects already there, so that listings that mix projects are reached early
    {
        let mut c = cfg("namespace-two-projects", "as above, starting with one topic in each of two projects; subscriptions with the same id in both", vec![Op::CreateTopic(T0), Op::CreateTopic(TQ)], alphabet.clone(), if thorough { 5 } else { 4 });
        c.all_enabled = true;
        v.push(seq_unit(c));
    }
    v
}

/// C11 deletion consistency.
pub fn c11(thorough: bool) -> Vec<Unit> {
    let alphabet = vec![
        Op::CreateTopic(T0),
        Op::DeleteTopic(T0),
        Op::CreateSub(S0, T0, 10),
        Op::CreateSub(S1, T0, 10),
        Op::CreateSub(S2, T0, 10),
        Op::DeleteSub(S0),
        Op::DeleteSub(S1),
        Op::DeleteSub(S2),
        Op::Publish(T0, 1),
        Op::Pull(S0, 10),
        Op::Pull(S1, 1),
        Op::ListTopicSubs(T0, 0),
        Op::GetSub(S0),
        Op::ListSubs("p", 0),
    ];
    let mut v = vec![];
    for n in if thorough { vec![4, 6, 7] } else { vec![4, 5] } {
        let mut c = cfg("deletion", "create/delete/re-create of a topic name and two subscription names with publishes and pulls in between", vec![Op::CreateTopic(T0), Op::CreateSub(S0, T0, 10)], alphabet.clone(), n);
        c.all_enabled = true;
        v.push(seq_unit(c));
    }
    v
}

// ---------------------------------------------------------------------------------------------
// input sweeps of C04 / C05: scripted operation lists with data choices, judged by the same model

use crate::explore::Verdict;
use crate::model::Model;
use crate::world::{ScenarioOut, SLACK_MS};
use crate::{scen, tryv};

async fn cross_all_deadlines(cx: &crate::world::Ctx, st: &mut SeqState, pull: Option<&'static str>) -> Result<(), Verdict> {
    for _ in 0..40 {
        if st.model.earliest_lo().is_none() {
            return Ok(());
        }
        if Op::AdvBefore.enabled(&st.model) {
            apply(cx, st, &Op::AdvBefore, false).await?;
            if let Some(s) = pull {
                apply(cx, st, &Op::Pull(s, 10), false).await?;
            }
        }
        apply(cx, st, &Op::AdvPast, false).await?;
        if let Some(s) = pull {
            // the redelivery must be handed out again (new ack id), and acknowledging the old id must not touch it
            apply(cx, st, &Op::Pull(s, 10), false).await?;
            if Op::AckStale(s).enabled(&st.model) {
                apply(cx, st, &Op::AckStale(s), false).await?;
            }
            if st.model.now_ms > 2_000_000 {
                return Ok(());
            }
            // after two redeliveries stop the chain by acknowledging
            if st.model.subs[s].stale_ack_ids.len() >= 3 && Op::AckAll(s).enabled(&st.model) {
                apply(cx, st, &Op::AckAll(s), false).await?;
            }
        }
    }
    Ok(())
}

/// C04: every 1 ms phase of the hand-out instant x ack_deadline_seconds values x consumer kind.
pub fn c04_phase_sweep(thorough: bool) -> Unit {
    let dls: Vec<i32> = vec![-1, 0, 5, 10, 11, 15, 60, 600];
    let phases: Vec<u64> = if thorough { (0..200).map(|i| i * 500).collect() } else { (0..100).map(|i| i * 1000).collect() };
    let dls_desc = format!("{:?}", dls);
    let f: ScenFn = scen!([dls] |cx| {
        let dl = dls[cx.choose("ack_deadline_seconds", dls.len())];
        let via_stream = cx.choose("consumer", 2) == 1;
        let mut st = SeqState { model: Model::default(), trace: vec![], states: vec![], payload_counter: 0, streams: Default::default() };
        tryv!(apply(&cx, &mut st, &Op::CreateTopic(T0), false).await);
        tryv!(apply(&cx, &mut st, &Op::CreateSub(S0, T0, dl), false).await);
        if via_stream {
            tryv!(apply(&cx, &mut st, &Op::StreamOpen(S0, 1000), false).await);
        }
        tryv!(apply(&cx, &mut st, &Op::Publish(T0, 1), false).await);
        if !via_stream {
            tryv!(apply(&cx, &mut st, &Op::Pull(S0, 1), false).await);
        }
        // 1 ms before the deadline it must still be leased, at deadline + slack it must be available again (three times)
        for _ in 0..3 {
            if st.model.earliest_lo().is_none() {
                return ScenarioOut::viol("setup/no-lease", "the message was not handed out".to_string());
            }
            tryv!(apply(&cx, &mut st, &Op::AdvBefore, false).await);
            if !via_stream {
                tryv!(apply(&cx, &mut st, &Op::Pull(S0, 10), false).await);
            }
            tryv!(apply(&cx, &mut st, &Op::AdvPast, false).await);
            if !via_stream {
                tryv!(apply(&cx, &mut st, &Op::Pull(S0, 10), false).await);
                tryv!(apply(&cx, &mut st, &Op::AckStale(S0), false).await);
            }
        }
        tryv!(drain(&cx, &mut st).await);
        ScenarioOut { verdict: Verdict::Ok(format!("dl={} via_stream={}", dl, via_stream)), model_states: st.states, validated: true, sample: Some(st.trace.join(" ; ")) }
    });
    explore_unit(
        "input/phase-sweep",
        format!("hand-out at every {} phase of the server's 100 ms deadline grid x ack_deadline_seconds {:?} x (Pull | open StreamingPull): still leased 1 ms before the deadline (max(10, value) s), redelivered with a new ack id by deadline + {} ms, old ack id inert; three consecutive deadlines", if thorough { "0.5 ms" } else { "1 ms" }, dls_desc, SLACK_MS),
        Bounds::new(0),
        ExecCfg { points_on: false, phase_choices: phases, uptime_choices_ms: vec![0, UPTIMES_MS[0], UPTIMES_MS[1]], ..Default::default() },
        f,
    )
}

/// C05: N x id lists x (unary | streaming).
pub fn c05_input(thorough: bool) -> Unit {
    use IdKind::*;
    let ns: Vec<i32> = vec![i32::MIN, -1, 0, 1, 9, 10, 11, 599, 600, 601, 65_535, 65_536, 65_541, 131_072 + 599, 1 << 24, i32::MAX];
    let kinds = [A, B, Stale, Unknown, BadX, BadEmpty];
    let mut lists: Vec<Vec<IdKind>> = vec![vec![]];
    for a in kinds {
        lists.push(vec![a]);
        for b in kinds {
            if b != a {
                lists.push(vec![a, b]);
                for c in kinds {
                    if c != a && c != b {
                        lists.push(vec![a, b, c]);
                    }
                }
            }
        }
    }
    let phases: Vec<u64> = if thorough { vec![0, 37_000, 99_000] } else { vec![37_000] };
    let nl = lists.len();
    let ns_desc = format!("{:?}", ns);
    let f: ScenFn = scen!([ns, lists] |cx| {
        let n = ns[cx.choose("seconds", ns.len())];
        let list = lists[cx.choose("ids", nl)].clone();
        let via_stream = cx.choose("path", 2) == 1;
        let mut st = SeqState { model: Model::default(), trace: vec![], states: vec![], payload_counter: 0, streams: Default::default() };
        // a, b outstanding (handed out 3 s apart, so their deadlines differ), one stale id
        for op in [Op::CreateTopic(T0), Op::CreateSub(S0, T0, 10), Op::Publish(T0, 1), Op::Pull(S0, 1), Op::Ack(S0, Which::Oldest), Op::Publish(T0, 1), Op::Pull(S0, 1), Op::Adv(3_000), Op::Publish(T0, 1), Op::Pull(S0, 1), Op::Adv(2_000)] {
            tryv!(apply(&cx, &mut st, &op, false).await);
        }
        tryv!(apply(&cx, &mut st, &Op::ModIds(S0, list.clone(), n, via_stream), false).await);
        // N = 0: immediately available again (checked by the stats comparison inside apply); otherwise probe every deadline
        let pull_sub = if via_stream && st.streams.contains_key(S0) { None } else { Some(S0) };
        tryv!(cross_all_deadlines(&cx, &mut st, pull_sub).await);
        tryv!(drain(&cx, &mut st).await);
        ScenarioOut { verdict: Verdict::Ok(format!("n={} ids={} stream={}", n.signum(), list.len(), via_stream)), model_states: st.states, validated: true, sample: Some(format!("N={} ids={:?} via_stream={}", n, list, via_stream)) }
    });
    explore_unit(
        "input/modify",
        format!("ModifyAckDeadline with N in {:?} x every ordered list of <=3 distinct ids from {{outstanding a, outstanding b, stale, unknown, malformed 'x', malformed ''}} ({} lists) x (unary | StreamingPull control message); afterwards every deadline is probed 1 ms before and just after", ns_desc, nl),
        Bounds::new(0),
        ExecCfg { points_on: false, phase_choices: phases, ..Default::default() },
        f,
    )
}

/// C04 / C01: walk across the deadlines of two coexisting deliveries in 1 ms steps with a request to the
/// subscription at every step: nothing is lost, nothing comes back early, everything is back by deadline + slack.
pub fn deadline_walk(thorough: bool) -> Unit {
    let gaps: Vec<u64> = if thorough { vec![0, 1, 2, 3, 5, 9, 10, 11, 50, 99, 100, 101] } else { vec![0, 1, 3, 9, 11, 50] };
    let phases: Vec<u64> = if thorough { vec![0, 1_000, 37_000, 50_500, 99_000] } else { vec![0, 37_000, 99_000] };
    let f: ScenFn = scen!([gaps] |cx| {
        let gap = gaps[cx.choose("gap-ms", gaps.len())];
        let n = [2usize, 3, 12, 40][cx.choose("deliveries", 4)];
        let a = cx.api.clone();
        let fail = |what: &str| ScenarioOut::viol(format!("setup/{}", what), what.to_string());
        if tryv!(cx.settle("setup:create-topic", { let a = a.clone(); async move { a.create_topic(T0).await } }).await).is_err() { return fail("create-topic"); }
        if tryv!(cx.settle("setup:create-sub", { let a = a.clone(); async move { a.create_sub(S0, T0, 10, None).await } }).await).is_err() { return fail("create-sub"); }
        let total = n + 1;
        if tryv!(cx.settle("setup:publish", { let a = a.clone(); async move { a.publish(T0, (0..total).map(|i| (format!("m{}", i).into_bytes(), vec![])).collect()).await } }).await).is_err() { return fail("publish"); }
        let mut los = vec![];
        for i in 0..n {
            if i > 0 {
                let was = cx.freeze(true);
                let q = cx.advance_ms(gap).await;
                cx.freeze(was);
                tryv!(q);
            }
            let got = tryv!(cx.settle("client:pull", { let a = a.clone(); async move { a.pull(S0, 1, true).await } }).await);
            if got.map(|v| v.len()) != Ok(1) { return fail("pull"); }
            los.push(cx.now_ms() + 10_000);
        }
        let (first, last) = (los[0], *los.last().unwrap());
        let case = format!("gap={}ms deliveries={}", gap, n);
        let mut prev_backlog = total - n;
        let base = total - n;
        for t in first - 2..=last + SLACK_MS + 2 {
            let was = cx.freeze(true);
            let q = cx.advance_to_ms(t).await;
            cx.freeze(was);
            tryv!(q);
            // the stats request is itself a request that reaches the subscription actor between two expiries
            let Some(st) = tryv!(cx.stats(S0).await) else { return fail("stats") };
            if st.backlog + st.outstanding != total {
                return ScenarioOut::viol("deadline-walk/message-lost-or-duplicated", format!("{}: at t={} ms the subscription holds backlog={} outstanding={} ({} unacknowledged messages exist)", case, t, st.backlog, st.outstanding, total));
            }
            let must_hold = los.iter().filter(|lo| t < **lo).count();
            let must_be_back = los.iter().filter(|lo| t >= **lo + SLACK_MS).count();
            if st.outstanding < must_hold {
                return ScenarioOut::viol("deadline-walk/redelivered-early", format!("{}: at t={} ms only {} deliveries are still leased, {} deadlines have not been reached", case, t, st.outstanding, must_hold));
            }
            if st.backlog < base + must_be_back {
                return ScenarioOut::viol("deadline-walk/redelivered-late", format!("{}: at t={} ms backlog={} although {} deadlines passed more than {} ms ago", case, t, st.backlog, must_be_back, SLACK_MS));
            }
            if st.backlog < prev_backlog {
                return ScenarioOut::viol("deadline-walk/backlog-shrank", format!("{}: at t={} ms backlog went from {} to {} without any pull", case, t, prev_backlog, st.backlog));
            }
            prev_backlog = st.backlog;
        }
        // and they are really deliverable again
        let got = tryv!(cx.settle("client:pull", { let a = a.clone(); async move { a.pull(S0, 1000, true).await } }).await);
        if got.as_ref().map(|v| v.len()) != Ok(total) {
            return ScenarioOut::viol("deadline-walk/not-deliverable", format!("{}: the final Pull returned {:?} messages", case, got.map(|v| v.len())));
        }
        ScenarioOut { sample: Some(case.clone()), ..ScenarioOut::ok(case) }
    });
    explore_unit(
        "input/deadline-walk",
        format!("2, 3, 12 or 40 deliveries handed out {:?} ms apart, phases {:?} µs; the clock walks in 1 ms steps from 2 ms before the first deadline to 107 ms after the last, with a request to the subscription actor at every step: nothing lost or duplicated, nothing back before its deadline, everything back by deadline + {} ms", gaps, phases, SLACK_MS),
        Bounds::new(0),
        ExecCfg { points_on: false, phase_choices: phases, ..Default::default() },
        f,
    )
}

/// C04 / C01: a large batch expires at the very instant at which a request reaches the subscription.
pub fn big_batch_expiry_race(thorough: bool) -> Unit {
    let f: ScenFn = scen!(|cx| {
        let n = [2usize, 255, 256, 300, 1000][cx.choose("batch", 5)];
        let a = cx.api.clone();
        let fail = |what: &str| ScenarioOut::viol(format!("setup/{}", what), what.to_string());
        if tryv!(cx.settle("setup:create-topic", { let a = a.clone(); async move { a.create_topic(T0).await } }).await).is_err() { return fail("create-topic"); }
        if tryv!(cx.settle("setup:create-sub", { let a = a.clone(); async move { a.create_sub(S0, T0, 10, None).await } }).await).is_err() { return fail("create-sub"); }
        if tryv!(cx.settle("setup:publish", { let a = a.clone(); async move { a.publish(T0, (0..n).map(|i| (format!("{}", i).into_bytes(), vec![])).collect()).await } }).await).is_err() { return fail("publish"); }
        let got = tryv!(cx.settle("setup:pull", { let a = a.clone(); async move { a.pull(S0, 1000, true).await } }).await);
        if got.map(|v| v.len()) != Ok(n) { return fail("pull"); }
        let was = cx.freeze(true);
        let q = cx.advance_to_ms(9_999).await;
        cx.freeze(was);
        tryv!(q);
        // the clock reaches the deadline and, in the same scheduler turn, requests arrive
        let kind = cx.choose("coincident-request", 3);
        tokio::time::advance(std::time::Duration::from_millis(2)).await;
        let mut hs = vec![];
        for i in 0..2 {
            let a2 = a.clone();
            hs.push(cx.spawn(&format!("client:{}-probe", i), async move {
                match kind {
                    0 => { let _ = a2.get_sub(S0).await; }
                    1 => { let _ = a2.publish(T0, vec![(b"new".to_vec(), vec![])]).await; }
                    _ => { let _ = a2.ack(S0, vec!["999999".into()]).await; }
                }
            }));
        }
        tryv!(cx.quiesce().await);
        let extra = if kind == 1 { 2 } else { 0 };
        let case = format!("batch={} coincident={}", n, ["GetSubscription", "Publish", "Acknowledge(unknown)"][kind]);
        let Some(st) = tryv!(cx.stats(S0).await) else { return fail("stats") };
        if st.backlog + st.outstanding != n + extra {
            return ScenarioOut::viol("expiry-race/message-lost-or-duplicated", format!("{}: at the deadline the subscription holds backlog={} outstanding={} ({} unacknowledged messages exist)", case, st.backlog, st.outstanding, n + extra));
        }
        let was = cx.freeze(true);
        let q = cx.advance_to_ms(10_000 + SLACK_MS).await;
        cx.freeze(was);
        tryv!(q);
        let Some(st) = tryv!(cx.stats(S0).await) else { return fail("stats") };
        if st.backlog != n + extra || st.outstanding != 0 {
            return ScenarioOut::viol("expiry-race/not-redelivered", format!("{}: after deadline + slack backlog={} outstanding={}", case, st.backlog, st.outstanding));
        }
        ScenarioOut { sample: Some(case.clone()), ..ScenarioOut::ok(case) }
    });
    explore_unit(
        "sched/big-batch-expiry-race",
        "2 / 255 / 256 / 300 / 1000 deliveries of one Pull expire at the instant at which two requests (GetSubscription | Publish | Acknowledge) reach the subscription; every order of the expiry, the requests and the actor's select! within the deviation bound; nothing lost, everything redelivered by deadline + slack",
        Bounds::new(if thorough { 3 } else { 2 }),
        ExecCfg { max_steps: 200_000, ..Default::default() },
        f,
    )
}

/// C04: the deadline counts from the HAND-OUT, also when the consumer had been waiting for a while.
pub fn waiting_consumer_handout(_thorough: bool) -> Unit {
    let f: ScenFn = scen!(|cx| {
        let a = cx.api.clone();
        let fail = |what: &str| ScenarioOut::viol(format!("setup/{}", what), what.to_string());
        let dl = [10, 30][cx.choose("ack_deadline_seconds", 2)];
        if tryv!(cx.settle("setup:create-topic", { let a = a.clone(); async move { a.create_topic(T0).await } }).await).is_err() { return fail("create-topic"); }
        if tryv!(cx.settle("setup:create-sub", { let a = a.clone(); async move { a.create_sub(S0, T0, dl, None).await } }).await).is_err() { return fail("create-sub"); }
        let kind = cx.choose("consumer", 3);
        let wait_ms = [0u64, 4_200, 12_000, 200_000][cx.choose("waits-before-the-message", 4)];
        let got: std::sync::Arc<std::sync::Mutex<Vec<(i64, usize)>>> = Default::default();
        let (a2, g2, cx2) = (a.clone(), got.clone(), cx.clone());
        let h = cx.spawn("client:consumer", async move {
            match kind {
                0 => { if let Ok(v) = a2.pull(S0, 1, false).await { g2.lock().unwrap().push((cx2.now_ms(), v.len())); } }
                1 => { if let Ok(v) = a2.pull(S0, 10, false).await { g2.lock().unwrap().push((cx2.now_ms(), v.len())); } }
                _ => {
                    let (tx, r) = a2.streaming_pull(crate::world::first_stream_req(S0, 10)).await;
                    if let Ok(mut st) = r { let _k = tx; while let Ok(Some(m)) = st.message().await { g2.lock().unwrap().push((cx2.now_ms(), m.received_messages.len())); } }
                }
            }
        });
        // the consumer's request reaches the server now, and only then time passes
        let was = cx.freeze(true);
        let q0 = cx.quiesce().await;
        let q = cx.advance_ms(wait_ms).await;
        cx.freeze(was);
        tryv!(q0);
        tryv!(q);
        if tryv!(cx.settle("client:publish", { let a = a.clone(); async move { a.publish(T0, vec![(b"m".to_vec(), vec![])]).await } }).await).is_err() { return fail("publish"); }
        let t_h = cx.now_ms();
        let case = format!("consumer={} waited {} ms, ack deadline {} s", ["blocking Pull max 1", "blocking Pull max 10", "StreamingPull"][kind], wait_ms, dl);
        if got.lock().unwrap().first().map(|x| x.1) != Some(1) {
            return ScenarioOut::viol("handout/not-delivered", format!("{}: the waiting consumer did not get the message at once ({:?})", case, got.lock().unwrap()));
        }
        let d = dl as i64 * 1000;
        let was = cx.freeze(true);
        let q = cx.advance_to_ms(t_h + d - 1).await;
        cx.freeze(was);
        tryv!(q);
        let st = tryv!(cx.stats(S0).await).unwrap();
        // (a stream is still open and takes a redelivery at once: count what it received)
        let redelivered_early = st.backlog > 0 || got.lock().unwrap().len() > 1;
        if redelivered_early {
            return ScenarioOut::viol("handout/redelivered-early", format!("{}: handed out at {} ms, already available again at {} ms (1 ms before the deadline)", case, t_h, t_h + d - 1));
        }
        let was = cx.freeze(true);
        let q = cx.advance_to_ms(t_h + d + SLACK_MS).await;
        cx.freeze(was);
        tryv!(q);
        let st = tryv!(cx.stats(S0).await).unwrap();
        let back = st.backlog > 0 || got.lock().unwrap().len() > 1;
        if !back {
            return ScenarioOut::viol("handout/redelivered-late", format!("{}: handed out at {} ms, still not available again at deadline + {} ms", case, t_h, SLACK_MS));
        }
        h.abort();
        ScenarioOut { sample: Some(case.clone()), ..ScenarioOut::ok(case) }
    });
    explore_unit("input/waiting-consumer-handout", "a blocking Pull (max 1 / 10) or an open StreamingPull has been waiting 0 / 4.2 / 12 / 200 s when the message is published; ack deadline 10 / 30 s: still leased 1 ms before hand-out + deadline, available again by + 105 ms", Bounds::new(0), ExecCfg { points_on: false, uptime_choices_ms: vec![0, UPTIMES_MS[0]], ..Default::default() }, f)
}
