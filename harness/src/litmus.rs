//! `sched` mode litmus programs: a few client tasks, each a short list of operations, started together
//! and explored over all scheduling choices; the recorded call/return history is what oracles judge.
use crate::explore::Verdict;
use crate::props::c12::Holder;
use crate::world::*;
use std::sync::{Arc, Mutex};

#[derive(Clone, Debug, PartialEq)]
pub enum COp {
    CreateTopic(&'static str),
    DeleteTopic(&'static str),
    GetTopic(&'static str),
    CreateSub(&'static str, &'static str),
    DeleteSub(&'static str),
    GetSub(&'static str),
    Publish(&'static str, usize),
    /// n messages of `bytes` bytes each
    PublishBig(&'static str, usize, usize),
    PullNow(&'static str, i32),
    PullBlock(&'static str, i32),
    /// ack / nack / modify the i-th delivery this client (or the setup, see `held`) received
    AckHeld(&'static str, usize),
    NackHeld(&'static str, usize),
    ModHeld(&'static str, usize, i32),
    /// ack / nack everything this client received in its previous operation
    AckLast(&'static str),
    NackLast(&'static str),
    ListTopics,
    ListSubs,
    ListTopicSubs(&'static str),
    /// open a StreamingPull (request side kept open) and read it until it ends; with `take`, the client goes on
    /// to its next operation after that many messages
    Stream(&'static str, i64),
    Sleep(u64),
}

#[derive(Clone, Debug, PartialEq)]
pub enum R {
    Pending,
    Unit(Result<(), Code>),
    Ids(Result<Vec<String>, Code>),
    Msgs(Result<Vec<Rm>, Code>),
    Names(Result<Vec<String>, Code>),
    Name(Result<String, Code>),
    View(Result<SubView, Code>),
    StreamOpened,
}

impl R {
    pub fn short(&self) -> String {
        match self {
            R::Pending => "PENDING".into(),
            R::Unit(r) => r.as_ref().map(|_| "OK".to_string()).unwrap_or_else(|c| format!("{:?}", c)),
            R::Ids(r) => r.as_ref().map(|v| format!("OK[{}]", v.len())).unwrap_or_else(|c| format!("{:?}", c)),
            R::Msgs(r) => r.as_ref().map(|v| format!("OK({})", v.len())).unwrap_or_else(|c| format!("{:?}", c)),
            R::Names(r) => r.as_ref().map(|v| format!("OK{{{}}}", v.iter().map(|n| n.rsplit('/').next().unwrap_or("")).collect::<Vec<_>>().join(","))).unwrap_or_else(|c| format!("{:?}", c)),
            R::Name(r) => r.as_ref().map(|_| "OK".to_string()).unwrap_or_else(|c| format!("{:?}", c)),
            R::View(r) => r.as_ref().map(|v| format!("OK->{}", v.topic.rsplit('/').next().unwrap_or(""))).unwrap_or_else(|c| format!("{:?}", c)),
            R::StreamOpened => "OPEN".into(),
        }
    }
    pub fn code(&self) -> Option<Code> {
        match self {
            R::Unit(Err(c)) | R::Ids(Err(c)) | R::Msgs(Err(c)) | R::Names(Err(c)) | R::Name(Err(c)) | R::View(Err(c)) => Some(*c),
            _ => None,
        }
    }
    pub fn is_ok(&self) -> bool {
        !matches!(self, R::Pending) && self.code().is_none()
    }
}

#[derive(Clone, Debug)]
pub struct Call {
    pub client: usize,
    pub op: COp,
    /// for stream batches / stream end: the sub and what happened
    pub note: &'static str,
    pub invoke_step: u64,
    pub invoke_ms: i64,
    pub ret_step: Option<u64>,
    pub ret_ms: i64,
    pub result: R,
    /// the ack ids an ack / nack / modify operation carried
    pub arg_ids: Vec<String>,
}

#[derive(Clone, Default)]
pub struct Hist(pub Arc<Mutex<Vec<Call>>>);

impl Hist {
    fn invoke(&self, cx: &Ctx, client: usize, op: &COp, note: &'static str) -> usize {
        let mut h = self.0.lock().unwrap();
        h.push(Call { client, op: op.clone(), note, invoke_step: cx.step(), invoke_ms: cx.now_ms(), ret_step: None, ret_ms: 0, result: R::Pending, arg_ids: vec![] });
        h.len() - 1
    }
    fn set_ids(&self, idx: usize, ids: &[String]) {
        self.0.lock().unwrap()[idx].arg_ids = ids.to_vec();
    }
    fn ret(&self, cx: &Ctx, idx: usize, r: R) {
        let mut h = self.0.lock().unwrap();
        h[idx].ret_step = Some(cx.step());
        h[idx].ret_ms = cx.now_ms();
        h[idx].result = r;
    }
    pub fn calls(&self) -> Vec<Call> {
        self.0.lock().unwrap().clone()
    }
    /// order-insensitive-between-clients summary for the outcome histogram
    pub fn key(&self) -> String {
        let h = self.0.lock().unwrap();
        let mut per: std::collections::BTreeMap<usize, Vec<String>> = Default::default();
        for c in h.iter() {
            per.entry(c.client).or_default().push(format!("{}{}", if c.note.is_empty() { "" } else { c.note }, c.result.short()));
        }
        per.into_iter().map(|(k, v)| format!("c{}[{}]", k, v.join(","))).collect::<Vec<_>>().join(" ")
    }
    pub fn pending(&self) -> Vec<Call> {
        self.0.lock().unwrap().iter().filter(|c| c.result == R::Pending).cloned().collect()
    }
}

pub struct Litmus {
    pub hist: Hist,
    pub handles: Vec<tokio::task::JoinHandle<()>>,
    pub holder: Holder,
}

/// Starts the client programs (client k is labelled `client:<k>` so that clients sort before the actors).
/// `held[k]` are deliveries handed to client k before the race (by the setup).
pub fn start(cx: &Ctx, programs: &[Vec<COp>], held: &[Vec<Rm>]) -> Litmus {
    let hist = Hist::default();
    let holder: Holder = Default::default();
    let mut handles = vec![];
    for (k, prog) in programs.iter().enumerate() {
        let (cx2, hist2, prog2, holder2) = (cx.clone(), hist.clone(), prog.clone(), holder.clone());
        let mut mine: Vec<Rm> = held.get(k).cloned().unwrap_or_default();
        handles.push(cx.spawn(&format!("client:{:02}", k), async move {
            let a = cx2.api.clone();
            let mut last: Vec<Rm> = vec![];
            for op in prog2 {
                let i = hist2.invoke(&cx2, k, &op, "");
                let r = match op.clone() {
                    COp::CreateTopic(t) => R::Name(a.create_topic(t).await),
                    COp::DeleteTopic(t) => R::Unit(a.delete_topic(t).await),
                    COp::GetTopic(t) => R::Name(a.get_topic(t).await),
                    COp::CreateSub(s, t) => R::View(a.create_sub(s, t, 10, None).await),
                    COp::DeleteSub(s) => R::Unit(a.delete_sub(s).await),
                    COp::GetSub(s) => R::View(a.get_sub(s).await),
                    COp::Publish(t, n) => R::Ids(a.publish(t, (0..n).map(|j| (format!("c{}-{}", k, j).into_bytes(), vec![])).collect()).await),
                    COp::PublishBig(t, n, bytes) => R::Ids(a.publish(t, (0..n).map(|j| (vec![b'a' + (k as u8 % 20) + (j as u8 % 3); bytes], vec![])).collect()).await),
                    COp::PullNow(s, max) | COp::PullBlock(s, max) => {
                        let r = a.pull(s, max, matches!(op, COp::PullNow(..))).await;
                        if let Ok(v) = &r {
                            mine.extend(v.iter().cloned());
                            last = v.clone();
                        }
                        R::Msgs(r)
                    }
                    COp::AckHeld(s, j) | COp::NackHeld(s, j) | COp::ModHeld(s, j, _) => {
                        let ids: Vec<String> = mine.get(j).map(|m| vec![m.ack_id.clone()]).unwrap_or_default();
                        hist2.set_ids(i, &ids);
                        match op {
                            COp::AckHeld(..) => R::Unit(a.ack(s, ids).await),
                            COp::NackHeld(..) => R::Unit(a.modify(s, ids, 0).await),
                            COp::ModHeld(_, _, secs) => R::Unit(a.modify(s, ids, secs).await),
                            _ => unreachable!(),
                        }
                    }
                    COp::AckLast(s) | COp::NackLast(s) => {
                        let ids: Vec<String> = last.iter().map(|m| m.ack_id.clone()).collect();
                        hist2.set_ids(i, &ids);
                        if matches!(op, COp::AckLast(..)) {
                            R::Unit(a.ack(s, ids).await)
                        } else {
                            R::Unit(a.modify(s, ids, 0).await)
                        }
                    }
                    COp::ListTopics => R::Names(a.list_topics("projects/p", 1000, "").await.map(|x| x.0)),
                    COp::ListSubs => R::Names(a.list_subs("projects/p", 1000, "").await.map(|x| x.0.into_iter().map(|v| v.name).collect())),
                    COp::ListTopicSubs(t) => R::Names(a.list_topic_subs(t, 1000, "").await.map(|x| x.0)),
                    COp::Sleep(ms) => {
                        tokio::time::sleep(std::time::Duration::from_millis(ms)).await;
                        R::Unit(Ok(()))
                    }
                    COp::Stream(s, max) => {
                        let (tx, r) = a.streaming_pull(first_stream_req(s, max)).await;
                        holder2.lock().unwrap().push(tx);
                        match r {
                            Err(c) => R::Unit(Err(c)),
                            Ok(mut st) => {
                                hist2.ret(&cx2, i, R::StreamOpened);
                                loop {
                                    let bi = hist2.invoke(&cx2, k, &op, "batch:");
                                    match st.message().await {
                                        Ok(Some(m)) => {
                                            let v: Vec<Rm> = m.received_messages.iter().map(to_rm).collect();
                                            mine.extend(v.iter().cloned());
                                            hist2.ret(&cx2, bi, R::Msgs(Ok(v)));
                                        }
                                        Ok(None) => {
                                            hist2.ret(&cx2, bi, R::Unit(Ok(())));
                                            break;
                                        }
                                        Err(e) => {
                                            hist2.ret(&cx2, bi, R::Unit(Err(e.code())));
                                            break;
                                        }
                                    }
                                }
                                continue;
                            }
                        }
                    }
                };
                hist2.ret(&cx2, i, r);
            }
        }));
    }
    Litmus { hist, handles, holder }
}

impl Litmus {
    pub fn all_done(&self) -> bool {
        self.handles.iter().all(|h| h.is_finished())
    }
    /// Calls that are not an open stream's pending read.
    pub fn pending_non_stream(&self) -> Vec<Call> {
        self.hist.pending().into_iter().filter(|c| !matches!(c.op, COp::Stream(..))).collect()
    }
    /// Ends open streams from the client side (drops both directions) and lets the server notice.
    pub async fn close_streams(&self, cx: &Ctx) -> Result<(), Verdict> {
        self.holder.lock().unwrap().clear();
        for h in &self.handles {
            if !h.is_finished() {
                h.abort();
            }
        }
        let was = cx.freeze(true);
        let q = cx.quiesce().await;
        cx.freeze(was);
        q
    }
}

/// Termination oracle shared by several properties: after quiescence and one more second of virtual time every
/// unary call has returned; blocking pulls by their wait limit.
pub async fn await_termination(cx: &Ctx, l: &Litmus, what: &str) -> Result<(), Verdict> {
    cx.quiesce().await?;
    cx.advance_ms(1000).await?;
    let stuck: Vec<Call> = l.pending_non_stream().into_iter().filter(|c| !matches!(c.op, COp::PullBlock(..) | COp::Sleep(..))).collect();
    if let Some(c) = stuck.first() {
        return Err(Verdict::Violation {
            sig: format!("{}/hang/{}", what, format!("{:?}", c.op).split('(').next().unwrap_or("")),
            detail: format!(
                "client {} is still waiting for {:?} one second after the server went quiescent; history: {}; tasks still alive: {:?}",
                c.client,
                c.op,
                l.hist.key(),
                cx.pending_tasks()
            ),
        });
    }
    if l.pending_non_stream().iter().any(|c| matches!(c.op, COp::PullBlock(..) | COp::Sleep(..))) {
        cx.advance_ms(300_000 + SLACK_MS as u64).await?;
        if let Some(c) = l.pending_non_stream().first() {
            return Err(Verdict::Violation {
                sig: format!("{}/hang/{}", what, format!("{:?}", c.op).split('(').next().unwrap_or("")),
                detail: format!("client {} is still waiting for {:?} after the server-side wait limit; history: {}", c.client, c.op, l.hist.key()),
            });
        }
    }
    Ok(())
}
