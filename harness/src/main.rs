//! dsched: deterministic exhaustive scheduler / enumerator for the deltio properties.
mod engine;
mod explore;
mod litmus;
mod model;
mod props;
mod report;
mod scen;
mod seq;
mod world;

fn usage() -> ! {
    eprintln!("usage: dsched check <ID> [--tier quick|thorough] [--threads N] [--unit NAME]\n       dsched replay <file>\n       dsched units <ID> [--tier ..]");
    std::process::exit(2)
}

fn main() {
    let args: Vec<String> = std::env::args().collect();
    if args.len() < 3 {
        usage();
    }
    let mut tier = std::env::var("VERIF_TIER").unwrap_or_else(|_| "quick".into());
    let mut threads = std::thread::available_parallelism().map(|n| n.get()).unwrap_or(8).min(16);
    let mut unit: Option<String> = None;
    let mut i = 3;
    while i < args.len() {
        match args[i].as_str() {
            "--tier" => {
                tier = args.get(i + 1).cloned().unwrap_or_else(|| usage());
                i += 2;
            }
            "--threads" => {
                threads = args.get(i + 1).and_then(|s| s.parse().ok()).unwrap_or_else(|| usage());
                i += 2;
            }
            "--unit" => {
                unit = Some(args.get(i + 1).cloned().unwrap_or_else(|| usage()));
                i += 2;
            }
            _ => usage(),
        }
    }
    if tier != "quick" && tier != "thorough" {
        usage();
    }
    world::init_process();
    match args[1].as_str() {
        "check" => {
            let id = args[2].to_uppercase();
            let Some(units) = props::units(&id, &tier) else {
                eprintln!("unknown property {}", id);
                std::process::exit(2)
            };
            let code = report::run_property(&id, &tier, units, threads, unit.as_deref());
            std::process::exit(code);
        }
        "units" => {
            let id = args[2].to_uppercase();
            for u in props::units(&id, &tier).unwrap_or_default() {
                println!("{}\t{}", u.name, u.desc);
            }
        }
        "replay" => {
            std::process::exit(props::replay(&args[2]));
        }
        _ => usage(),
    }
}
