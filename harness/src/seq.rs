//! `seq` mode: every sequence of operations over a small alphabet up to a depth, run on the real server,
//! each response (and the internal stats of every subscription after every step) checked against `Model`.
use crate::explore::*;
use crate::model::*;
use crate::report::Unit;
use crate::scen::*;
use crate::world::*;
use crate::{scen, tryv};

#[derive(Clone, Debug, PartialEq)]
pub enum Which {
    Oldest,
    Newest,
}

#[derive(Clone, Debug, PartialEq)]
pub enum Op {
    CreateTopic(&'static str),
    DeleteTopic(&'static str),
    GetTopic(&'static str),
    CreateSub(&'static str, &'static str, i32),
    DeleteSub(&'static str),
    GetSub(&'static str),
    Publish(&'static str, usize),
    Pull(&'static str, i32),
    Ack(&'static str, Which),
    AckAll(&'static str),
    /// an id that was valid once (acked / expired / nacked delivery)
    AckStale(&'static str),
    AckUnknown(&'static str),
    Nack(&'static str, Which),
    Mod(&'static str, Which, i32),
    /// to 1 ms before the earliest lease deadline
    AdvBefore,
    /// just past the earliest lease deadline (deadline + slack)
    AdvPast,
    Adv(i64),
    ListTopics(&'static str, i32),
    ListSubs(&'static str, i32),
    ListTopicSubs(&'static str, i32),
    /// acknowledge through a StreamingPull control message (stream opened on demand, kept open)
    StreamAck(&'static str, Which),
    StreamMod(&'static str, Which, i32),
    /// Acknowledge with an arbitrary id list (unary, or as a control message on a stream opened for it)
    AckIds(&'static str, Vec<IdKind>, bool),
    /// one StreamingPull control message with a deadline PER id (mixed extensions / nacks, duplicate ids)
    StreamModPairs(&'static str, Vec<(IdKind, i32)>),
    /// ModifyAckDeadline with an arbitrary id list (unary, or as a control message on a stream opened for it)
    ModIds(&'static str, Vec<IdKind>, i32, bool),
    /// open a StreamingPull on the subscription (kept open; its deliveries are fed to the model after every step)
    StreamOpen(&'static str, i64),
}

#[derive(Clone, Copy, Debug, PartialEq)]
pub enum IdKind {
    /// oldest / newest outstanding delivery
    A,
    B,
    Stale,
    Unknown,
    BadX,
    BadEmpty,
}

fn pick_id(m: &Model, sub: &str, w: &Which) -> Option<String> {
    let s = m.subs.get(sub)?;
    let mut ids: Vec<u64> = s.outstanding.keys().filter_map(|k| k.parse().ok()).collect();
    ids.sort();
    match w {
        Which::Oldest => ids.first().map(|i| i.to_string()),
        Which::Newest => ids.last().map(|i| i.to_string()),
    }
}

impl Op {
    /// Skips operations that cannot do anything new in the current model state (keeps the tree small);
    /// `strict=false` alphabets (namespace checks) keep every operation enabled.
    pub fn enabled(&self, m: &Model) -> bool {
        match self {
            Op::Ack(s, w) | Op::Nack(s, w) | Op::Mod(s, w, _) | Op::StreamAck(s, w) | Op::StreamMod(s, w, _) => pick_id(m, s, w).is_some(),
            Op::AckAll(s) => m.subs.get(*s).map(|s| !s.outstanding.is_empty()).unwrap_or(false),
            Op::AckStale(s) => m.subs.get(*s).map(|s| !s.stale_ack_ids.is_empty()).unwrap_or(false),
            Op::AckUnknown(s) => m.subs.contains_key(*s),
            Op::AdvBefore => m.earliest_lo().map(|lo| lo - 1 > m.now_ms).unwrap_or(false),
            Op::AdvPast => m.earliest_lo().is_some(),
            Op::StreamOpen(s, _) => m.subs.contains_key(*s),
            Op::StreamModPairs(s, pairs) => {
                let kinds: Vec<IdKind> = pairs.iter().map(|p| p.0).collect();
                m.subs.get(*s).map(|sub| (!kinds.contains(&IdKind::A) && !kinds.contains(&IdKind::B) || !sub.outstanding.is_empty()) && (!kinds.contains(&IdKind::Stale) || !sub.stale_ack_ids.is_empty())).unwrap_or(false)
            }
            Op::AckIds(s, kinds, _) | Op::ModIds(s, kinds, _, _) => {
                m.subs.get(*s).map(|sub| (!kinds.contains(&IdKind::A) && !kinds.contains(&IdKind::B) || !sub.outstanding.is_empty()) && (!kinds.contains(&IdKind::Stale) || !sub.stale_ack_ids.is_empty())).unwrap_or(false)
            }
            _ => true,
        }
    }
}

pub struct SeqCfg {
    pub name: String,
    pub desc: String,
    pub setup: Vec<Op>,
    pub alphabet: Vec<Op>,
    pub depth: usize,
    /// keep every op enabled regardless of model state
    pub all_enabled: bool,
    pub drain: bool,
    pub exec: ExecCfg,
    pub bounds: Bounds,
    /// run operations with scheduling choices recorded (deviations explored within bounds.d)
    pub unfrozen: bool,
}

pub struct SeqState {
    pub model: Model,
    pub trace: Vec<String>,
    pub states: Vec<u64>,
    pub payload_counter: u32,
    pub streams: std::collections::BTreeMap<String, StreamH>,
}

pub struct StreamH {
    pub tx: tokio::sync::mpsc::Sender<deltio::pubsub_proto::StreamingPullRequest>,
    pub inbox: std::sync::Arc<std::sync::Mutex<Vec<Vec<Rm>>>>,
    pub ended: std::sync::Arc<std::sync::Mutex<Option<String>>>,
    pub max: i64,
    pub reader: tokio::task::JoinHandle<()>,
}

async fn open_stream(cx: &Ctx, st: &mut SeqState, s: &'static str, max: i64, unfrozen: bool) -> Result<(), Verdict> {
    if st.streams.contains_key(s) {
        return Ok(());
    }
    let a2 = cx.api.clone();
    let (tx, r) = call(cx, unfrozen, "client:stream-open", async move { a2.streaming_pull(first_stream_req(s, max)).await }).await?;
    match r {
        Ok(stream) => {
            let inbox: std::sync::Arc<std::sync::Mutex<Vec<Vec<Rm>>>> = Default::default();
            let ended: std::sync::Arc<std::sync::Mutex<Option<String>>> = Default::default();
            let (i2, e2) = (inbox.clone(), ended.clone());
            let was = cx.freeze(!unfrozen);
            let reader = cx.spawn("client:stream-reader", async move {
                let mut stream = stream;
                loop {
                    match stream.message().await {
                        Ok(Some(m)) => i2.lock().unwrap().push(m.received_messages.iter().map(to_rm).collect()),
                        Ok(None) => {
                            *e2.lock().unwrap() = Some("EOF".into());
                            break;
                        }
                        Err(e) => {
                            *e2.lock().unwrap() = Some(format!("{:?}", e.code()));
                            break;
                        }
                    }
                }
            });
            let q = cx.quiesce().await;
            cx.freeze(was);
            q?;
            st.streams.insert(s.to_string(), StreamH { tx, inbox, ended, max, reader });
            Ok(())
        }
        Err(c) => Err(Verdict::Violation { sig: "stream/open-failed".into(), detail: format!("StreamingPull on existing {} failed with {:?}", s, c) }),
    }
}

/// Feeds what the open streams received to the model; an open stream must have taken everything available.
fn absorb_streams(st: &mut SeqState) -> Result<(), Verdict> {
    let names: Vec<String> = st.streams.keys().cloned().collect();
    for n in names {
        let batches: Vec<Vec<Rm>> = std::mem::take(&mut *st.streams[&n].inbox.lock().unwrap());
        let max = st.streams[&n].max;
        if !st.model.subs.contains_key(&n) {
            continue;
        }
        for b in batches {
            let lim = if max > 0 { Some(max) } else { None };
            st.model.deliveries(&n, lim, &b, false).map_err(|(sig, detail)| Verdict::Violation { sig: format!("stream-{}", sig), detail: format!("{} | after {:?}", detail, st.trace) })?;
        }
        if let Some(e) = st.streams[&n].ended.lock().unwrap().clone() {
            return Err(Verdict::Violation { sig: "stream/ended-unexpectedly".into(), detail: format!("the StreamingPull on live subscription {} ended with {} after {:?}", n, e, st.trace) });
        }
        if !st.model.subs[&n].queue.is_empty() {
            return Err(Verdict::Violation {
                sig: "stream/not-woken".into(),
                detail: format!("{} has {} available message(s) at quiescence although a StreamingPull is open on it, after {:?}", n, st.model.subs[&n].queue.len(), st.trace),
            });
        }
    }
    Ok(())
}

async fn call<T: Send + 'static>(cx: &Ctx, unfrozen: bool, label: &str, fut: impl std::future::Future<Output = T> + Send + 'static) -> Result<T, Verdict> {
    if !unfrozen {
        return cx.settle(label, fut).await;
    }
    let h = cx.spawn(label, fut);
    cx.quiesce().await?;
    if !h.is_finished() {
        h.abort();
        return Err(Verdict::Violation { sig: format!("hang/{}", label), detail: format!("request '{}' did not complete although the server is quiescent", label) });
    }
    h.await.map_err(|e| Verdict::Violation { sig: format!("panic/{}", label), detail: format!("{}", e) })
}

/// Fields a follow-up StreamingPull request may carry besides its payload (real clients repeat some of them).
fn ctl_extras(cx: &Ctx, mut req: deltio::pubsub_proto::StreamingPullRequest) -> deltio::pubsub_proto::StreamingPullRequest {
    match cx.choose("stream-ctl-extra-fields", 3) {
        1 => req.stream_ack_deadline_seconds = 10,
        2 => req.client_id = "client-1".into(),
        _ => {}
    }
    req
}

fn v2v(r: V, st: &SeqState, op: &str) -> Result<(), Verdict> {
    r.map_err(|(sig, detail)| Verdict::Violation { sig, detail: format!("{} | after sequence {:?} then {}", detail, st.trace, op) })
}

async fn walk_list<T: Send + 'static + Clone>(
    cx: &Ctx,
    unfrozen: bool,
    size: i32,
    fetch: impl Fn(Api, i32, String) -> futures::future::BoxFuture<'static, Result<(Vec<T>, String), Code>>,
) -> Result<Result<Vec<T>, Code>, Verdict> {
    let mut all = vec![];
    let mut token = String::new();
    let eff = if size == 0 { 20 } else { size.min(1000) } as usize;
    for _ in 0..10_000 {
        let r = call(cx, unfrozen, "client:list", fetch(cx.api.clone(), size, token.clone())).await?;
        match r {
            Err(c) => return Ok(Err(c)),
            Ok((items, next)) => {
                if items.len() > eff {
                    return Err(Verdict::Violation { sig: "list/page-over-size".into(), detail: format!("page of {} items with effective page size {}", items.len(), eff) });
                }
                all.extend(items);
                if next.is_empty() {
                    return Ok(Ok(all));
                }
                token = next;
            }
        }
    }
    Err(Verdict::Violation { sig: "list/endless-pagination".into(), detail: "next_page_token never became empty".into() })
}

pub async fn apply(cx: &Ctx, st: &mut SeqState, op: &Op, unfrozen: bool) -> Result<(), Verdict> {
    let a = cx.api.clone();
    let ops = format!("{:?}", op);
    match op.clone() {
        Op::CreateTopic(t) => {
            let r = call(cx, unfrozen, "client:create-topic", async move { a.create_topic(t).await }).await?;
            v2v(st.model.create_topic(t, &r), st, &ops)?;
        }
        Op::DeleteTopic(t) => {
            let r = call(cx, unfrozen, "client:delete-topic", async move { a.delete_topic(t).await }).await?;
            v2v(st.model.delete_topic(t, &r), st, &ops)?;
        }
        Op::GetTopic(t) => {
            let r = call(cx, unfrozen, "client:get-topic", async move { a.get_topic(t).await }).await?;
            v2v(st.model.get_topic(t, &r), st, &ops)?;
        }
        Op::CreateSub(s, t, dl) => {
            let r = call(cx, unfrozen, "client:create-sub", async move { a.create_sub(s, t, dl, None).await }).await?;
            v2v(st.model.create_sub(s, t, dl, None, &r), st, &ops)?;
            if r.is_ok() {
                st.streams.remove(s);
            }
        }
        Op::DeleteSub(s) => {
            let r = call(cx, unfrozen, "client:delete-sub", async move { a.delete_sub(s).await }).await?;
            v2v(st.model.delete_sub(s, &r), st, &ops)?;
            if r.is_ok() {
                st.streams.remove(s);
            }
        }
        Op::GetSub(s) => {
            let r = call(cx, unfrozen, "client:get-sub", async move { a.get_sub(s).await }).await?;
            v2v(st.model.get_sub(s, &r), st, &ops)?;
        }
        Op::Publish(t, k) => {
            let mut msgs = vec![];
            for _ in 0..k {
                st.payload_counter += 1;
                msgs.push((format!("payload-{}", st.payload_counter).into_bytes(), if st.payload_counter % 2 == 0 { vec![("k".to_string(), format!("v{}", st.payload_counter))] } else { vec![] }));
            }
            let m2 = msgs.clone();
            let r = call(cx, unfrozen, "client:publish", async move { a.publish(t, m2).await }).await?;
            v2v(st.model.publish(t, &msgs, &r), st, &ops)?;
        }
        Op::Pull(s, max) => {
            let r = call(cx, unfrozen, "client:pull", async move { a.pull(s, max, true).await }).await?;
            v2v(st.model.pull(s, max, &r), st, &ops)?;
        }
        Op::Ack(s, w) => {
            let id = pick_id(&st.model, s, &w).unwrap_or_else(|| "7777".into());
            let ids = vec![id];
            let i2 = ids.clone();
            let r = call(cx, unfrozen, "client:ack", async move { a.ack(s, i2).await }).await?;
            v2v(st.model.ack(s, &ids, &r), st, &ops)?;
        }
        Op::AckAll(s) => {
            let ids: Vec<String> = st.model.subs[s].outstanding.keys().cloned().collect();
            let i2 = ids.clone();
            let r = call(cx, unfrozen, "client:ack", async move { a.ack(s, i2).await }).await?;
            v2v(st.model.ack(s, &ids, &r), st, &ops)?;
        }
        Op::AckStale(s) => {
            let ids: Vec<String> = st.model.subs[s].stale_ack_ids.clone();
            let i2 = ids.clone();
            let r = call(cx, unfrozen, "client:ack-stale", async move { a.ack(s, i2).await }).await?;
            v2v(st.model.ack(s, &ids, &r), st, &ops)?;
        }
        Op::AckUnknown(s) => {
            let ids = vec!["9999".to_string(), "0".to_string()];
            let i2 = ids.clone();
            let r = call(cx, unfrozen, "client:ack-unknown", async move { a.ack(s, i2).await }).await?;
            v2v(st.model.ack(s, &ids, &r), st, &ops)?;
        }
        Op::Nack(s, w) => {
            let ids = vec![pick_id(&st.model, s, &w).unwrap_or_else(|| "7777".into())];
            let i2 = ids.clone();
            let r = call(cx, unfrozen, "client:nack", async move { a.modify(s, i2, 0).await }).await?;
            v2v(st.model.modify(s, &ids, 0, &r), st, &ops)?;
        }
        Op::Mod(s, w, secs) => {
            let ids = vec![pick_id(&st.model, s, &w).unwrap_or_else(|| "7777".into())];
            let i2 = ids.clone();
            let r = call(cx, unfrozen, "client:modify", async move { a.modify(s, i2, secs).await }).await?;
            v2v(st.model.modify(s, &ids, secs, &r), st, &ops)?;
        }
        Op::StreamAck(s, _) | Op::StreamMod(s, _, _) => {
            let w = match &op {
                Op::StreamAck(_, w) | Op::StreamMod(_, w, _) => w.clone(),
                _ => unreachable!(),
            };
            open_stream(cx, st, s, 1000, unfrozen).await?;
            absorb_streams(st)?;
            let id = match pick_id(&st.model, s, &w) { Some(id) => id, None => { st.trace.push(format!("{} (nothing outstanding any more)", ops)); return check_world(cx, st).await; } };
            // the queue must be empty while a stream is open in seq mode, otherwise the stream would race the Pull ops
            let tx = st.streams[s].tx.clone();
            let req = match &op {
                Op::StreamAck(..) => deltio::pubsub_proto::StreamingPullRequest { ack_ids: vec![id.clone()], ..Default::default() },
                Op::StreamMod(_, _, secs) => deltio::pubsub_proto::StreamingPullRequest { modify_deadline_ack_ids: vec![id.clone()], modify_deadline_seconds: vec![*secs], ..Default::default() },
                _ => unreachable!(),
            };
            let req = ctl_extras(cx, req);
            call(cx, unfrozen, "client:stream-ctl", async move { tx.send(req).await.is_ok() }).await?;
            let ids = vec![id];
            match &op {
                Op::StreamAck(..) => v2v(st.model.ack(s, &ids, &Ok(())), st, &ops)?,
                Op::StreamMod(_, _, secs) => v2v(st.model.modify(s, &ids, *secs, &Ok(())), st, &ops)?,
                _ => unreachable!(),
            }
        }
        Op::StreamOpen(s, max) => {
            open_stream(cx, st, s, max, unfrozen).await?;
        }
        Op::AckIds(s, kinds, via_stream) => {
            let ids: Vec<String> = kinds
                .iter()
                .map(|k| match k {
                    IdKind::A => pick_id(&st.model, s, &Which::Oldest).unwrap_or_else(|| "7777".into()),
                    IdKind::B => pick_id(&st.model, s, &Which::Newest).unwrap_or_else(|| "7778".into()),
                    IdKind::Stale => st.model.subs[s].stale_ack_ids.first().cloned().unwrap_or_else(|| "7779".into()),
                    IdKind::Unknown => "9999".into(),
                    IdKind::BadX => "x".into(),
                    IdKind::BadEmpty => "".into(),
                })
                .collect();
            if !via_stream {
                let i2 = ids.clone();
                let r = call(cx, unfrozen, "client:ack", async move { a.ack(s, i2).await }).await?;
                v2v(st.model.ack(s, &ids, &r), st, &ops)?;
            } else {
                open_stream(cx, st, s, 1000, unfrozen).await?;
                absorb_streams(st)?;
                let tx = st.streams[s].tx.clone();
                let req = ctl_extras(cx, deltio::pubsub_proto::StreamingPullRequest { ack_ids: ids.clone(), ..Default::default() });
                call(cx, unfrozen, "client:stream-ctl", async move { tx.send(req).await.is_ok() }).await?;
                let ended = st.streams[s].ended.lock().unwrap().clone();
                let r: Result<(), Code> = match ended.as_deref() {
                    None => Ok(()),
                    Some("InvalidArgument") => Err(Code::InvalidArgument),
                    Some(other) => return Err(Verdict::Violation { sig: "stream/odd-termination".into(), detail: format!("control message ack {:?} ended the stream with {}", ids, other) }),
                };
                if r.is_err() {
                    let h = st.streams.remove(s).unwrap();
                    h.reader.abort();
                }
                v2v(st.model.ack(s, &ids, &r), st, &ops)?;
            }
        }
        Op::StreamModPairs(s, pairs) => {
            let resolve = |k: &IdKind, m: &Model| match k {
                IdKind::A => pick_id(m, s, &Which::Oldest).unwrap_or_else(|| "7777".into()),
                IdKind::B => pick_id(m, s, &Which::Newest).unwrap_or_else(|| "7778".into()),
                IdKind::Stale => m.subs[s].stale_ack_ids.first().cloned().unwrap_or_else(|| "7779".into()),
                IdKind::Unknown => "9999".into(),
                IdKind::BadX => "x".into(),
                IdKind::BadEmpty => "".into(),
            };
            open_stream(cx, st, s, 1000, unfrozen).await?;
            absorb_streams(st)?;
            let ids: Vec<String> = pairs.iter().map(|(k, _)| resolve(k, &st.model)).collect();
            let secs: Vec<i32> = pairs.iter().map(|(_, n)| *n).collect();
            let tx = st.streams[s].tx.clone();
            let req = deltio::pubsub_proto::StreamingPullRequest { modify_deadline_ack_ids: ids.clone(), modify_deadline_seconds: secs.clone(), ..Default::default() };
            call(cx, unfrozen, "client:stream-ctl", async move { tx.send(req).await.is_ok() }).await?;
            let ended = st.streams[s].ended.lock().unwrap().clone();
            let malformed = ids.iter().any(|i| i.parse::<u64>().is_err()) || secs.iter().any(|n| *n < 0);
            match (ended.as_deref(), malformed) {
                (None, false) => {
                    // applied one by one, in order (a later entry for the same id wins)
                    for (id, n) in ids.iter().zip(secs.iter()) {
                        v2v(st.model.modify(s, &[id.clone()], *n, &Ok(())), st, &ops)?;
                    }
                }
                (Some("InvalidArgument"), true) => {
                    let h = st.streams.remove(s).unwrap();
                    h.reader.abort();
                }
                (e, _) => return Err(Verdict::Violation { sig: "stream/modify-pairs-wrong-answer".into(), detail: format!("control message ids {:?} seconds {:?}: stream ended with {:?}, malformed = {}", ids, secs, e, malformed) }),
            }
        }
        Op::ModIds(s, kinds, secs, via_stream) => {
            let ids: Vec<String> = kinds
                .iter()
                .map(|k| match k {
                    IdKind::A => pick_id(&st.model, s, &Which::Oldest).unwrap_or_else(|| "7777".into()),
                    IdKind::B => pick_id(&st.model, s, &Which::Newest).unwrap_or_else(|| "7778".into()),
                    IdKind::Stale => st.model.subs[s].stale_ack_ids.first().cloned().unwrap_or_else(|| "7779".into()),
                    IdKind::Unknown => "9999".into(),
                    IdKind::BadX => "x".into(),
                    IdKind::BadEmpty => "".into(),
                })
                .collect();
            if !via_stream {
                let i2 = ids.clone();
                let r = call(cx, unfrozen, "client:modify", async move { a.modify(s, i2, secs).await }).await?;
                v2v(st.model.modify(s, &ids, secs, &r), st, &ops)?;
            } else {
                open_stream(cx, st, s, 1000, unfrozen).await?;
                absorb_streams(st)?;
                let tx = st.streams[s].tx.clone();
                let req = deltio::pubsub_proto::StreamingPullRequest { modify_deadline_seconds: vec![secs; ids.len()], modify_deadline_ack_ids: ids.clone(), ..Default::default() };
                call(cx, unfrozen, "client:stream-ctl", async move { tx.send(req).await.is_ok() }).await?;
                // a rejected control message terminates the stream with its status; an accepted one leaves it open
                let ended = st.streams[s].ended.lock().unwrap().clone();
                let r: Result<(), Code> = match ended.as_deref() {
                    None => Ok(()),
                    Some("InvalidArgument") => Err(Code::InvalidArgument),
                    Some("NotFound") => Err(Code::NotFound),
                    Some(other) => return Err(Verdict::Violation { sig: "stream/odd-termination".into(), detail: format!("control message {:?}/{} ended the stream with {}", ids, secs, other) }),
                };
                if r.is_err() {
                    let h = st.streams.remove(s).unwrap();
                    h.reader.abort();
                }
                v2v(st.model.modify(s, &ids, secs, &r), st, &ops)?;
            }
        }
        Op::AdvBefore => {
            let lo = st.model.earliest_lo().unwrap();
            let mut t = lo - 1;
            if let Some(end) = st.model.ambiguous_at(t) {
                t = end;
            }
            cx.advance_to_ms(t).await?;
            st.model.advance_to(t.max(st.model.now_ms));
        }
        Op::AdvPast => {
            let lo = st.model.earliest_lo().unwrap();
            let mut t = (lo + SLACK_MS).max(st.model.now_ms);
            while let Some(end) = st.model.ambiguous_at(t) {
                t = end;
            }
            cx.advance_to_ms(t).await?;
            st.model.advance_to(t);
        }
        Op::Adv(ms) => {
            let mut t = st.model.now_ms + ms;
            while let Some(end) = st.model.ambiguous_at(t) {
                t = end;
            }
            cx.advance_to_ms(t).await?;
            st.model.advance_to(t);
        }
        Op::ListTopics(project, size) => {
            let p = format!("projects/{}", project);
            let r = walk_list(cx, unfrozen, size, move |a, size, tok| {
                let p = p.clone();
                Box::pin(async move { a.list_topics(&p, size, &tok).await })
            })
            .await?;
            let want = st.model.expected_topics(project);
            if r != Ok(want.clone()) {
                return Err(Verdict::Violation { sig: "list-topics/mismatch".into(), detail: format!("ListTopics({}) = {:?}, expected {:?} after {:?}", project, r, want, st.trace) });
            }
        }
        Op::ListSubs(project, size) => {
            let p = format!("projects/{}", project);
            let r = walk_list(cx, unfrozen, size, move |a, size, tok| {
                let p = p.clone();
                Box::pin(async move { a.list_subs(&p, size, &tok).await })
            })
            .await?;
            let want = st.model.expected_subs(project);
            if r != Ok(want.clone()) {
                return Err(Verdict::Violation { sig: "list-subs/mismatch".into(), detail: format!("ListSubscriptions({}) = {:?}, expected {:?} after {:?}", project, r, want, st.trace) });
            }
        }
        Op::ListTopicSubs(t, size) => {
            let r = walk_list(cx, unfrozen, size, move |a, size, tok| Box::pin(async move { a.list_topic_subs(t, size, &tok).await })).await?;
            let want = st.model.expected_topic_subs(t).ok_or(Code::NotFound);
            if r != want {
                return Err(Verdict::Violation { sig: "list-topic-subs/mismatch".into(), detail: format!("ListTopicSubscriptions({}) = {:?}, expected {:?} after {:?}", t, r, want, st.trace) });
            }
        }
    }
    st.trace.push(ops);
    absorb_streams(st)?;
    check_world(cx, st).await
}

/// Internal state of every subscription must equal the model's at every quiescent point.
pub async fn check_world(cx: &Ctx, st: &mut SeqState) -> Result<(), Verdict> {
    let names: Vec<String> = st.model.subs.keys().cloned().collect();
    for n in names {
        let got = cx.stats(&n).await?;
        let ms = &st.model.subs[&n];
        let want = Stats { backlog: ms.queue.len(), outstanding: ms.outstanding.len(), topic: if ms.attached { ms.topic.clone() } else { "projects//topics/_deleted_topic_".into() } };
        match got {
            None => return Err(Verdict::Violation { sig: "state/subscription-missing".into(), detail: format!("{} exists in the model but the server does not know it, after {:?}", n, st.trace) }),
            Some(g) => {
                if g.backlog != want.backlog || g.outstanding != want.outstanding {
                    return Err(Verdict::Violation {
                        sig: "state/backlog-or-outstanding-mismatch".into(),
                        detail: format!("{}: server has backlog={} outstanding={}, model has backlog={} outstanding={} at t={}ms after {:?}", n, g.backlog, g.outstanding, want.backlog, want.outstanding, st.model.now_ms, st.trace),
                    });
                }
                if g.topic != want.topic {
                    return Err(Verdict::Violation { sig: "state/topic-link-mismatch".into(), detail: format!("{}: server reports topic {}, model {} after {:?}", n, g.topic, want.topic, st.trace) });
                }
            }
        }
    }
    // nothing the model deleted may still be known
    for n in ALL_SUBS {
        if !st.model.subs.contains_key(n) && cx.stats(n).await?.is_some() {
            return Err(Verdict::Violation { sig: "state/subscription-leaked".into(), detail: format!("{} does not exist in the model but the server still knows it after {:?}", n, st.trace) });
        }
    }
    st.states.push(st.model.hash64());
    Ok(())
}

/// Everything still pending must actually be deliverable: let all leases expire, pull everything, ack it.
pub async fn drain(cx: &Ctx, st: &mut SeqState) -> Result<(), Verdict> {
    // close every open stream (both directions) first: what it still holds must come back after the deadline
    absorb_streams(st)?;
    for (_, h) in std::mem::take(&mut st.streams) {
        h.reader.abort();
        drop(h.tx);
    }
    let was = cx.freeze(true);
    let q = cx.quiesce().await;
    cx.freeze(was);
    q?;
    for _round in 0..50 {
        if st.model.earliest_lo().is_none() {
            break;
        }
        apply(cx, st, &Op::AdvPast, false).await?;
    }
    let names: Vec<String> = st.model.subs.keys().cloned().collect();
    for n in names {
        let n: &'static str = ALL_SUBS.into_iter().find(|x| *x == n).expect("subscription name known to the harness");
        for _ in 0..100 {
            if st.model.subs[n].queue.is_empty() {
                break;
            }
            apply(cx, st, &Op::Pull(n, 1000), false).await?;
            if !st.model.subs[n].outstanding.is_empty() {
                apply(cx, st, &Op::AckAll(n), false).await?;
            }
        }
        if !st.model.subs[n].queue.is_empty() {
            return Err(Verdict::Violation { sig: "drain/undeliverable".into(), detail: format!("{} still has undelivered messages after the final drain", n) });
        }
    }
    Ok(())
}

pub fn seq_unit(c: SeqCfg) -> Unit {
    let (setup, alphabet, depth, all_enabled, do_drain, unfrozen) = (c.setup.clone(), c.alphabet.clone(), c.depth, c.all_enabled, c.drain, c.unfrozen);
    let f: ScenFn = scen!([setup, alphabet] |cx| {
        let mut st = SeqState { model: Model::default(), trace: vec![], states: vec![], payload_counter: 0, streams: Default::default() };
        for op in &setup {
            tryv!(apply(&cx, &mut st, op, false).await);
        }
        st.trace.push("--".into());
        for _ in 0..depth {
            let en: Vec<&Op> = alphabet.iter().filter(|o| all_enabled || o.enabled(&st.model)).collect();
            if en.is_empty() {
                break;
            }
            let k = cx.choose("op", en.len());
            let op = en[k].clone();
            tryv!(apply(&cx, &mut st, &op, unfrozen).await);
        }
        let body = st.trace.clone();
        if do_drain {
            tryv!(drain(&cx, &mut st).await);
        }
        st.streams.clear();
        ScenarioOut { verdict: Verdict::Ok(format!("final-model-{:016x}", st.model.hash64())), model_states: st.states, validated: true, sample: Some(body.join(" ; ")) }
    });
    explore_unit(c.name, c.desc, c.bounds, c.exec, f)
}
