//! Stateless, deviation-bounded, exhaustive exploration of the choice tree of a unit.
use crate::engine::{ChoicePoint, Kind};
use std::collections::{BTreeMap, HashSet};
use std::sync::atomic::{AtomicBool, AtomicU64, Ordering};
use std::sync::{Arc, Condvar, Mutex};
use std::time::{Duration, Instant};

#[derive(Clone, Debug)]
pub enum Verdict {
    /// the property held on this execution; the string is the observable outcome (for the histogram)
    Ok(String),
    Violation { sig: String, detail: String },
    /// harness problem (never a verdict about deltio)
    Machinery(String),
}

pub struct ExecResult {
    pub points: Vec<ChoicePoint>,
    pub verdict: Verdict,
    pub steps: u64,
    pub trace: Vec<String>,
    /// hashes of reference-model states visited in this execution (seq mode)
    pub model_states: Vec<u64>,
    /// the sequence/history was compared step by step against the reference model
    pub validated: bool,
    pub sample: Option<String>,
    /// lock nesting observed: (held lock, exclusive, acquired lock, exclusive)
    pub lock_edges: Vec<(String, bool, String, bool)>,
}

#[derive(Clone, Debug)]
pub struct Bounds {
    /// total deviation cost
    pub d: usize,
    /// max number of `select!` deviations (usize::MAX = only limited by d)
    pub f: usize,
    pub max_execs: u64,
    pub max_wall: Duration,
}

impl Bounds {
    pub fn new(d: usize) -> Self {
        Bounds { d, f: usize::MAX, max_execs: 50_000_000, max_wall: Duration::from_secs(1200) }
    }
    pub fn f(mut self, f: usize) -> Self {
        self.f = f;
        self
    }
    pub fn wall(mut self, s: u64) -> Self {
        self.max_wall = Duration::from_secs(s);
        self
    }
    pub fn execs(mut self, n: u64) -> Self {
        self.max_execs = n;
        self
    }
}

pub type RunFn = Arc<dyn Fn(&[u32], bool) -> ExecResult + Send + Sync>;

#[derive(Clone, Debug)]
pub struct FoundViolation {
    pub unit: String,
    pub sig: String,
    pub detail: String,
    pub choices: Vec<u32>,
    pub kinds: Vec<String>,
    pub trace: Vec<String>,
    pub cost: usize,
}

#[derive(Default, Debug)]
pub struct UnitReport {
    pub unit: String,
    pub executions: u64,
    pub steps: u64,
    pub nodes: u64,
    pub validated: u64,
    pub outcomes: BTreeMap<String, u64>,
    pub violations: Vec<FoundViolation>,
    pub machinery: Vec<String>,
    pub bound_d: usize,
    pub bound_f: usize,
    pub completed: bool,
    pub cap_hit: Option<String>,
    pub max_points: usize,
    pub samples: Vec<String>,
    pub model_states: u64,
    pub wall_s: f64,
    pub lock_edges: std::collections::BTreeSet<(String, bool, String, bool)>,
}

struct Queue {
    buckets: Vec<Vec<Vec<u32>>>,
    in_flight: usize,
    /// executions in flight, per cost of their prefix
    in_flight_cost: Vec<usize>,
}

impl Queue {
    /// The lowest deviation cost for which some execution has not finished yet (queued or in flight).
    fn lowest_open_cost(&self) -> usize {
        let q = self.buckets.iter().position(|b| !b.is_empty()).unwrap_or(usize::MAX);
        let f = self.in_flight_cost.iter().position(|&n| n > 0).unwrap_or(usize::MAX);
        q.min(f)
    }
}

/// Resident set size of this process in GB (0 if it cannot be read).
fn rss_gb() -> f64 {
    std::fs::read_to_string("/proc/self/statm")
        .ok()
        .and_then(|s| s.split_whitespace().nth(1).and_then(|p| p.parse::<f64>().ok()))
        .map(|pages| pages * 4096.0 / 1e9)
        .unwrap_or(0.0)
}

fn max_rss_gb() -> f64 {
    std::env::var("VERIF_MAX_RSS_GB").ok().and_then(|s| s.parse().ok()).unwrap_or(20.0)
}

fn sel_devs(points: &[ChoicePoint], upto: usize) -> usize {
    points[..upto].iter().filter(|p| p.kind == Kind::Select && p.chosen > 0).count()
}

/// Explores every execution of `run` whose deviation cost is ≤ bounds.d (and select deviations ≤ bounds.f).
/// Lowest-cost prefixes first, so the first counterexample has the fewest deviations.
pub fn explore(unit: &str, bounds: &Bounds, run: RunFn, known: &(dyn Fn(&str) -> bool + Sync), threads: usize) -> UnitReport {
    let start = Instant::now();
    // memory this unit may add on top of what the process holds already (the allocator may keep what earlier units freed)
    let rss0 = rss_gb();
    let queue = Arc::new((Mutex::new(Queue { buckets: vec![vec![vec![]]], in_flight: 0, in_flight_cost: vec![] }), Condvar::new()));
    let stop = Arc::new(AtomicBool::new(false));
    let execs = Arc::new(AtomicU64::new(0));
    let report = Arc::new(Mutex::new(UnitReport { unit: unit.to_string(), bound_d: bounds.d, bound_f: bounds.f, completed: true, ..Default::default() }));
    let model_states: Arc<Mutex<HashSet<u64>>> = Default::default();
    let known_sigs: Arc<Mutex<HashSet<String>>> = Default::default();

    // determinism self-check: the default execution twice, identical traces and choice structure
    {
        let a = run(&[], true);
        let b = run(&[], true);
        let pa: Vec<_> = a.points.iter().map(|p| (p.kind, p.site, p.n, p.chosen)).collect();
        let pb: Vec<_> = b.points.iter().map(|p| (p.kind, p.site, p.n, p.chosen)).collect();
        if a.trace != b.trace || pa != pb {
            let mut r = report.lock().unwrap();
            r.machinery.push(format!("unit {}: default execution is not deterministic (trace/choice structure differ between two runs)", unit));
            r.completed = false;
            return std::mem::take(&mut *r);
        }
    }

    std::thread::scope(|scope| {
        for _ in 0..threads.max(1) {
            let queue = queue.clone();
            let stop = stop.clone();
            let execs = execs.clone();
            let report = report.clone();
            let run = run.clone();
            let model_states = model_states.clone();
            let known_sigs = known_sigs.clone();
            let bounds = bounds.clone();
            scope.spawn(move || loop {
                // pop lowest-cost prefix
                let prefix = {
                    let (m, cv) = &*queue;
                    let mut q = m.lock().unwrap();
                    loop {
                        if stop.load(Ordering::Relaxed) {
                            q.buckets.iter_mut().for_each(|b| b.clear());
                        }
                        if let Some(c) = q.buckets.iter().position(|b| !b.is_empty()) {
                            let p = q.buckets[c].pop().unwrap();
                            q.in_flight += 1;
                            while q.in_flight_cost.len() <= c {
                                q.in_flight_cost.push(0);
                            }
                            q.in_flight_cost[c] += 1;
                            break Some((c, p));
                        }
                        if q.in_flight == 0 {
                            cv.notify_all();
                            break None;
                        }
                        q = cv.wait(q).unwrap();
                    }
                };
                let Some((my_cost, prefix)) = prefix else { return };
                let plen = prefix.len();
                // a panic in the harness' own code (not in the code under test, whose panics are caught and judged inside
                // `run`) must not take the process down: it is a machinery error of this unit
                let x = match std::panic::catch_unwind(std::panic::AssertUnwindSafe(|| run(&prefix, false))) {
                    Ok(x) => x,
                    Err(e) => {
                        let msg = e.downcast_ref::<String>().cloned().or_else(|| e.downcast_ref::<&str>().map(|s| s.to_string())).unwrap_or_else(|| "?".into());
                        let mut r = report.lock().unwrap();
                        let u = r.unit.clone();
                        r.machinery.push(format!("unit {}: the harness panicked while running prefix {:?}: {}", u, prefix, msg));
                        r.completed = false;
                        drop(r);
                        stop.store(true, Ordering::Relaxed);
                        let (m, cv) = &*queue;
                        let mut q = m.lock().unwrap();
                        q.in_flight -= 1;
                        q.in_flight_cost[my_cost] -= 1;
                        cv.notify_all();
                        continue;
                    }
                };
                let n = execs.fetch_add(1, Ordering::Relaxed) + 1;
                let choices: Vec<u32> = x.points.iter().map(|p| p.chosen).collect();
                let mut children: Vec<(usize, Vec<u32>)> = vec![];
                let mut hard_stop = false;
                {
                    let mut r = report.lock().unwrap();
                    r.executions += 1;
                    r.steps += x.steps;
                    r.nodes += (x.points.len().saturating_sub(plen)) as u64 + 1;
                    r.max_points = r.max_points.max(x.points.len());
                    if x.validated {
                        r.validated += 1;
                    }
                    for e in &x.lock_edges {
                        if !r.lock_edges.contains(e) {
                            r.lock_edges.insert(e.clone());
                        }
                    }
                    if let Some(s) = &x.sample {
                        if r.samples.len() < 3 {
                            r.samples.push(s.clone());
                        }
                    }
                    match &x.verdict {
                        Verdict::Ok(k) => {
                            *r.outcomes.entry(k.clone()).or_insert(0) += 1;
                        }
                        Verdict::Violation { sig, detail } => {
                            *r.outcomes.entry(format!("VIOLATION {}", sig)).or_insert(0) += 1;
                            let first = known_sigs.lock().unwrap().insert(sig.clone());
                            if first {
                                let cost: usize = x.points.iter().map(|p| p.cost(p.chosen)).sum();
                                r.violations.push(FoundViolation {
                                    unit: unit.to_string(),
                                    sig: sig.clone(),
                                    detail: detail.clone(),
                                    choices: choices.clone(),
                                    kinds: x.points.iter().map(|p| format!("{:?}:{}/{}", p.kind, p.site, p.n)).collect(),
                                    trace: x.trace.clone(),
                                    cost,
                                });
                            }
                            if !known(sig) {
                                hard_stop = true;
                            }
                        }
                        Verdict::Machinery(m) => {
                            r.machinery.push(m.clone());
                            hard_stop = true;
                        }
                    }
                    let cap = if n >= bounds.max_execs {
                        Some(format!("execution cap {} reached", bounds.max_execs))
                    } else if start.elapsed() > bounds.max_wall {
                        Some(format!("wall-clock cap {}s reached", bounds.max_wall.as_secs()))
                    } else if n % 2048 == 0 && rss_gb() - rss0 > max_rss_gb() {
                        // the frontier of unexplored prefixes lives in memory
                        Some(format!("memory cap {} GB reached", max_rss_gb()))
                    } else {
                        None
                    };
                    if let (Some(cap), true) = (cap, r.cap_hit.is_none()) {
                        // lowest-cost-first: everything cheaper than the cheapest unfinished execution has been run
                        let open = queue.0.lock().unwrap().lowest_open_cost().min(my_cost);
                        r.cap_hit = Some(if bounds.d == 0 {
                            format!("{}: this enumeration is incomplete ({} executions run)", cap, n)
                        } else {
                            format!("{} at bound d={}; every execution of deviation cost <= {} was run", cap, bounds.d, open as i64 - 1)
                        });
                        r.completed = false;
                        hard_stop = true;
                    }
                }
                if !x.model_states.is_empty() {
                    let mut ms = model_states.lock().unwrap();
                    for h in &x.model_states {
                        ms.insert(*h);
                    }
                }
                if hard_stop {
                    stop.store(true, Ordering::Relaxed);
                } else if !stop.load(Ordering::Relaxed) {
                    let mut cost_before: usize = x.points[..plen.min(x.points.len())].iter().map(|p| p.cost(p.chosen)).sum();
                    let mut sel_before = sel_devs(&x.points, plen.min(x.points.len()));
                    for i in plen..x.points.len() {
                        let p = &x.points[i];
                        for alt in 1..p.n {
                            let c = cost_before + p.cost(alt);
                            if c > bounds.d {
                                break;
                            }
                            if p.kind == Kind::Select && sel_before + 1 > bounds.f {
                                break;
                            }
                            let mut np = choices[..i].to_vec();
                            np.push(alt);
                            children.push((c, np));
                        }
                        cost_before += p.cost(p.chosen);
                        if p.kind == Kind::Select && p.chosen > 0 {
                            sel_before += 1;
                        }
                    }
                }
                let (m, cv) = &*queue;
                let mut q = m.lock().unwrap();
                for (c, np) in children {
                    while q.buckets.len() <= c {
                        q.buckets.push(vec![]);
                    }
                    q.buckets[c].push(np);
                }
                q.in_flight -= 1;
                q.in_flight_cost[my_cost] -= 1;
                cv.notify_all();
            });
        }
    });

    let mut r = std::mem::take(&mut *report.lock().unwrap());
    if stop.load(Ordering::Relaxed) && r.cap_hit.is_none() {
        r.completed = false;
    }
    r.model_states = model_states.lock().unwrap().len() as u64;
    r.wall_s = start.elapsed().as_secs_f64();
    r
}
