//! Reference model of the Pub/Sub semantics the properties define (deliberately boring), and the
//! validation of each real response against it.  The model *follows* the implementation where the
//! properties leave freedom (which available messages a Pull returns, how many, the values of ids)
//! and flags everything the properties forbid.
use crate::world::{Rm, SubView, SLACK_MS};
use std::collections::{BTreeMap, BTreeSet};
use tonic::Code;

#[derive(Clone, Debug, Hash)]
pub struct MMsg {
    pub id: String,
    pub topic: String,
    pub topic_inc: u32,
    pub data: Vec<u8>,
    pub attrs: Vec<(String, String)>,
    /// request number and position inside the request
    pub req: u32,
    pub pos: u32,
    pub publish_time: Option<(i64, i32)>,
}

#[derive(Clone, Debug, Hash)]
pub struct Out {
    pub msg: usize,
    pub handout_ms: i64,
    /// earliest instant at which the lease may end
    pub lo_ms: i64,
}

#[derive(Clone, Debug, Hash)]
pub struct MSub {
    pub topic: String,
    pub topic_inc: u32,
    pub attached: bool,
    pub dl_s: i64,
    pub push: Option<String>,
    /// available messages (fresh ones in publish order; redeliveries in no particular order)
    pub queue: Vec<usize>,
    pub delivered_once: BTreeSet<usize>,
    pub outstanding: BTreeMap<String, Out>,
    pub used_ack_ids: BTreeSet<String>,
    pub stale_ack_ids: Vec<String>,
    pub acked: BTreeSet<usize>,
    pub created_at_req: u32,
}

#[derive(Clone, Debug, Default, Hash)]
pub struct Model {
    pub topics: BTreeMap<String, u32>,
    pub topic_order: Vec<String>,
    pub subs: BTreeMap<String, MSub>,
    pub sub_order: Vec<String>,
    pub msgs: Vec<MMsg>,
    pub all_ids: BTreeSet<String>,
    pub last_id_of_inc: BTreeMap<u32, u64>,
    pub now_ms: i64,
    pub next_inc: u32,
    pub next_req: u32,
    /// ack ids issued by deleted subscriptions, by name: stale for every later subscription of that name
    pub graveyard: BTreeMap<String, Vec<String>>,
}

pub type V = Result<(), (String, String)>;

fn viol<T>(sig: &str, detail: String) -> Result<T, (String, String)> {
    Err((sig.to_string(), detail))
}

pub fn project_of(name: &str) -> &str {
    name.split('/').nth(1).unwrap_or("")
}

impl Model {
    pub fn hash64(&self) -> u64 {
        use std::hash::{Hash, Hasher};
        let mut h = std::collections::hash_map::DefaultHasher::new();
        // ids are implementation-chosen: hash the structure only
        self.topic_order.hash(&mut h);
        self.sub_order.hash(&mut h);
        for (n, s) in &self.subs {
            n.hash(&mut h);
            (s.attached, s.dl_s, s.queue.clone(), s.outstanding.values().map(|o| (o.msg, o.lo_ms - self.now_ms)).collect::<Vec<_>>(), s.acked.len()).hash(&mut h);
        }
        self.msgs.len().hash(&mut h);
        h.finish()
    }

    pub fn earliest_lo(&self) -> Option<i64> {
        self.subs.values().flat_map(|s| s.outstanding.values().map(|o| o.lo_ms)).min()
    }

    /// True if some lease is inside its ambiguous window [lo, lo+SLACK) at `t`.
    pub fn ambiguous_at(&self, t: i64) -> Option<i64> {
        self.subs.values().flat_map(|s| s.outstanding.values()).filter(|o| o.lo_ms <= t && t < o.lo_ms + SLACK_MS).map(|o| o.lo_ms + SLACK_MS).max()
    }

    /// Moves the clock; every lease whose deadline (+slack) has passed is back in the queue.
    pub fn advance_to(&mut self, t: i64) {
        assert!(t >= self.now_ms);
        assert!(self.ambiguous_at(t).is_none(), "harness must not stop inside an ambiguous window");
        self.now_ms = t;
        for s in self.subs.values_mut() {
            let expired: Vec<String> = s.outstanding.iter().filter(|(_, o)| o.lo_ms + SLACK_MS <= t).map(|(k, _)| k.clone()).collect();
            // redelivery order is unspecified; use ack-id order for determinism of the model only
            let mut ex: Vec<(u64, String)> = expired.into_iter().map(|k| (k.parse::<u64>().unwrap_or(0), k)).collect();
            ex.sort();
            for (_, k) in ex {
                let o = s.outstanding.remove(&k).unwrap();
                s.queue.push(o.msg);
                s.stale_ack_ids.push(k);
            }
        }
    }

    pub fn create_topic(&mut self, name: &str, r: &Result<String, Code>) -> V {
        if self.topics.contains_key(name) {
            if *r != Err(Code::AlreadyExists) {
                return viol("create-topic/existing-not-ALREADY_EXISTS", format!("CreateTopic({}) of an existing topic returned {:?}", name, r));
            }
            return Ok(());
        }
        match r {
            Ok(n) if n == name => {}
            other => return viol("create-topic/absent-not-created", format!("CreateTopic({}) of an absent name returned {:?}", name, other)),
        }
        self.next_inc += 1;
        self.topics.insert(name.to_string(), self.next_inc);
        self.topic_order.push(name.to_string());
        Ok(())
    }

    pub fn get_topic(&mut self, name: &str, r: &Result<String, Code>) -> V {
        match (self.topics.contains_key(name), r) {
            (true, Ok(n)) if n == name => Ok(()),
            (false, Err(Code::NotFound)) => Ok(()),
            _ => viol("get-topic/wrong-answer", format!("GetTopic({}) returned {:?} but the topic {}", name, r, if self.topics.contains_key(name) { "exists" } else { "does not exist" })),
        }
    }

    pub fn delete_topic(&mut self, name: &str, r: &Result<(), Code>) -> V {
        match self.topics.get(name).cloned() {
            None => {
                if *r != Err(Code::NotFound) {
                    return viol("delete-topic/absent-not-NOT_FOUND", format!("DeleteTopic({}) of an absent topic returned {:?}", name, r));
                }
            }
            Some(inc) => {
                if r.is_err() {
                    return viol("delete-topic/failed", format!("DeleteTopic({}) of an existing topic returned {:?}", name, r));
                }
                self.topics.remove(name);
                self.topic_order.retain(|t| t != name);
                for s in self.subs.values_mut() {
                    if s.topic_inc == inc {
                        s.attached = false;
                    }
                }
            }
        }
        Ok(())
    }

    pub fn create_sub(&mut self, name: &str, topic: &str, dl: i32, push: Option<&str>, r: &Result<SubView, Code>) -> V {
        let mut errs = vec![];
        if !self.topics.contains_key(topic) {
            errs.push(Code::NotFound);
        }
        if project_of(name) != project_of(topic) {
            errs.push(Code::InvalidArgument);
        }
        if self.subs.contains_key(name) {
            errs.push(Code::AlreadyExists);
        }
        if let Some(p) = push {
            if !p.trim().starts_with("http") {
                errs.push(Code::InvalidArgument);
            }
        }
        if !errs.is_empty() {
            return match r {
                Err(c) if errs.contains(c) => Ok(()),
                _ => viol("create-sub/invalid-not-rejected", format!("CreateSubscription({} -> {}) must fail with one of {:?} but returned {:?}", name, topic, errs, r)),
            };
        }
        let eff = (dl as i64).max(10);
        match r {
            Ok(v) => {
                let want = SubView { name: name.into(), topic: topic.into(), ack_deadline_seconds: eff as i32, push_endpoint: push.map(|p| p.trim().to_string()) };
                if *v != want {
                    return viol("create-sub/echo-mismatch", format!("CreateSubscription returned {:?}, expected {:?}", v, want));
                }
            }
            Err(c) => return viol("create-sub/valid-rejected", format!("CreateSubscription({} -> {}) is valid but returned {:?}", name, topic, c)),
        }
        let inc = self.topics[topic];
        self.subs.insert(
            name.to_string(),
            MSub {
                topic: topic.into(),
                topic_inc: inc,
                attached: true,
                dl_s: eff,
                push: push.map(|p| p.trim().to_string()),
                queue: vec![],
                delivered_once: Default::default(),
                outstanding: Default::default(),
                // ack ids handed out by earlier subscriptions of this name must never be handed out again ...
                used_ack_ids: self.graveyard.get(name).map(|g| g.iter().cloned().collect()).unwrap_or_default(),
                // ... and are stale: acknowledging or modifying them has no effect
                stale_ack_ids: self.graveyard.get(name).cloned().unwrap_or_default(),
                acked: Default::default(),
                created_at_req: self.next_req,
            },
        );
        self.sub_order.push(name.to_string());
        Ok(())
    }

    pub fn expected_view(&self, name: &str) -> Option<SubView> {
        self.subs.get(name).map(|s| SubView {
            name: name.into(),
            topic: if s.attached { s.topic.clone() } else { "_deleted_topic_".into() },
            ack_deadline_seconds: s.dl_s as i32,
            push_endpoint: s.push.clone(),
        })
    }

    pub fn get_sub(&mut self, name: &str, r: &Result<SubView, Code>) -> V {
        match (self.expected_view(name), r) {
            (Some(w), Ok(v)) if w == *v => Ok(()),
            (None, Err(Code::NotFound)) => Ok(()),
            (w, _) => viol("get-sub/wrong-answer", format!("GetSubscription({}) returned {:?}, expected {:?}", name, r, w)),
        }
    }

    pub fn delete_sub(&mut self, name: &str, r: &Result<(), Code>) -> V {
        if !self.subs.contains_key(name) {
            if *r != Err(Code::NotFound) {
                return viol("delete-sub/absent-not-NOT_FOUND", format!("DeleteSubscription({}) of an absent subscription returned {:?}", name, r));
            }
            return Ok(());
        }
        if r.is_err() {
            return viol("delete-sub/failed", format!("DeleteSubscription({}) of an existing subscription returned {:?}", name, r));
        }
        if let Some(old) = self.subs.remove(name) {
            let g = self.graveyard.entry(name.to_string()).or_default();
            for id in old.used_ack_ids.iter() {
                if !g.contains(id) {
                    g.push(id.clone());
                }
            }
        }
        self.sub_order.retain(|s| s != name);
        Ok(())
    }

    pub fn publish(&mut self, topic: &str, msgs: &[(Vec<u8>, Vec<(String, String)>)], r: &Result<Vec<String>, Code>) -> V {
        self.next_req += 1;
        let Some(inc) = self.topics.get(topic).cloned() else {
            if *r != Err(Code::NotFound) {
                return viol("publish/absent-not-NOT_FOUND", format!("Publish to absent topic {} returned {:?}", topic, r));
            }
            return Ok(());
        };
        let ids = match r {
            Ok(ids) => ids,
            Err(c) => return viol("publish/failed", format!("Publish to existing topic {} returned {:?}", topic, c)),
        };
        if ids.len() != msgs.len() {
            return viol("publish/id-count", format!("Publish of {} messages returned {} ids", msgs.len(), ids.len()));
        }
        for (pos, id) in ids.iter().enumerate() {
            if !self.all_ids.insert(id.clone()) {
                return viol("publish/duplicate-id", format!("message id {} was issued twice", id));
            }
            let Ok(n) = id.parse::<u64>() else { return viol("publish/id-not-ordered", format!("message id {} is not comparable", id)) };
            if let Some(last) = self.last_id_of_inc.get(&inc) {
                if n <= *last {
                    return viol("publish/id-not-increasing", format!("topic {} issued id {} after {}", topic, n, last));
                }
            }
            self.last_id_of_inc.insert(inc, n);
            let idx = self.msgs.len();
            self.msgs.push(MMsg { id: id.clone(), topic: topic.into(), topic_inc: inc, data: msgs[pos].0.clone(), attrs: msgs[pos].1.clone(), req: self.next_req, pos: pos as u32, publish_time: None });
            for s in self.subs.values_mut() {
                if s.attached && s.topic_inc == inc {
                    s.queue.push(idx);
                }
            }
        }
        Ok(())
    }

    /// Validates one batch of deliveries (Pull response, StreamingPull response, push round) on `sub`.
    pub fn deliveries(&mut self, sub: &str, max: Option<i64>, got: &[Rm], must_be_nonempty_if_available: bool) -> V {
        let now = self.now_ms;
        let msgs = &mut self.msgs;
        let s = self.subs.get_mut(sub).expect("caller checked");
        if let Some(max) = max {
            if max >= 1 && got.len() as i64 > max {
                return viol("batch/over-limit", format!("{} messages returned with a limit of {}", got.len(), max));
            }
        }
        if must_be_nonempty_if_available && got.is_empty() && !s.queue.is_empty() {
            return viol("batch/empty-although-available", format!("empty batch on {} although {} message(s) are available", sub, s.queue.len()));
        }
        let mut seen = BTreeSet::new();
        // fresh messages must come in publish order, without skipping an earlier fresh one
        let fresh_expected: Vec<usize> = s.queue.iter().cloned().filter(|m| !s.delivered_once.contains(m)).collect();
        let mut fresh_cursor = 0;
        for rm in got {
            let Some(idx) = msgs.iter().position(|m| m.id == rm.msg_id) else {
                return viol("delivery/unknown-message", format!("{} delivered message id {} that no Publish returned", sub, rm.msg_id));
            };
            if !seen.insert(idx) {
                return viol("delivery/duplicate-in-batch", format!("message {} appears twice in one response on {}", rm.msg_id, sub));
            }
            let m = &mut msgs[idx];
            let Some(qpos) = s.queue.iter().position(|q| *q == idx) else {
                let why = if s.acked.contains(&idx) {
                    "delivery/after-ack"
                } else if s.outstanding.values().any(|o| o.msg == idx) {
                    "delivery/while-leased"
                } else if m.topic_inc != s.topic_inc {
                    "delivery/foreign-topic"
                } else {
                    "delivery/not-available"
                };
                return viol(why, format!("{} delivered message {} (topic {}) which is not available to it: {}", sub, rm.msg_id, m.topic, why));
            };
            if m.data != rm.data {
                return viol("delivery/data-mismatch", format!("message {} delivered with {} data bytes, published {}", rm.msg_id, rm.data.len(), m.data.len()));
            }
            let mut a: Vec<(String, String)> = rm.attrs.iter().map(|(k, v)| (k.clone(), v.clone())).collect();
            let mut b = m.attrs.clone();
            a.sort();
            b.sort();
            if a != b {
                return viol("delivery/attributes-mismatch", format!("message {} delivered with attributes {:?}, published {:?}", rm.msg_id, a, b));
            }
            match m.publish_time {
                None => m.publish_time = Some(rm.publish_time),
                Some(t) if t != rm.publish_time => return viol("delivery/publish-time-changed", format!("message {} delivered with publish time {:?}, earlier {:?}", rm.msg_id, rm.publish_time, t)),
                _ => {}
            }
            if !s.used_ack_ids.insert(rm.ack_id.clone()) {
                return viol("delivery/ack-id-reused", format!("ack id {} was used before on {}", rm.ack_id, sub));
            }
            if !s.delivered_once.contains(&idx) {
                if fresh_expected.get(fresh_cursor) != Some(&idx) {
                    return viol("delivery/first-delivery-out-of-order", format!("{}: first delivery of message {} (request {}, position {}) before an earlier published message", sub, rm.msg_id, m.req, m.pos));
                }
                fresh_cursor += 1;
                s.delivered_once.insert(idx);
            }
            s.queue.remove(qpos);
            s.outstanding.insert(rm.ack_id.clone(), Out { msg: idx, handout_ms: now, lo_ms: now + s.dl_s * 1000 });
        }
        Ok(())
    }

    pub fn pull(&mut self, sub: &str, max: i32, r: &Result<Vec<Rm>, Code>) -> V {
        if !self.subs.contains_key(sub) {
            if *r != Err(Code::NotFound) {
                return viol("pull/absent-not-NOT_FOUND", format!("Pull on absent subscription {} returned {:?}", sub, r.as_ref().map(|v| v.len())));
            }
            return Ok(());
        }
        match r {
            Err(c) => viol("pull/failed", format!("Pull on existing subscription {} returned {:?}", sub, c)),
            Ok(got) => self.deliveries(sub, Some(max as i64), got, true),
        }
    }

    fn id_ok(id: &str) -> bool {
        id.parse::<u64>().is_ok()
    }

    pub fn ack(&mut self, sub: &str, ids: &[String], r: &Result<(), Code>) -> V {
        let malformed = ids.iter().any(|i| !Self::id_ok(i));
        let absent = !self.subs.contains_key(sub);
        if malformed || absent {
            let mut want = vec![];
            if malformed {
                want.push(Code::InvalidArgument);
            }
            if absent {
                want.push(Code::NotFound);
            }
            return match r {
                Err(c) if want.contains(c) => Ok(()),
                _ => viol("ack/invalid-not-rejected", format!("Acknowledge({}, {:?}) must fail with one of {:?}, returned {:?}", sub, ids, want, r)),
            };
        }
        if r.is_err() {
            return viol("ack/failed", format!("Acknowledge({}, {:?}) returned {:?}", sub, ids, r));
        }
        let s = self.subs.get_mut(sub).unwrap();
        for id in ids {
            if let Some(o) = s.outstanding.remove(id) {
                s.acked.insert(o.msg);
                s.stale_ack_ids.push(id.clone());
            }
        }
        Ok(())
    }

    pub fn modify(&mut self, sub: &str, ids: &[String], secs: i32, r: &Result<(), Code>) -> V {
        let malformed = ids.iter().any(|i| !Self::id_ok(i)) || (secs < 0 && !ids.is_empty());
        let absent = !self.subs.contains_key(sub);
        if malformed || absent {
            let mut want = vec![];
            if malformed {
                want.push(Code::InvalidArgument);
            }
            if absent {
                want.push(Code::NotFound);
            }
            return match r {
                Err(c) if want.contains(c) => Ok(()),
                _ => viol("modify/invalid-not-rejected", format!("ModifyAckDeadline({}, {:?}, {}) must fail with one of {:?}, returned {:?}", sub, ids, secs, want, r)),
            };
        }
        if r.is_err() {
            return viol("modify/failed", format!("ModifyAckDeadline({}, {:?}, {}) returned {:?}", sub, ids, secs, r));
        }
        let now = self.now_ms;
        let s = self.subs.get_mut(sub).unwrap();
        for id in ids {
            if secs == 0 {
                if let Some(o) = s.outstanding.remove(id) {
                    s.queue.push(o.msg);
                    s.stale_ack_ids.push(id.clone());
                }
            } else if let Some(o) = s.outstanding.get_mut(id) {
                o.lo_ms = now + (secs as i64).min(600) * 1000;
            }
        }
        Ok(())
    }

    pub fn expected_topics(&self, project: &str) -> Vec<String> {
        self.topic_order.iter().filter(|t| project_of(t) == project).cloned().collect()
    }
    pub fn expected_subs(&self, project: &str) -> Vec<SubView> {
        self.sub_order.iter().filter(|s| project_of(s) == project).map(|s| self.expected_view(s).unwrap()).collect()
    }
    pub fn expected_topic_subs(&self, topic: &str) -> Option<Vec<String>> {
        let inc = self.topics.get(topic)?;
        Some(self.sub_order.iter().filter(|s| self.subs[*s].attached && self.subs[*s].topic_inc == *inc).cloned().collect())
    }
}
