#!/usr/bin/env bash
# run.sh check <tier> | replay <file>
exec /verif/.target-loom/release/loom-fc "$@"
