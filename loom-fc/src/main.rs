//! C19: loom model checking of /repo/src/subscriptions/flow_control.rs + conformance of the Notify model.
mod loom_side {
    pub use loom::sync::Mutex;
    pub mod notify_model {
        include!("notify_model.rs");
    }
}
mod std_side {
    pub use std::sync::Mutex;
    pub mod notify_model {
        include!("notify_model.rs");
    }
}
#[allow(dead_code)]
mod flow_control {
    include!(concat!(env!("OUT_DIR"), "/flow_control.rs"));
}

use loom::sync::Arc;
use std::future::Future;
use std::sync::atomic::{AtomicU64, Ordering as O};
use std::task::{Context, Poll, Waker};

static ITERS: AtomicU64 = AtomicU64::new(0);
static OPS: AtomicU64 = AtomicU64::new(0);

fn op() {
    OPS.fetch_add(1, O::Relaxed);
}

const MODELS: &[(&str, &str)] = &[
    ("A1", "1 waiter on a full controller || dec that frees capacity || unrelated inc(0,1): the waiter returns (no lost wake-up = no deadlock)"),
    ("A2", "2 waiters || dec || unrelated inc: both return"),
    ("C2", "2 waiters released by one single dec"),
    ("F1", "1 waiter || (dec then inc that refills) ; final dec after join: the waiter returns"),
    ("B-bytes-stay-full", "capacity freed in the message dimension only: the waiter's future stays pending at every poll"),
    ("B-msgs-stay-full", "capacity freed in the byte dimension only: the waiter's future stays pending at every poll"),
    ("G3", "3 waiters released by one dec"),
    ("X-bytes-then-msgs", "the waiter parks held back by bytes; another thread then brings the message count to its limit and only then frees the bytes; polled again after that thread was joined, the waiter is still pending (and resumes once both counts are below their limits)"),
    ("X-msgs-then-bytes", "mirror image: held back by messages; then bytes reach their limit and only then the messages are freed"),
    ("D-dec-races-inc", "the controller starts ONE SHORT of its message limit (so there is space): a dec, an inc that reaches the limit and a waiter run concurrently; whatever the order, there is space in the end and the waiter returns (a dec that decides whether to notify from a sample taken before it decrements loses this wake-up)"),
    ("E-two-decs", "the controller is over BOTH limits by more than one release (limits 10 bytes / 2 messages, 15 bytes / 3 messages outstanding): two decs of (5, 1) run concurrently with a waiter; afterwards (5, 1) is below both limits and the waiter returns (a dec that judges from the values its own two decrements returned sees a torn state and may skip the notification)"),
    ("H-huge-counts", "byte counts of several GiB and message counts near u32::MAX (values that do not fit 32 bits): 2 waiters are released exactly when both counts are below their limits, under concurrent inc/dec"),
];

fn run_model(name: &str, pb: Option<usize>) {
    let mut b = loom::model::Builder::new();
    b.preemption_bound = pb;
    let name = name.to_string();
    b.check(move || {
        ITERS.fetch_add(1, O::Relaxed);
        match name.as_str() {
            "A1" | "A2" | "C2" | "G3" => {
                let waiters = match name.as_str() {
                    "A1" => 1,
                    "G3" => 3,
                    _ => 2,
                };
                let fc = Arc::new(flow_control::create(16, 5));
                fc.inc(16, 1); // bytes are at their limit
                op();
                let mut hs = vec![];
                for _ in 0..waiters {
                    let fc2 = fc.clone();
                    hs.push(loom::thread::spawn(move || {
                        loom::future::block_on(fc2.wait_for_available_space());
                        op();
                    }));
                }
                let h2 = if name.starts_with('A') {
                    let fc3 = fc.clone();
                    Some(loom::thread::spawn(move || {
                        fc3.inc(0, 1);
                        op();
                    }))
                } else {
                    None
                };
                fc.dec(16, 1);
                op();
                for h in hs {
                    h.join().unwrap();
                }
                if let Some(h) = h2 {
                    h.join().unwrap();
                }
            }
            "F1" => {
                let fc = Arc::new(flow_control::create(16, 5));
                fc.inc(16, 1);
                let fc2 = fc.clone();
                let w = loom::thread::spawn(move || {
                    loom::future::block_on(fc2.wait_for_available_space());
                    op();
                });
                let fc3 = fc.clone();
                let t = loom::thread::spawn(move || {
                    fc3.dec(16, 1);
                    op();
                    fc3.inc(16, 1);
                    op();
                });
                t.join().unwrap();
                fc.dec(16, 1);
                op();
                w.join().unwrap();
            }
            "B-bytes-stay-full" | "B-msgs-stay-full" => {
                let fc = Arc::new(flow_control::create(16, 5));
                fc.inc(16, 5); // both dimensions at their limit
                let fc2 = fc.clone();
                let bytes_stay = name == "B-bytes-stay-full";
                let t = loom::thread::spawn(move || {
                    if bytes_stay {
                        fc2.dec(0, 5);
                    } else {
                        fc2.dec(16, 0);
                    }
                    op();
                });
                let fc3 = fc.clone();
                let w = loom::thread::spawn(move || {
                    let mut fut = Box::pin(fc3.wait_for_available_space());
                    let mut cx = Context::from_waker(Waker::noop());
                    for _ in 0..3 {
                        op();
                        assert!(matches!(fut.as_mut().poll(&mut cx), Poll::Pending), "the waiter resumed although one dimension is still at its limit");
                        loom::thread::yield_now();
                    }
                });
                t.join().unwrap();
                w.join().unwrap();
            }
            "X-bytes-then-msgs" | "X-msgs-then-bytes" => {
                // The waiter is polled only while nobody else touches the counters (before the other thread starts and
                // after it has been joined), so that the non-atomic two-load check cannot mix an old and a new value:
                // it parks held back by ONE dimension; the other thread then fills the OTHER dimension and only then frees
                // the first; at the final poll one count is at its limit, so the waiter must still be pending.
                let fc = Arc::new(flow_control::create(16, 5));
                let bytes_first = name == "X-bytes-then-msgs";
                if bytes_first {
                    fc.inc(16, 1);
                } else {
                    fc.inc(1, 5);
                }
                let fc3 = fc.clone();
                let mut fut = Box::pin(async move { fc3.wait_for_available_space().await });
                let mut cx = Context::from_waker(Waker::noop());
                op();
                assert!(matches!(fut.as_mut().poll(&mut cx), Poll::Pending), "no capacity at the start, yet the waiter resumed");
                let fc2 = fc.clone();
                let t = loom::thread::spawn(move || {
                    if bytes_first {
                        for _ in 0..5 {
                            fc2.inc(1, 1);
                            op();
                        }
                        fc2.dec(16, 1); // bytes 5 of 16, messages 5 of 5
                    } else {
                        fc2.inc(15, 0);
                        op();
                        fc2.dec(0, 5); // messages 0 of 5, bytes 16 of 16
                    }
                    op();
                });
                t.join().unwrap();
                op();
                assert!(matches!(fut.as_mut().poll(&mut cx), Poll::Pending), "the waiter resumed although one of the two counts is at its limit and nobody is changing them");
                // and it does resume once both are below their limits
                if bytes_first {
                    fc.dec(0, 1);
                } else {
                    fc.dec(1, 0);
                }
                op();
                assert!(matches!(fut.as_mut().poll(&mut cx), Poll::Ready(())), "both counts are below their limits but the waiter did not resume");
            }
            "D-dec-races-inc" => {
                let fc = Arc::new(flow_control::create(1000, 2));
                fc.inc(10, 1); // 1 of 2 messages outstanding: space available
                op();
                let fcw = fc.clone();
                let w = loom::thread::spawn(move || {
                    loom::future::block_on(fcw.wait_for_available_space());
                    op();
                });
                let fci = fc.clone();
                let i = loom::thread::spawn(move || {
                    fci.inc(10, 1); // reaches the limit
                    op();
                });
                fc.dec(10, 1); // frees it again (net effect of the two: one message outstanding)
                op();
                i.join().unwrap();
                w.join().unwrap();
            }
            "E-two-decs" => {
                let fc = Arc::new(flow_control::create(10, 2));
                fc.inc(15, 3);
                op();
                let fcw = fc.clone();
                let w = loom::thread::spawn(move || {
                    loom::future::block_on(fcw.wait_for_available_space());
                    op();
                });
                let fcd = fc.clone();
                let d = loom::thread::spawn(move || {
                    fcd.dec(5, 1);
                    op();
                });
                fc.dec(5, 1);
                op();
                d.join().unwrap();
                w.join().unwrap();
            }
            "H-huge-counts" => {
                const GIB: u64 = 1 << 30;
                // limits: 16 GiB / 3 messages; three 2 GiB messages outstanding => the message count is at its limit
                let fc = Arc::new(flow_control::create(16 * GIB, 3));
                for _ in 0..3 {
                    fc.inc(2 * GIB, 1);
                }
                let mut hs = vec![];
                for _ in 0..2 {
                    let fc2 = fc.clone();
                    hs.push(loom::thread::spawn(move || {
                        loom::future::block_on(fc2.wait_for_available_space());
                        op();
                    }));
                }
                let fc3 = fc.clone();
                let t = loom::thread::spawn(move || {
                    fc3.inc(3 * GIB, 0); // 9 GiB, still 3 messages
                    op();
                });
                fc.dec(2 * GIB, 1); // 2 of 3 messages, bytes well below 16 GiB: both waiters must be released
                op();
                for h in hs {
                    h.join().unwrap();
                }
                t.join().unwrap();
                // and the other way round: 6 GiB outstanding with a 5 GiB limit is NOT available space
                let fc = Arc::new(flow_control::create(5 * GIB, u32::MAX as u64 + 10));
                fc.inc(6 * GIB, u32::MAX as u64 + 1);
                let fc4 = fc.clone();
                let mut fut = Box::pin(async move { fc4.wait_for_available_space().await });
                let mut cx = Context::from_waker(Waker::noop());
                assert!(matches!(fut.as_mut().poll(&mut cx), Poll::Pending), "6 GiB outstanding with a limit of 5 GiB, yet the waiter resumed");
                fc.dec(2 * GIB, 0);
                assert!(matches!(fut.as_mut().poll(&mut cx), Poll::Ready(())), "4 GiB of 5 GiB and fewer messages than the limit outstanding, but the waiter did not resume");
            }
            other => panic!("unknown model {}", other),
        }
    });
    println!("ITER {} OPS {}", ITERS.load(O::Relaxed), OPS.load(O::Relaxed));
}

// ---------------------------------------------------------------------------------------------
// Conformance of notify_model::Notify (on std primitives) with the real tokio::sync::Notify:
// every sequence up to `len` over {create k, poll k, drop k, notify_waiters}, k < 3.

#[derive(Clone, Copy, Debug, PartialEq)]
enum Act {
    Create(usize),
    Poll(usize),
    Drop(usize),
    Notify,
    NotifyOne,
}

struct CountWake(std::sync::atomic::AtomicU64);
impl std::task::Wake for CountWake {
    fn wake(self: std::sync::Arc<Self>) {
        self.0.fetch_add(1, O::SeqCst);
    }
    fn wake_by_ref(self: &std::sync::Arc<Self>) {
        self.0.fetch_add(1, O::SeqCst);
    }
}

fn conform(len: usize) -> Result<(u64, u64), String> {
    const K: usize = 3;
    let mut seqs = 0u64;
    let mut steps = 0u64;
    // iterative DFS over action sequences; each sequence is executed from scratch on both implementations
    let mut stack: Vec<Vec<Act>> = vec![vec![]];
    while let Some(seq) = stack.pop() {
        // run
        let real = tokio::sync::Notify::new();
        let model = std_side::notify_model::Notify::new();
        let mut rf: Vec<Option<std::pin::Pin<Box<tokio::sync::futures::Notified<'_>>>>> = (0..K).map(|_| None).collect();
        let mut mf: Vec<Option<std::pin::Pin<Box<std_side::notify_model::Notified<'_>>>>> = (0..K).map(|_| None).collect();
        let rw: Vec<std::sync::Arc<CountWake>> = (0..K).map(|_| std::sync::Arc::new(CountWake(AtomicU64::new(0)))).collect();
        let mw: Vec<std::sync::Arc<CountWake>> = (0..K).map(|_| std::sync::Arc::new(CountWake(AtomicU64::new(0)))).collect();
        for (i, a) in seq.iter().enumerate() {
            steps += 1;
            match *a {
                Act::Create(k) => {
                    rf[k] = Some(Box::pin(real.notified()));
                    mf[k] = Some(Box::pin(model.notified()));
                }
                Act::Poll(k) => {
                    let w1 = Waker::from(rw[k].clone());
                    let w2 = Waker::from(mw[k].clone());
                    let r = rf[k].as_mut().unwrap().as_mut().poll(&mut Context::from_waker(&w1)).is_ready();
                    let m = mf[k].as_mut().unwrap().as_mut().poll(&mut Context::from_waker(&w2)).is_ready();
                    if r != m {
                        return Err(format!("sequence {:?}: step {} poll({}) real ready={} model ready={}", seq, i, k, r, m));
                    }
                    if r {
                        rf[k] = None;
                        mf[k] = None;
                    }
                }
                Act::Drop(k) => {
                    rf[k] = None;
                    mf[k] = None;
                }
                Act::Notify => {
                    real.notify_waiters();
                    model.notify_waiters();
                }
                Act::NotifyOne => {
                    real.notify_one();
                    model.notify_one();
                }
            }
            for k in 0..K {
                let (a1, a2) = (rw[k].0.load(O::SeqCst), mw[k].0.load(O::SeqCst));
                // a wake-up is observable as "at least one wake since the last poll"; compare as booleans per step
                if (a1 > 0) != (a2 > 0) {
                    return Err(format!("sequence {:?}: after step {} future {} woken real={} model={}", seq, i, k, a1, a2));
                }
                if matches!(a, Act::Poll(j) if *j == k) {
                    rw[k].0.store(0, O::SeqCst);
                    mw[k].0.store(0, O::SeqCst);
                }
            }
        }
        seqs += 1;
        if seq.len() < len {
            // enabled actions in the state after `seq`
            let alive: Vec<bool> = rf.iter().map(|f| f.is_some()).collect();
            drop(rf);
            drop(mf);
            for k in 0..K {
                if !alive[k] {
                    // symmetry: only create the lowest free slot
                    if (0..k).all(|j| alive[j]) {
                        let mut s = seq.clone();
                        s.push(Act::Create(k));
                        stack.push(s);
                    }
                } else {
                    for a in [Act::Poll(k), Act::Drop(k)] {
                        let mut s = seq.clone();
                        s.push(a);
                        stack.push(s);
                    }
                }
            }
            for a in [Act::Notify, Act::NotifyOne] {
                let mut s = seq.clone();
                s.push(a);
                stack.push(s);
            }
        }
    }
    Ok((seqs, steps))
}

// ---------------------------------------------------------------------------------------------

fn child(args: &[&str], timeout_s: u64) -> (Option<i32>, String, bool) {
    // (the path is resolved once; a rebuilt binary at the same path is fine)
    static EXE: std::sync::OnceLock<std::path::PathBuf> = std::sync::OnceLock::new();
    let exe = EXE.get_or_init(|| {
        let p = std::env::current_exe().unwrap_or_else(|_| "/verif/.target-loom/release/loom-fc".into());
        if p.exists() { p } else { "/verif/.target-loom/release/loom-fc".into() }
    });
    let mut c = std::process::Command::new(exe).args(args).stdout(std::process::Stdio::piped()).stderr(std::process::Stdio::piped()).spawn().unwrap();
    let start = std::time::Instant::now();
    loop {
        match c.try_wait().unwrap() {
            Some(st) => {
                let out = c.wait_with_output().unwrap();
                let text = format!("{}{}", String::from_utf8_lossy(&out.stdout), String::from_utf8_lossy(&out.stderr));
                return (st.code(), text, false);
            }
            None => {
                if start.elapsed().as_secs() > timeout_s {
                    let _ = c.kill();
                    let _ = c.wait();
                    return (None, String::new(), true);
                }
                std::thread::sleep(std::time::Duration::from_millis(20));
            }
        }
    }
}

fn known(sig: &str) -> Option<String> {
    let s = std::fs::read_to_string("/verif/known_findings.txt").ok()?;
    for l in s.lines() {
        if let Some(rest) = l.trim().strip_prefix("known:") {
            if rest.contains("property=C19") && rest.split_whitespace().any(|w| w == format!("sig={}", sig)) {
                return Some(rest.trim().to_string());
            }
        }
    }
    None
}

fn check(tier: &str) -> i32 {
    let start = std::time::Instant::now();
    let thorough = tier == "thorough";
    // (model, preemption bound, wall cap s)
    let plan: Vec<(&str, usize, u64)> = if thorough {
        vec![("A1", 6, 900), ("A2", 3, 1500), ("C2", 5, 900), ("F1", 6, 900), ("B-bytes-stay-full", 6, 600), ("B-msgs-stay-full", 6, 600), ("G3", 3, 1500), ("X-bytes-then-msgs", 6, 600), ("X-msgs-then-bytes", 6, 600), ("H-huge-counts", 4, 900), ("D-dec-races-inc", 5, 600), ("E-two-decs", 5, 600)]
    } else {
        vec![("A1", 3, 120), ("A2", 2, 120), ("C2", 3, 120), ("F1", 3, 120), ("B-bytes-stay-full", 3, 120), ("B-msgs-stay-full", 3, 120), ("G3", 2, 120), ("X-bytes-then-msgs", 3, 120), ("X-msgs-then-bytes", 3, 120), ("H-huge-counts", 2, 120), ("D-dec-races-inc", 3, 120), ("E-two-decs", 3, 120)]
    };
    let mut units = vec![];
    let (mut iters, mut ops, mut violations, mut known_hits) = (0u64, 0u64, 0u64, 0u64);
    let mut exit = 0;
    let mut exhaustive = true;
    let mut caps = vec![];
    let results: Vec<_> = std::thread::scope(|s| {
        let hs: Vec<_> = plan.iter().map(|(m, pb, cap)| s.spawn(move || (*m, *pb, child(&["model", m, &pb.to_string()], *cap)))).collect();
        hs.into_iter().map(|h| h.join().unwrap()).collect()
    });
    for (m, pb, (code, text, timed_out)) in results {
        let desc = MODELS.iter().find(|x| x.0 == m).map(|x| x.1).unwrap_or("");
        let mut it = 0u64;
        let mut op_n = 0u64;
        for l in text.lines() {
            if let Some(rest) = l.strip_prefix("ITER ") {
                let p: Vec<&str> = rest.split_whitespace().collect();
                it = p[0].parse().unwrap_or(0);
                op_n = p.get(2).and_then(|x| x.parse().ok()).unwrap_or(0);
            }
        }
        iters += it;
        ops += op_n;
        let status = if timed_out {
            exhaustive = false;
            caps.push(format!("{} (preemption bound {}): wall-clock cap reached, not completed", m, pb));
            "capped"
        } else if code == Some(0) {
            "held"
        } else {
            "failed"
        };
        eprintln!("[C19] model {:<20} pb={} iterations={:<9} status={}", m, pb, it, status);
        units.push(serde_json::json!({"unit": format!("loom/{}", m), "what": desc, "preemption_bound": pb, "iterations": it, "operations": op_n, "status": status}));
        if status == "failed" {
            let sig = format!("loom/{}", m);
            let first: String = text.lines().filter(|l| l.contains("panicked") || l.contains("deadlock") || l.contains("resumed")).take(3).collect::<Vec<_>>().join(" | ");
            let _ = std::fs::create_dir_all(format!("{}/replays", out_dir()));
            let path = format!("{}/replays/C19-loom-{}-pb{}.json", out_dir(), m, pb);
            let _ = std::fs::write(&path, serde_json::to_string_pretty(&serde_json::json!({"property": "C19", "unit": format!("loom/{}", m), "signature": sig, "preemption_bound": pb, "detail": first, "output_tail": text.lines().rev().take(30).collect::<Vec<_>>()})).unwrap());
            if let Some(k) = known(&sig) {
                println!("KNOWN-FINDING: property=C19 {}", k);
                known_hits += 1;
            } else {
                println!("VIOLATION property=C19 replay={}", path);
                println!("  unit=loom/{} sig={} detail={}", m, sig, first);
                violations += 1;
                exit = 1;
            }
        }
    }
    // binding of the Notify model to tokio's Notify
    let len = if thorough { 11 } else { 9 };
    let (code, text, timed_out) = child(&["conform", &len.to_string()], 1500);
    let mut seqs = 0u64;
    let mut csteps = 0u64;
    for l in text.lines() {
        if let Some(rest) = l.strip_prefix("SEQS ") {
            let p: Vec<&str> = rest.split_whitespace().collect();
            seqs = p[0].parse().unwrap_or(0);
            csteps = p.get(2).and_then(|x| x.parse().ok()).unwrap_or(0);
        }
    }
    eprintln!("[C19] notify conformance len<={} sequences={} steps={} exit={:?}", len, seqs, csteps, code);
    units.push(serde_json::json!({"unit": "conformance/notify", "what": format!("every sequence of length <= {} over {{create k, poll k, drop k, notify_waiters, notify_one}} (k<3) executed on tokio::sync::Notify and on the model; every poll result and wake-up compared", len), "sequences": seqs, "steps": csteps, "status": if code == Some(0) { "agree" } else { "DISAGREE" }}));
    if timed_out || code != Some(0) {
        eprintln!("MACHINERY: the Notify model does not conform to tokio's Notify (or the run was cut short): {}", text.lines().last().unwrap_or(""));
        exit = exit.max(2);
    }
    let seed: i64 = std::env::var("VERIF_SEED").ok().and_then(|s| s.parse().ok()).unwrap_or(0);
    let doc = serde_json::json!({
        "property_id": "C19", "tier": tier, "seed": seed, "level": "model_checking",
        "coverage": {
            "states": iters.max(1), "transitions": (ops + csteps).max(1), "traces_validated_against_impl": seqs,
            "samples": units.iter().take(3).cloned().collect::<Vec<_>>(),
            "evaluations": iters.max(1), "distinct_nontrivial": units.len(),
            "rule": "states = loom executions (distinct thread interleavings x C11-permitted atomic outcomes, after loom's partial-order reduction) summed over the models, each within its preemption bound; transitions = FlowControl operations and polls executed in them plus conformance steps; traces_validated_against_impl = Notify action sequences on which the model and tokio::sync::Notify agreed; distinct_nontrivial = number of models + the conformance run",
            "exhaustive": exhaustive, "caps_hit": caps, "known_findings_seen": known_hits, "units": units,
        },
        "assumptions": ["loom's model of threads and C11 atomics", "the Notify model (bound to tokio::sync::Notify by the conformance run; linearizability of the real Notify operations assumed)", "flow_control.rs uses no synchronisation besides std atomics and tokio::sync::Notify (enforced by build.rs)"],
        "wall_s": start.elapsed().as_secs_f64(), "violations": violations,
    });
    let _ = std::fs::create_dir_all(format!("{}/evidence", out_dir()));
    std::fs::write(format!("{}/evidence/C19.json.tmp", out_dir()), serde_json::to_string_pretty(&doc).unwrap()).unwrap();
    std::fs::rename(format!("{}/evidence/C19.json.tmp", out_dir()), format!("{}/evidence/C19.json", out_dir())).unwrap();
    eprintln!("[C19] tier={} loom executions={} conformance sequences={} violations={} wall={:.1}s", tier, iters, seqs, violations, start.elapsed().as_secs_f64());
    exit
}

/// /verif, unless VERIF_OUT_DIR says otherwise (mutation lab).
fn out_dir() -> String {
    std::env::var("VERIF_OUT_DIR").unwrap_or_else(|_| "/verif".to_string())
}

fn main() {
    let args: Vec<String> = std::env::args().collect();
    match args.get(1).map(|s| s.as_str()) {
        Some("model") => {
            let pb = args.get(3).and_then(|s| s.parse().ok());
            run_model(&args[2], pb);
        }
        Some("conform") => {
            let len = args.get(2).and_then(|s| s.parse().ok()).unwrap_or(6);
            match conform(len) {
                Ok((s, st)) => println!("SEQS {} STEPS {}", s, st),
                Err(e) => {
                    println!("MISMATCH {}", e);
                    std::process::exit(1);
                }
            }
        }
        Some("check") => std::process::exit(check(args.get(2).map(|s| s.as_str()).unwrap_or("quick"))),
        Some("replay") => {
            let text = std::fs::read_to_string(&args[2]).expect("replay file");
            let doc: serde_json::Value = serde_json::from_str(&text).expect("json");
            let m = doc["unit"].as_str().unwrap_or("").trim_start_matches("loom/").to_string();
            let pb = doc["preemption_bound"].as_u64().unwrap_or(3);
            let (code, text, _) = child(&["model", &m, &pb.to_string()], 1500);
            println!("{}", text.lines().rev().take(12).collect::<Vec<_>>().into_iter().rev().collect::<Vec<_>>().join("\n"));
            if code == Some(0) {
                println!("replayed: model {} holds at preemption bound {}", m, pb);
            } else {
                println!("replayed: VIOLATION property=C19 replay={}", args[2]);
                std::process::exit(1);
            }
        }
        _ => {
            eprintln!("usage: loom-fc model <name> <pb> | conform <len> | check <tier> | replay <file>");
            std::process::exit(2);
        }
    }
}
