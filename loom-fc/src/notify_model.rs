// Model of the subset of tokio::sync::Notify that flow_control.rs uses: `notified()`, `notify_waiters()`,
// polling and dropping the `Notified` future.  `super::Mutex` is loom's mutex in the model-checking build
// and std's in the conformance build (same source, included twice).
use super::Mutex;
use std::future::Future;
use std::pin::Pin;
use std::task::{Context, Poll, Waker};

struct Inner {
    /// number of notify_waiters calls so far
    generation: u64,
    waiters: Vec<(u64, Waker)>,
    next_id: u64,
    /// permit stored by `notify_one` when nobody was waiting
    permit: bool,
    /// waiters that `notify_one` has selected but that have not been polled since
    selected: Vec<u64>,
}

pub struct Notify {
    inner: Mutex<Inner>,
}

pub struct Notified<'a> {
    notify: &'a Notify,
    /// generation observed when the future was created: tokio guarantees that a `Notified` receives
    /// `notify_waiters` wake-ups from the moment it is created, polled or not
    seen: u64,
    id: Option<u64>,
    done: bool,
}

impl Notify {
    pub fn new() -> Self {
        Notify { inner: Mutex::new(Inner { generation: 0, waiters: Vec::new(), next_id: 0, permit: false, selected: Vec::new() }) }
    }
    pub fn notified(&self) -> Notified<'_> {
        let g = self.inner.lock().unwrap().generation;
        Notified { notify: self, seen: g, id: None, done: false }
    }
    #[allow(dead_code)]
    pub fn notify_one(&self) {
        let waker = {
            let mut i = self.inner.lock().unwrap();
            if i.waiters.is_empty() {
                i.permit = true;
                None
            } else {
                let (id, w) = i.waiters.remove(0);
                i.selected.push(id);
                Some(w)
            }
        };
        if let Some(w) = waker {
            w.wake();
        }
    }
    pub fn notify_waiters(&self) {
        let wakers: Vec<Waker> = {
            let mut i = self.inner.lock().unwrap();
            i.generation += 1;
            i.waiters.drain(..).map(|(_, w)| w).collect()
        };
        for w in wakers {
            w.wake();
        }
    }
}

impl<'a> Future for Notified<'a> {
    type Output = ();
    fn poll(mut self: Pin<&mut Self>, cx: &mut Context<'_>) -> Poll<()> {
        if self.done {
            return Poll::Ready(());
        }
        let mut i = self.notify.inner.lock().unwrap();
        // a future that has not been polled yet first tries to consume a stored permit (as tokio does)
        if self.id.is_none() && i.permit {
            i.permit = false;
            drop(i);
            self.done = true;
            return Poll::Ready(());
        }
        if i.generation != self.seen {
            drop(i);
            self.done = true;
            self.id = None;
            return Poll::Ready(());
        }
        if let Some(id) = self.id {
            if let Some(p) = i.selected.iter().position(|x| *x == id) {
                i.selected.remove(p);
                drop(i);
                self.done = true;
                self.id = None;
                return Poll::Ready(());
            }
        } else if i.permit {
            i.permit = false;
            drop(i);
            self.done = true;
            return Poll::Ready(());
        }
        match self.id {
            Some(id) => {
                if let Some(e) = i.waiters.iter_mut().find(|e| e.0 == id) {
                    e.1 = cx.waker().clone();
                } else {
                    i.waiters.push((id, cx.waker().clone()));
                }
            }
            None => {
                let id = i.next_id;
                i.next_id += 1;
                i.waiters.push((id, cx.waker().clone()));
                drop(i);
                self.id = Some(id);
            }
        }
        Poll::Pending
    }
}

impl<'a> Drop for Notified<'a> {
    fn drop(&mut self) {
        if let Some(id) = self.id {
            let waker = {
                let mut i = self.notify.inner.lock().unwrap();
                i.waiters.retain(|e| e.0 != id);
                // a waiter that was selected by notify_one but dropped unpolled passes the notification on
                if let Some(p) = i.selected.iter().position(|x| *x == id) {
                    i.selected.remove(p);
                    if i.waiters.is_empty() {
                        i.permit = true;
                        None
                    } else {
                        let (nid, w) = i.waiters.remove(0);
                        i.selected.push(nid);
                        Some(w)
                    }
                } else {
                    None
                }
            };
            if let Some(w) = waker {
                w.wake();
            }
        }
    }
}
