//! Copies /repo/src/subscriptions/flow_control.rs (up to its test module) into OUT_DIR with its two imports
//! redirected to loom's atomics and to the Notify model.  The function bodies are the repository's, verbatim.
use std::{env, fs, path::PathBuf};
fn main() {
    let src = env::var("DELTIO_SRC").unwrap_or("/repo".into());
    let p = format!("{}/src/subscriptions/flow_control.rs", src);
    println!("cargo:rerun-if-changed={}", p);
    println!("cargo:rerun-if-env-changed=DELTIO_SRC");
    let s = fs::read_to_string(&p).expect("cannot read flow_control.rs");
    let cut = s.find("#[cfg(test)]").unwrap_or(s.len());
    let mut body = s[..cut].to_string();
    assert!(body.contains("std::sync::atomic"), "flow_control.rs no longer imports std::sync::atomic: adapt loom-fc/build.rs");
    assert!(body.contains("tokio::sync::Notify"), "flow_control.rs no longer imports tokio::sync::Notify: adapt loom-fc/build.rs");
    body = body.replace("std::sync::atomic", "loom::sync::atomic").replace("tokio::sync::Notify", "crate::loom_side::notify_model::Notify");
    // anything else from std::sync / tokio::sync would be invisible to loom: refuse to build rather than check vacuously
    for forbidden in ["std::sync::Mutex", "std::sync::RwLock", "std::thread", "tokio::sync::Mutex", "tokio::sync::Semaphore", "tokio::sync::mpsc", "tokio::sync::watch", "parking_lot"] {
        assert!(!body.contains(forbidden), "flow_control.rs now uses {}, which this harness does not redirect to loom", forbidden);
    }
    let out = PathBuf::from(env::var("OUT_DIR").unwrap()).join("flow_control.rs");
    fs::write(out, body).unwrap();
}
