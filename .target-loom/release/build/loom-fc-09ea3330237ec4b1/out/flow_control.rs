use loom::sync::atomic::{AtomicU64, Ordering};
use crate::loom_side::notify_model::Notify;

/// Provides best-effort flow control for a streaming pull subscriber.
///
/// Once either of the conditions have been met, backpressure will be applied.
pub struct FlowControl {
    /// The max amount of outstanding bytes before applying backpressure.
    max_outstanding_bytes: u64,

    /// The max amount of outstanding messages before applying backpressure.
    max_outstanding_messages: u64,

    /// The current amount of outstanding bytes.
    outstanding_bytes: AtomicU64,

    /// The current amount of outstanding messages.
    outstanding_messages: AtomicU64,

    /// The notifier used for checking whether we are able to continue.
    notifier: Notify,
}

impl FlowControl {
    /// Returns a future that completes when there is space available.
    /// The returned value contains how much is available.
    pub async fn wait_for_available_space(&self) {
        // Check if we have space available right now, and if not,
        // which of the limits is holding us back.
        let Some(mut limit) = self.exceeded_limit() else {
            return;
        };

        loop {
            // We didn't have space available; set up a notification
            // so we can wait for it and check again.
            let notified = self.notifier.notified();
            limit = match self.still_exceeded(limit) {
                Some(limit) => limit,
                None => return,
            };
            notified.await;
        }
    }

    /// Re-checks after having been held back by the given limit.
    ///
    /// Flow control doesn't actually trigger that frequently, but when it does every
    /// change wakes every waiter, so we avoid loading more than we have to.
    fn still_exceeded(&self, limit: Limit) -> Option<Limit> {
        match limit {
            // The bytes have not been looked at yet, do the full check.
            Limit::Messages => self.exceeded_limit(),
            // The messages limit is checked before the bytes limit, so
            // the bytes are all that we are waiting for.
            Limit::Bytes => {
                let outstanding_bytes = self.outstanding_bytes.load(Ordering::Acquire);
                (outstanding_bytes >= self.max_outstanding_bytes).then_some(Limit::Bytes)
            }
        }
    }

    /// Increments the outstanding values.
    pub fn inc(&self, outstanding_bytes_delta: u64, outstanding_messages_delta: u64) {
        // We only need Acq/Rel ordering because our changes are commutative.
        self.outstanding_bytes
            .fetch_add(outstanding_bytes_delta, Ordering::AcqRel);
        self.outstanding_messages
            .fetch_add(outstanding_messages_delta, Ordering::AcqRel);
        self.notifier.notify_waiters();
    }

    /// Increments the outstanding values.
    pub fn dec(&self, outstanding_bytes_delta: u64, outstanding_messages_delta: u64) {
        // We only need Acq/Rel ordering because our changes are commutative.
        self.outstanding_bytes
            .fetch_sub(outstanding_bytes_delta, Ordering::AcqRel);
        self.outstanding_messages
            .fetch_sub(outstanding_messages_delta, Ordering::AcqRel);
        self.notifier.notify_waiters();
    }

    /// Checks whether there is available space.
    ///
    /// This uses atomic load operations. It is acceptable that we go above
    /// the limits.
    pub fn has_available_space(&self) -> bool {
        self.exceeded_limit().is_none()
    }

    /// Returns the limit that has been reached, if any.
    fn exceeded_limit(&self) -> Option<Limit> {
        let outstanding_messages = self.outstanding_messages.load(Ordering::Acquire);
        if outstanding_messages >= self.max_outstanding_messages {
            return Some(Limit::Messages);
        }

        let outstanding_bytes = self.outstanding_bytes.load(Ordering::Acquire);
        if outstanding_bytes >= self.max_outstanding_bytes {
            return Some(Limit::Bytes);
        }

        None
    }
}

/// The limits that can hold back a subscriber.
#[derive(Debug, Clone, Copy, PartialEq, Eq)]
enum Limit {
    Messages,
    Bytes,
}

/// Provides flow control for a streaming pull subscriber.
///
/// Once either of the conditions have been met, backpressure will be applied.
pub fn create(max_outstanding_bytes: u64, max_outstanding_messages: u64) -> FlowControl {
    let outstanding_bytes = AtomicU64::new(0);
    let outstanding_messages = AtomicU64::new(0);

    let notifier = Notify::new();

    let control = FlowControl {
        max_outstanding_messages,
        max_outstanding_bytes,
        outstanding_bytes,
        outstanding_messages,
        notifier,
    };

    #[allow(clippy::let_and_return)]
    control
}

