use loom::sync::atomic::{AtomicU64, Ordering};
use crate::loom_side::notify_model::Notify;

/// Provides best-effort flow control for a streaming pull subscriber.
///
/// Once either of the conditions have been met, backpressure will be applied.
pub struct FlowControl {
    /// The max amount of outstanding bytes before applying backpressure.
    max_outstanding_bytes: u64,

    /// The max amount of outstanding messages before applying backpressure.
    max_outstanding_messages: u64,

    /// The current outstanding values, kept in a single word so that both of
    /// them are read and updated as one consistent snapshot: the message count
    /// lives in the upper half, the byte count in the lower half.
    outstanding: AtomicU64,

    /// The notifier used for checking whether we are able to continue.
    notifier: Notify,
}

/// The amount of bits used for the byte count in the packed word.
const BYTES_BITS: u32 = 32;

/// Packs the given values into a single word.
#[inline]
fn pack(bytes: u64, messages: u64) -> u64 {
    (messages << BYTES_BITS).wrapping_add(bytes)
}

impl FlowControl {
    /// Returns a future that completes when there is space available.
    /// The returned value contains how much is available.
    pub async fn wait_for_available_space(&self) {
        // Check if we have space available right now.
        // Flow control doesn't actually trigger that frequently, so checking twice
        // is acceptable.
        if self.has_available_space() {
            return;
        }

        loop {
            // We didn't have space available; set up a notification
            // so we can wait for it and check again.
            let notified = self.notifier.notified();
            if self.has_available_space() {
                return;
            }
            notified.await;
        }
    }

    /// Increments the outstanding values.
    pub fn inc(&self, outstanding_bytes_delta: u64, outstanding_messages_delta: u64) {
        // We only need Acq/Rel ordering because our changes are commutative.
        self.outstanding.fetch_add(
            pack(outstanding_bytes_delta, outstanding_messages_delta),
            Ordering::AcqRel,
        );
        self.notifier.notify_waiters();
    }

    /// Increments the outstanding values.
    pub fn dec(&self, outstanding_bytes_delta: u64, outstanding_messages_delta: u64) {
        // We only need Acq/Rel ordering because our changes are commutative.
        self.outstanding.fetch_sub(
            pack(outstanding_bytes_delta, outstanding_messages_delta),
            Ordering::AcqRel,
        );
        self.notifier.notify_waiters();
    }

    /// Checks whether there is available space.
    ///
    /// This uses a single atomic load operation, so both values belong to the
    /// same snapshot. It is acceptable that we go above the limits.
    pub fn has_available_space(&self) -> bool {
        let outstanding = self.outstanding.load(Ordering::Acquire);

        let available_messages = outstanding >> BYTES_BITS;
        if available_messages >= self.max_outstanding_messages {
            return false;
        }

        let available_bytes = outstanding & ((1 << BYTES_BITS) - 1);
        if available_bytes >= self.max_outstanding_bytes {
            return false;
        }

        true
    }
}

/// Provides flow control for a streaming pull subscriber.
///
/// Once either of the conditions have been met, backpressure will be applied.
pub fn create(max_outstanding_bytes: u64, max_outstanding_messages: u64) -> FlowControl {
    let outstanding = AtomicU64::new(pack(0, 0));

    let notifier = Notify::new();

    let control = FlowControl {
        max_outstanding_messages,
        max_outstanding_bytes,
        outstanding,
        notifier,
    };

    #[allow(clippy::let_and_return)]
    control
}

