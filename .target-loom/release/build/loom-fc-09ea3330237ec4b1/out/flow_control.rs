use loom::sync::atomic::{AtomicU64, Ordering};
use crate::loom_side::notify_model::Notify;

/// Provides best-effort flow control for a streaming pull subscriber.
///
/// Once either of the conditions have been met, backpressure will be applied.
pub struct FlowControl {
    /// The max amount of outstanding bytes before applying backpressure.
    max_outstanding_bytes: u64,

    /// The max amount of outstanding messages before applying backpressure.
    max_outstanding_messages: u64,

    /// The current amount of outstanding bytes.
    outstanding_bytes: AtomicU64,

    /// The current amount of outstanding messages.
    outstanding_messages: AtomicU64,

    /// The notifier used for checking whether we are able to continue.
    notifier: Notify,
}

impl FlowControl {
    /// Returns a future that completes when there is space available.
    /// The returned value contains how much is available.
    pub async fn wait_for_available_space(&self) {
        // Check if we have space available right now.
        // Flow control doesn't actually trigger that frequently, so checking twice
        // is acceptable.
        if self.has_available_space() {
            return;
        }

        loop {
            // We didn't have space available; set up a notification
            // so we can wait for it and check again.
            let notified = self.notifier.notified();
            if self.has_available_space() {
                return;
            }
            notified.await;
        }
    }

    /// Increments the outstanding values.
    pub fn inc(&self, outstanding_bytes_delta: u64, outstanding_messages_delta: u64) {
        // We only need Acq/Rel ordering because our changes are commutative.
        self.outstanding_bytes
            .fetch_add(outstanding_bytes_delta, Ordering::AcqRel);
        self.outstanding_messages
            .fetch_add(outstanding_messages_delta, Ordering::AcqRel);
        self.notifier.notify_waiters();
    }

    /// Increments the outstanding values.
    pub fn dec(&self, outstanding_bytes_delta: u64, outstanding_messages_delta: u64) {
        // We only need Acq/Rel ordering because our changes are commutative.
        self.outstanding_bytes
            .fetch_sub(outstanding_bytes_delta, Ordering::AcqRel);
        self.outstanding_messages
            .fetch_sub(outstanding_messages_delta, Ordering::AcqRel);
        self.notifier.notify_waiters();
    }

    /// Checks whether there is available space.
    ///
    /// This uses atomic load operations. It is acceptable that we go above
    /// the limits.
    pub fn has_available_space(&self) -> bool {
        let available_messages = self.outstanding_messages.load(Ordering::Acquire);
        if available_messages >= self.max_outstanding_messages {
            return false;
        }

        let available_bytes = self.outstanding_bytes.load(Ordering::Acquire);
        if available_bytes >= self.max_outstanding_bytes {
            return false;
        }

        true
    }
}

/// Provides flow control for a streaming pull subscriber.
///
/// Once either of the conditions have been met, backpressure will be applied.
pub fn create(max_outstanding_bytes: u64, max_outstanding_messages: u64) -> FlowControl {
    let outstanding_bytes = AtomicU64::new(0);
    let outstanding_messages = AtomicU64::new(0);

    let notifier = Notify::new();

    let control = FlowControl {
        max_outstanding_messages,
        max_outstanding_bytes,
        outstanding_bytes,
        outstanding_messages,
        notifier,
    };

    #[allow(clippy::let_and_return)]
    control
}

