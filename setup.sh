#!/usr/bin/env bash
# Builds everything the checks need, offline, from files on disk only.
set -euo pipefail
cd "$(dirname "$0")"
export CARGO_NET_OFFLINE=true
V=/verif
mkdir -p $V/.build $V/evidence $V/replays

# 1. tokio 1.40.0 (the version pinned by /repo/Cargo.lock) + hook patch.
TOKIO_VER=$(awk '/^name = "tokio"$/{getline; gsub(/[^0-9.]/,"",$3); print $3; exit}' /repo/Cargo.lock)
if [ "$TOKIO_VER" != "1.40.0" ]; then
  echo "setup: /repo/Cargo.lock pins tokio $TOKIO_VER, the hook patch is for 1.40.0" >&2
  exit 2
fi
if [ ! -f $V/.build/tokio-1.40.0/.patched ] || ! cmp -s $V/patches/tokio-verif-hook.patch $V/.build/tokio-1.40.0/.patched; then
  rm -rf $V/.build/tokio-1.40.0
  CRATE=$(ls /root/.cargo/registry/cache/*/tokio-1.40.0.crate | head -1)
  tar -xzf "$CRATE" -C $V/.build
  (cd $V/.build/tokio-1.40.0 && patch -s -p1 < $V/patches/tokio-verif-hook.patch)
  cp $V/patches/tokio-verif-hook.patch $V/.build/tokio-1.40.0/.patched
fi

# 2. Lock file: deltio's own, so every shared dependency is the version deltio ships with.
if [ ! -f $V/harness/Cargo.lock ]; then cp /repo/Cargo.lock $V/harness/Cargo.lock; fi

# 3. Build the engines.
(cd $V/harness && cargo build --release --offline 2>&1 | tail -3)
if [ -d $V/loom-fc ]; then (cd $V/loom-fc && cargo build --release --offline 2>&1 | tail -3); fi
echo "setup: ok"
