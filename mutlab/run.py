#!/usr/bin/env python3
"""Mutation lab, step 2: run every mutant from gen.py against the quick tiers.

Usage: run.py <mutants.jsonl> <results.jsonl> [workers=2] [lab=/tmp/mutlab]

Each worker has its own scratch copy of the repository (a git worktree of /repo's HEAD), its own copy of the harness
(path dependency rewritten to the scratch repository) and its own target directory, so /repo and /verif are untouched.
Per mutant: apply, build the harness (a compile error discards the mutant), run the quick tier of every dsched
property (fastest first, VERIF_STOP_AT_FIRST) until one reports a violation.  Survivors are then put through the
repository's own test suite; a survivor that also passes it is a gap to analyse by hand (or an equivalent mutant).
flow_control.rs mutants go to the loom engine (C19) built against the scratch repository (DELTIO_SRC).
Nothing here decides a property: it measures the checks.
"""
import json, os, shutil, subprocess, sys, threading, time

MUT, RES = sys.argv[1], sys.argv[2]
WORKERS = int(sys.argv[3]) if len(sys.argv) > 3 else 2
LAB = sys.argv[4] if len(sys.argv) > 4 else "/tmp/mutlab"
ORDER = ["C17", "C16", "C18", "C12", "C07", "C13", "C15", "C14", "C05", "C04", "C06", "C10", "C02", "C03", "C11", "C09", "C01", "C08"]
ENV = dict(os.environ, CARGO_NET_OFFLINE="true")


def sh(cmd, cwd=None, env=None, timeout=None):
    try:
        r = subprocess.run(cmd, shell=True, cwd=cwd, env=env or ENV, capture_output=True, text=True, timeout=timeout)
        return r.returncode, r.stdout + r.stderr
    except subprocess.TimeoutExpired as e:
        return 124, (e.stdout or b"").decode(errors="replace") if isinstance(e.stdout, bytes) else (e.stdout or "")


def setup(w):
    d = f"{LAB}/w{w}"
    if os.path.exists(f"{d}/ready"):
        return d
    os.makedirs(d, exist_ok=True)
    sh(f"git -C /repo worktree add --force --detach {d}/repo HEAD")
    shutil.copytree("/verif/harness", f"{d}/harness", dirs_exist_ok=True)
    t = open(f"{d}/harness/Cargo.toml").read().replace('path = "/repo"', f'path = "{d}/repo"').replace('path = "../.build/tokio-1.40.0"', 'path = "/verif/.build/tokio-1.40.0"')
    open(f"{d}/harness/Cargo.toml", "w").write(t)
    c = open(f"{d}/harness/.cargo/config.toml").read().replace('/verif/.target', f'{d}/target')
    open(f"{d}/harness/.cargo/config.toml", "w").write(c)
    shutil.copytree("/verif/loom-fc", f"{d}/loom-fc", dirs_exist_ok=True)
    for f in (f"{d}/loom-fc/.cargo/config.toml",):
        if os.path.exists(f):
            open(f, "w").write(open(f).read().replace('/verif/.target-loom', f'{d}/target-loom'))
    if not os.path.exists(f"{d}/target"):
        sh(f"cp -r /verif/.target {d}/target")
    rc, out = sh("cargo build --release --offline", cwd=f"{d}/harness", timeout=3600)
    if rc != 0:
        print(out[-3000:])
        raise SystemExit(f"worker {w}: baseline build failed")
    open(f"{d}/ready", "w").write("ok")
    return d


lock = threading.Lock()
todo = [json.loads(l) for l in open(MUT)]
done = set()
if os.path.exists(RES):
    for l in open(RES):
        done.add(json.loads(l)["id"])
todo = [m for m in todo if m["id"] not in done]
print(f"{len(todo)} mutants to run, {len(done)} already done", flush=True)


def run_one(d, m):
    path = f"{d}/repo/{m['file']}"
    src = open(path).read().split("\n")
    if src[m["line"] - 1] != m["old"]:
        return {"status": "stale"}
    src[m["line"] - 1] = m["new"]
    if m.get("consume_next"):
        del src[m["line"]]
    open(path, "w").write("\n".join(src))
    res = {"status": "survived", "runs": []}
    try:
        t0 = time.time()
        if m["file"].endswith("flow_control.rs"):
            env = dict(ENV, DELTIO_SRC=f"{d}/repo", CARGO_TARGET_DIR=f"{d}/target-loom")
            rc, out = sh("cargo build --release --offline", cwd=f"{d}/loom-fc", env=env, timeout=1800)
            if rc != 0:
                return {"status": "nocompile"}
            env["VERIF_OUT_DIR"] = f"{d}/out"
            env["LOOM_FC_BIN"] = f"{d}/target-loom/release/loom-fc"
            rc, out = sh(f"{d}/target-loom/release/loom-fc check quick", cwd=f"{d}/loom-fc", env=env, timeout=1800)
            res["runs"].append(["C19", rc])
            if rc == 1:
                v = [l for l in out.split("\n") if "unit=" in l]
                res.update(status="killed", by="C19", sig=(v[0].strip()[:200] if v else ""))
            elif rc != 0:
                res.update(status="machinery", by="C19", tail=out[-400:])
            return res
        rc, out = sh("cargo build --release --offline", cwd=f"{d}/harness", timeout=1800)
        if rc != 0:
            return {"status": "nocompile"}
        res["build_s"] = round(time.time() - t0, 1)
        env = dict(ENV, VERIF_OUT_DIR=f"{d}/out", VERIF_STOP_AT_FIRST="1")
        for p in ORDER:
            rc, out = sh(f"{d}/target/release/dsched check {p} --tier quick", env=env, timeout=900)
            res["runs"].append([p, rc])
            if rc == 1:
                v = [l for l in out.split("\n") if "unit=" in l and "sig=" in l]
                res.update(status="killed", by=p, sig=(v[0].strip()[:200] if v else ""))
                break
            if rc != 0:
                res.setdefault("machinery", []).append([p, rc, out[-300:]])
        if res["status"] == "survived":
            rc, out = sh("cargo test --workspace --no-fail-fast --offline 2>&1 | grep -E '^test result|FAILED|failed' | head -20", cwd=f"{d}/repo", timeout=1800)
            failed = sum(int(l.split("passed;")[1].split("failed")[0]) for l in out.split("\n") if l.startswith("test result"))
            res["baseline_failed"] = failed
            res["baseline_out"] = out[-600:] if failed else ""
        res["wall_s"] = round(time.time() - t0, 1)
        return res
    finally:
        sh(f"git -C {d}/repo checkout -- .")
        shutil.rmtree(f"{d}/out", ignore_errors=True)


def worker(w):
    d = setup(w)
    while True:
        with lock:
            if not todo:
                return
            m = todo.pop(0)
        r = run_one(d, m)
        r.update(m)
        with lock:
            open(RES, "a").write(json.dumps(r) + "\n")
            print(f"[w{w}] #{m['id']} {m['file']}:{m['line']} {m['op']}: {r['status']} {r.get('by','')} {r.get('sig','')[:90]} {r.get('wall_s','')}", flush=True)


ths = [threading.Thread(target=worker, args=(w,)) for w in range(WORKERS)]
for t in ths:
    t.start()
for t in ths:
    t.join()
print("done")
