#!/usr/bin/env python3
"""Mutation lab, step 1: enumerate first-order mutants of /repo/src (all of them for the listed operators, no sampling).

Prints one JSON object per mutant: {"id", "file", "line", "op", "old", "new"}.
Excluded: test modules, comments, log/tracing lines, cfg(deltio_verif) lines and the statement they guard, verif.rs,
main.rs, tracing, generated proto.  A mutant that does not compile is discarded later by the runner.
"""
import json, os, re, sys

ROOT = sys.argv[1] if len(sys.argv) > 1 else "/repo"
SKIP = {"src/verif.rs", "src/main.rs", "src/tracing/mod.rs", "src/pubsub_proto.rs", "src/lib.rs"}

REL = [(" < ", " <= "), (" <= ", " < "), (" > ", " >= "), (" >= ", " > "), (" == ", " != "), (" != ", " == "),
       (" < ", " > "), (" > ", " < ")]
SWAPS = [(" && ", " || "), (" || ", " && "), (".min(", ".max("), (".max(", ".min("),
         ("push_back(", "push_front("), ("push_front(", "push_back("), ("pop_front(", "pop_back("), ("pop_back(", "pop_front("),
         (".is_some()", ".is_none()"), (".is_none()", ".is_some()"), (".is_ok()", ".is_err()"), (".is_err()", ".is_ok()"),
         ("true", "false"), ("false", "true"), (" + ", " - "), (" - ", " + "), (" += ", " -= "), (" -= ", " += "),
         (" * ", " / "), (" / ", " * "), (" % ", " / "),
         (".first()", ".last()"), (".last()", ".first()"), ("notify_one()", "notify_waiters()"), ("notify_waiters()", "notify_one()"),
         (".saturating_sub(", ".wrapping_sub("), ("checked_add", "wrapping_add"),
         ("Ordering::Less", "Ordering::Greater"), ("Ordering::Greater", "Ordering::Less"),
         (".skip(", ".take("), (".iter().rev()", ".iter()"), ("split_off(", "truncate("), (".is_empty()", ".len() == 1"),
         ("if !", "if "), ("while !", "while "), ("..=", ".."), ("continue;", "break;"), ("break;", "continue;"),
         ("Code::NotFound", "Code::Internal"), ("not_found", "failed_precondition"), ("invalid_argument", "not_found"),
         ("already_exists", "not_found")]


def code_lines(path):
    out = []
    src = open(path).read().split("\n")
    in_test = False
    skip_next = False
    for i, l in enumerate(src):
        s = l.strip()
        if s.startswith("#[cfg(test)]"):
            in_test = True
        if in_test:
            continue
        if skip_next:
            skip_next = False
            continue
        if "cfg(deltio_verif)" in s or "cfg(not(deltio_verif))" in s:
            skip_next = True
            continue
        if not s or s.startswith("//") or s.startswith("#[") or s.startswith("use ") or s.startswith("pub use ") or s.startswith("mod ") or s.startswith("pub mod "):
            continue
        if "log::" in s or "tracing::" in s or "ActivitySpan" in s:
            continue
        out.append((i, l))
    return src, out


def strip_comment(l):
    k = l.find("//")
    return l if k < 0 else l[:k]


def main():
    n = 0
    for d, _, fs in sorted(os.walk(os.path.join(ROOT, "src"))):
        for f in sorted(fs):
            p = os.path.join(d, f)
            rel = os.path.relpath(p, ROOT)
            if not f.endswith(".rs") or rel in SKIP:
                continue
            src, lines = code_lines(p)
            for i, l in lines:
                code = strip_comment(l)
                s = code.strip()
                cands = []
                # 1. statement deletion: a line that is one complete call statement
                if re.match(r"^[A-Za-z_][\w\.:&\(\)\[\]<>, \*\"'!\|\-\+/%=\?\{\}]*\);$", s) and not s.startswith(("let ", "return", "pub ", "fn ", "type ", "const ", "static ", "assert", "debug_assert", "panic", "unreachable")):
                    cands.append(("delete-stmt", l, re.sub(r"\S.*$", "();", code, count=1) if False else code.replace(s, "{}")))
                elif re.match(r"^[A-Za-z_][^;]*(\)\?;|\.await;|\.await\?;)$", s) and not s.startswith(("let ", "return", "pub ", "fn ", "yield ")):
                    cands.append(("delete-stmt", l, code.replace(s, "{}")))
                # 2. operator / token swaps (each occurrence separately)
                for a, b in REL + SWAPS:
                    start = 0
                    while True:
                        k = code.find(a, start)
                        if k < 0:
                            break
                        start = k + len(a)
                        if a in ("true", "false") and (code[k - 1:k].isalnum() or code[k - 1:k] == "_" or code[k + len(a):k + len(a) + 1].isalnum() or code[k + len(a):k + len(a) + 1] == "_"):
                            continue
                        # do not touch string literals
                        if code[:k].count('"') % 2 == 1:
                            continue
                        cands.append((f"swap {a.strip()}->{b.strip()}", l, code[:k] + b + code[k + len(a):]))
                # 3. integer literals: n -> n+1, n -> n-1 (n>0), skipping string literals and tuple fields
                for m in re.finditer(r"(?<![\w\.\"'])(\d[\d_]*)(?![\w\"'\.]|\s*\.\.)", code):
                    if code[:m.start()].count('"') % 2 == 1:
                        continue
                    v = int(m.group(1).replace("_", ""))
                    for nv in ([v + 1] + ([v - 1] if v > 0 else [])):
                        cands.append((f"int {v}->{nv}", l, code[:m.start()] + str(nv) + code[m.end():]))
                # 4. condition negation
                m = re.match(r"^(\s*(?:\} else )?if )(?!let )(.*) \{$", code)
                if m and not m.group(2).startswith("!"):
                    cands.append(("negate-if", l, f"{m.group(1)}!({m.group(2)}) {{"))
                # 5. swap this statement with the next one (both complete one-line statements at the same indentation)
                nxt = [x for x in lines if x[0] == i + 1]
                if nxt and s.endswith(";") and not s.startswith(("return", "break", "continue", "}")):
                    l2 = strip_comment(nxt[0][1])
                    s2 = l2.strip()
                    ind = lambda x: len(x) - len(x.lstrip())
                    if s2.endswith(";") and ind(code) == ind(l2) and not s2.startswith(("return", "break", "continue", "}")) and s.count("(") == s.count(")") and s2.count("(") == s2.count(")") and s != s2:
                        cands.append(("swap-with-next", l, l2 + "\n" + code))
                # 6. early return of unit functions' guards: `return;` removal / `?` dropped are left to compile errors
                seen = set()
                for op, old, new in cands:
                    if new == old or (op, new) in seen:
                        continue
                    seen.add((op, new))
                    n += 1
                    print(json.dumps({"id": n, "file": rel, "line": i + 1, "op": op, "old": old, "new": new, "consume_next": op == "swap-with-next"}))


main()
