//! Free-running multi-threaded stress tests: every scenario repeats a small race many
//! times against a real server (unix socket, tokio multi_thread runtime) and asserts a
//! semantic property. Every await is bounded, so a hang is reported instead of blocking.
#![allow(deprecated, dead_code, unused_imports, clippy::all)]

pub mod push_server;
pub mod test_helpers;

use deltio::pubsub_proto::publisher_client::PublisherClient;
use deltio::pubsub_proto::subscriber_client::SubscriberClient;
use deltio::pubsub_proto::{
    AcknowledgeRequest, DeleteSubscriptionRequest, DeleteTopicRequest, GetSubscriptionRequest,
    GetTopicRequest, ListSubscriptionsRequest, ListTopicSubscriptionsRequest, ListTopicsRequest,
    ModifyAckDeadlineRequest, PublishRequest, PubsubMessage, PullRequest, PushConfig,
    ReceivedMessage, StreamingPullRequest, StreamingPullResponse, Subscription, Topic,
};
use deltio::Deltio;
use futures::FutureExt;
use hyper_util::rt::TokioIo;
use rand::Rng;
use std::collections::{BTreeMap, HashMap, HashSet};
use std::future::Future;
use std::sync::atomic::{AtomicBool, AtomicUsize, Ordering};
use std::sync::{Arc, Mutex};
use std::time::{Duration, Instant};
use tokio::net::{UnixListener, UnixStream};
use tokio::sync::{mpsc, Barrier};
use tokio::task::JoinHandle;
use tokio_stream::wrappers::UnixListenerStream;
use tonic::transport::{Channel, Endpoint};
use tonic::{Code, Status, Streaming};
use tower::service_fn;
use uuid::Uuid;

/// Bound for calls that must simply terminate.
const HANG: Duration = Duration::from_secs(10);
/// Bound for "a waiting consumer is woken promptly".
const WAKE: Duration = Duration::from_secs(5);

fn rnd(n: u64) -> u64 {
    if n == 0 {
        0
    } else {
        rand::thread_rng().gen_range(0..n)
    }
}

fn scale(rounds: usize) -> usize {
    let pct: usize = std::env::var("MT_SCALE")
        .ok()
        .and_then(|v| v.parse().ok())
        .unwrap_or(100);
    (rounds * pct / 100).max(1)
}

fn tn(project: &str, id: &str) -> String {
    format!("projects/{project}/topics/{id}")
}
fn sn(project: &str, id: &str) -> String {
    format!("projects/{project}/subscriptions/{id}")
}

// ---------------------------------------------------------------------------------------
// Report
// ---------------------------------------------------------------------------------------

struct Report {
    name: &'static str,
    fails: Mutex<Vec<String>>,
    notes: Mutex<BTreeMap<String, u64>>,
    rounds: AtomicUsize,
}

impl Report {
    fn new(name: &'static str) -> Arc<Self> {
        Arc::new(Self {
            name,
            fails: Mutex::new(vec![]),
            notes: Mutex::new(BTreeMap::new()),
            rounds: AtomicUsize::new(0),
        })
    }
    fn fail(&self, msg: String) {
        eprintln!("FAIL[{}]: {}", self.name, msg);
        self.fails.lock().unwrap().push(msg);
    }
    fn note(&self, key: &str) {
        *self.notes.lock().unwrap().entry(key.to_string()).or_insert(0) += 1;
    }
    fn round_done(&self) {
        self.rounds.fetch_add(1, Ordering::Relaxed);
    }
    fn too_many(&self) -> bool {
        self.fails.lock().unwrap().len() >= 10
    }
    fn finish(&self) {
        let fails = self.fails.lock().unwrap();
        let notes = self.notes.lock().unwrap();
        eprintln!(
            "REPORT[{}]: rounds={} failures={} notes={:?}",
            self.name,
            self.rounds.load(Ordering::Relaxed),
            fails.len(),
            *notes
        );
        assert!(
            fails.is_empty(),
            "{}: {} failure(s) in {} rounds; first: {}",
            self.name,
            fails.len(),
            self.rounds.load(Ordering::Relaxed),
            fails[0]
        );
    }
}

/// Awaits `f`, reporting a hang if it does not finish within `HANG`.
async fn tmo<T>(rep: &Report, what: &str, f: impl Future<Output = T>) -> Option<T> {
    match tokio::time::timeout(HANG, f).await {
        Ok(v) => Some(v),
        Err(_) => {
            rep.fail(format!("HANG (> {:?}): {}", HANG, what));
            None
        }
    }
}

/// Busy-yielding delay with microsecond precision (tokio timers have 1 ms granularity).
async fn spin_delay(us: u64) {
    let deadline = Instant::now() + Duration::from_micros(us);
    while Instant::now() < deadline {
        tokio::task::yield_now().await;
    }
}

/// Runs `f` but abandons (drops) it after `us` microseconds.
async fn abandon_after<T>(us: u64, f: impl Future<Output = T>) -> Option<T> {
    tokio::select! {
        biased;
        v = f => Some(v),
        _ = spin_delay(us) => None,
    }
}

/// A varying short delay so that the next step races differently with what was started.
async fn pre_delay(round: usize) {
    match round % 5 {
        0 => {}
        1 => {
            for _ in 0..3 {
                tokio::task::yield_now().await
            }
        }
        2 => spin_delay(100 + rnd(400)).await,
        3 => tokio::time::sleep(Duration::from_millis(2)).await,
        _ => spin_delay(rnd(1500)).await,
    }
}

// ---------------------------------------------------------------------------------------
// Host: a real server on a unix socket plus a pool of client connections.
// ---------------------------------------------------------------------------------------

struct Host {
    sock_file: String,
    shutdown: Mutex<Option<tokio::sync::oneshot::Sender<()>>>,
    join: Mutex<Option<JoinHandle<()>>>,
    channels: Vec<Channel>,
    /// A connection that is never used for abandoned requests (a flood of client resets
    /// makes the h2 server close the connection with GOAWAY "too_many_resets").
    control: Channel,
    next: AtomicUsize,
}

impl Host {
    async fn start(n_channels: usize) -> Arc<Host> {
        let sock_file = {
            let dir = std::env::temp_dir().into_os_string().into_string().unwrap();
            format!("{}/{}.sock", dir, Uuid::new_v4())
        };
        let listener = UnixListener::bind(&sock_file).unwrap();
        let uds_stream = UnixListenerStream::new(listener);
        let (shutdown_send, shutdown_recv) = tokio::sync::oneshot::channel::<()>();
        let app = Deltio::new();
        let server_builder = app.server_builder();
        let shutdown_fut = async { shutdown_recv.await.unwrap_or(()) }.shared();
        let server_fut = {
            let shutdown_fut = shutdown_fut.clone();
            async move {
                server_builder
                    .serve_with_incoming_shutdown(uds_stream, shutdown_fut)
                    .await
                    .unwrap();
            }
        };
        let push_loop = app.push_loop(Duration::from_secs(1));
        let push_loop_fut = async move {
            tokio::select! {
                _ = push_loop.run() => {},
                _ = shutdown_fut => {},
            }
        };
        let join = tokio::spawn(async move {
            tokio::join!(server_fut, push_loop_fut);
        });

        let mut channels = vec![];
        for _ in 0..n_channels + 1 {
            let channel = Endpoint::try_from("http://doesnt.matter")
                .unwrap()
                .connect_with_connector(service_fn({
                    let sock_file = Arc::new(sock_file.clone());
                    move |_| {
                        let sock_file = Arc::clone(&sock_file);
                        async move {
                            Ok::<_, std::io::Error>(TokioIo::new(
                                UnixStream::connect(sock_file.as_ref()).await?,
                            ))
                        }
                    }
                }))
                .await
                .unwrap();
            channels.push(channel);
        }
        let control = channels.pop().unwrap();
        Arc::new(Host {
            control,
            sock_file,
            shutdown: Mutex::new(Some(shutdown_send)),
            join: Mutex::new(Some(join)),
            channels,
            next: AtomicUsize::new(0),
        })
    }

    /// A client pair on the next connection of the pool.
    fn cl(&self) -> Cl {
        let i = self.next.fetch_add(1, Ordering::Relaxed) % self.channels.len();
        let ch = self.channels[i].clone();
        Cl {
            p: PublisherClient::new(ch.clone()),
            s: SubscriberClient::new(ch),
        }
    }

    /// A client pair on the control connection.
    fn ctl(&self) -> Cl {
        Cl {
            p: PublisherClient::new(self.control.clone()),
            s: SubscriberClient::new(self.control.clone()),
        }
    }

    async fn dispose(&self) {
        if let Some(s) = self.shutdown.lock().unwrap().take() {
            let _ = s.send(());
        }
        let join = self.join.lock().unwrap().take();
        if let Some(join) = join {
            let _ = tokio::time::timeout(Duration::from_secs(3), join).await;
        }
        let _ = std::fs::remove_file(&self.sock_file);
    }
}

type StreamPair = (mpsc::Sender<StreamingPullRequest>, Streaming<StreamingPullResponse>);

#[derive(Clone)]
struct Cl {
    p: PublisherClient<Channel>,
    s: SubscriberClient<Channel>,
}

impl Cl {
    async fn create_topic(&mut self, t: &str) -> Result<(), Status> {
        self.p
            .create_topic(Topic {
                name: t.to_string(),
                ..Default::default()
            })
            .await
            .map(|_| ())
    }
    async fn delete_topic(&mut self, t: &str) -> Result<(), Status> {
        self.p
            .delete_topic(DeleteTopicRequest {
                topic: t.to_string(),
            })
            .await
            .map(|_| ())
    }
    async fn get_topic(&mut self, t: &str) -> Result<(), Status> {
        self.p
            .get_topic(GetTopicRequest {
                topic: t.to_string(),
            })
            .await
            .map(|_| ())
    }
    async fn create_sub(&mut self, s: &str, t: &str) -> Result<Subscription, Status> {
        self.s
            .create_subscription(Subscription {
                name: s.to_string(),
                topic: t.to_string(),
                ..Default::default()
            })
            .await
            .map(|r| r.into_inner())
    }
    async fn create_push_sub(&mut self, s: &str, t: &str, url: &str) -> Result<Subscription, Status> {
        self.s
            .create_subscription(Subscription {
                name: s.to_string(),
                topic: t.to_string(),
                push_config: Some(PushConfig {
                    attributes: Default::default(),
                    authentication_method: None,
                    push_endpoint: url.to_string(),
                }),
                ..Default::default()
            })
            .await
            .map(|r| r.into_inner())
    }
    async fn delete_sub(&mut self, s: &str) -> Result<(), Status> {
        self.s
            .delete_subscription(DeleteSubscriptionRequest {
                subscription: s.to_string(),
            })
            .await
            .map(|_| ())
    }
    async fn get_sub(&mut self, s: &str) -> Result<Subscription, Status> {
        self.s
            .get_subscription(GetSubscriptionRequest {
                subscription: s.to_string(),
            })
            .await
            .map(|r| r.into_inner())
    }
    async fn publish(&mut self, t: &str, datas: Vec<String>) -> Result<Vec<String>, Status> {
        self.p
            .publish(PublishRequest {
                topic: t.to_string(),
                messages: datas
                    .into_iter()
                    .map(|d| PubsubMessage {
                        data: d.into_bytes(),
                        ..Default::default()
                    })
                    .collect(),
            })
            .await
            .map(|r| r.into_inner().message_ids)
    }
    async fn pull(&mut self, s: &str, max: i32, ri: bool) -> Result<Vec<ReceivedMessage>, Status> {
        self.s
            .pull(PullRequest {
                subscription: s.to_string(),
                return_immediately: ri,
                max_messages: max,
            })
            .await
            .map(|r| r.into_inner().received_messages)
    }
    async fn ack(&mut self, s: &str, ack_ids: Vec<String>) -> Result<(), Status> {
        self.s
            .acknowledge(AcknowledgeRequest {
                subscription: s.to_string(),
                ack_ids,
            })
            .await
            .map(|_| ())
    }
    async fn modack(&mut self, s: &str, ack_ids: Vec<String>, secs: i32) -> Result<(), Status> {
        self.s
            .modify_ack_deadline(ModifyAckDeadlineRequest {
                subscription: s.to_string(),
                ack_ids,
                ack_deadline_seconds: secs,
            })
            .await
            .map(|_| ())
    }
    async fn list_topics(&mut self, project: &str) -> Result<Vec<String>, Status> {
        self.p
            .list_topics(ListTopicsRequest {
                project: format!("projects/{project}"),
                page_size: 1000,
                page_token: String::new(),
            })
            .await
            .map(|r| r.into_inner().topics.into_iter().map(|t| t.name).collect())
    }
    async fn list_subs(&mut self, project: &str) -> Result<Vec<Subscription>, Status> {
        self.s
            .list_subscriptions(ListSubscriptionsRequest {
                project: format!("projects/{project}"),
                page_size: 1000,
                page_token: String::new(),
            })
            .await
            .map(|r| r.into_inner().subscriptions)
    }
    async fn list_topic_subs(&mut self, t: &str) -> Result<Vec<String>, Status> {
        self.p
            .list_topic_subscriptions(ListTopicSubscriptionsRequest {
                topic: t.to_string(),
                page_size: 1000,
                page_token: String::new(),
            })
            .await
            .map(|r| r.into_inner().subscriptions)
    }
    async fn open_stream(&mut self, s: &str, max_outstanding: i64) -> Result<StreamPair, Status> {
        let (send_request, mut outgoing) = mpsc::channel::<StreamingPullRequest>(100);
        let subscription = s.to_string();
        let response = self
            .s
            .streaming_pull(async_stream::stream! {
                yield StreamingPullRequest {
                    subscription,
                    client_id: Uuid::new_v4().to_string(),
                    max_outstanding_messages: max_outstanding,
                    max_outstanding_bytes: 100_000_000,
                    ..Default::default()
                };
                while let Some(request) = outgoing.recv().await {
                    yield request;
                }
            })
            .await?;
        Ok((send_request, response.into_inner()))
    }
}

/// Creates a topic and subscriptions on it; reports and returns false on any problem.
async fn setup(rep: &Report, c: &mut Cl, t: &str, subs: &[&str]) -> bool {
    match tmo(rep, "setup CreateTopic", c.create_topic(t)).await {
        Some(Ok(())) => {}
        Some(Err(e)) => {
            rep.fail(format!("setup: CreateTopic {t} failed: {e:?}"));
            return false;
        }
        None => return false,
    }
    for s in subs {
        match tmo(rep, "setup CreateSubscription", c.create_sub(s, t)).await {
            Some(Ok(_)) => {}
            Some(Err(e)) => {
                rep.fail(format!("setup: CreateSubscription {s} failed: {e:?}"));
                return false;
            }
            None => return false,
        }
    }
    true
}

/// Best-effort clean-up (keeps the server's state small); hangs are still reported.
async fn cleanup(rep: &Report, c: &mut Cl, t: &str, subs: &[&str]) {
    for s in subs {
        let _ = tmo(rep, "cleanup DeleteSubscription", c.delete_sub(s)).await;
    }
    let _ = tmo(rep, "cleanup DeleteTopic", c.delete_topic(t)).await;
}

/// Runs `$round(host, rep, lane, round)` for `$rounds` rounds on `$lanes` concurrent lanes.
macro_rules! lanes {
    ($host:expr, $rep:expr, $lanes:expr, $rounds:expr, $round:ident) => {{
        let mut handles = vec![];
        for lane in 0..$lanes {
            let host = Arc::clone(&$host);
            let rep = Arc::clone(&$rep);
            let rounds = $rounds;
            handles.push(tokio::spawn(async move {
                for round in 0..rounds {
                    if rep.too_many() {
                        break;
                    }
                    $round(&host, &rep, lane, round).await;
                    rep.round_done();
                }
            }));
        }
        for h in handles {
            h.await.unwrap();
        }
    }};
}

/// Joins a spawned call with a bound; aborts and reports it if it does not finish.
async fn join_within<T>(
    rep: &Report,
    d: Duration,
    what: &str,
    mut h: JoinHandle<T>,
) -> Option<T> {
    match tokio::time::timeout(d, &mut h).await {
        Ok(Ok(v)) => Some(v),
        Ok(Err(e)) => {
            rep.fail(format!("{what}: task failed: {e:?}"));
            None
        }
        Err(_) => {
            h.abort();
            rep.fail(format!("NOT FINISHED within {d:?}: {what}"));
            None
        }
    }
}

// ---------------------------------------------------------------------------------------
// S01 (C01/C06/C15): k blocked unary Pulls (max 1), k concurrent single-message publishes.
// Every Pull must return exactly one message, all distinct.
// ---------------------------------------------------------------------------------------

async fn s01_round(host: &Arc<Host>, rep: &Arc<Report>, lane: usize, round: usize) {
    let t = tn("s01", &format!("t{lane}-{round}"));
    let s = sn("s01", &format!("s{lane}-{round}"));
    let mut c = host.cl();
    if !setup(rep, &mut c, &t, &[&s]).await {
        return;
    }
    let k = 1 + (round % 7);
    let mut pulls = vec![];
    for _ in 0..k {
        let mut c = host.cl();
        let s = s.clone();
        pulls.push(tokio::spawn(async move { c.pull(&s, 1, false).await }));
    }
    pre_delay(round).await;
    let barrier = Arc::new(Barrier::new(k));
    let mut pubs = vec![];
    for i in 0..k {
        let mut c = host.cl();
        let t = t.clone();
        let barrier = barrier.clone();
        pubs.push(tokio::spawn(async move {
            barrier.wait().await;
            c.publish(&t, vec![format!("m{i}")]).await
        }));
    }
    let mut published = HashSet::new();
    for h in pubs {
        match join_within(rep, HANG, "Publish", h).await {
            Some(Ok(ids)) => published.extend(ids),
            Some(Err(e)) => rep.fail(format!("round {lane}/{round}: Publish failed: {e:?}")),
            None => {}
        }
    }
    let mut got = HashSet::new();
    for (i, h) in pulls.into_iter().enumerate() {
        let what = format!(
            "round {lane}/{round}: blocked Pull #{i} of {k} (max_messages=1) after {k} publishes completed"
        );
        match join_within(rep, WAKE, &what, h).await {
            Some(Ok(msgs)) => {
                if msgs.len() != 1 {
                    rep.fail(format!("{what}: returned {} messages", msgs.len()));
                }
                for m in msgs {
                    let id = m.message.unwrap().message_id;
                    if !got.insert(id.clone()) {
                        rep.fail(format!("{what}: message {id} delivered twice"));
                    }
                }
            }
            Some(Err(e)) => rep.fail(format!("{what}: error {e:?}")),
            None => {}
        }
    }
    if got != published && !rep.too_many() {
        rep.fail(format!(
            "round {lane}/{round}: received {got:?} != published {published:?}"
        ));
    }
    cleanup(rep, &mut c, &t, &[&s]).await;
}

#[tokio::test(flavor = "multi_thread", worker_threads = 8)]
async fn s01_publish_wakes_blocked_pulls() {
    let host = Host::start(4).await;
    let rep = Report::new("s01");
    lanes!(host, rep, 4, scale(150), s01_round);
    host.dispose().await;
    rep.finish();
}

// ---------------------------------------------------------------------------------------
// S02 (C01/C03/C06/C08): k open StreamingPulls, concurrent publishers. All messages must
// arrive promptly, none twice, ack IDs unique; with one stream, in message-ID order.
// ---------------------------------------------------------------------------------------

async fn s02_round(host: &Arc<Host>, rep: &Arc<Report>, lane: usize, round: usize) {
    let t = tn("s02", &format!("t{lane}-{round}"));
    let s = sn("s02", &format!("s{lane}-{round}"));
    let mut c = host.cl();
    if !setup(rep, &mut c, &t, &[&s]).await {
        return;
    }
    let k = 1 + (round % 4);
    let max_out = [1i64, 2, 100][round % 3];
    let (tx, mut rx) = mpsc::unbounded_channel::<(usize, Result<Vec<ReceivedMessage>, Status>)>();
    let mut readers = vec![];
    let mut keep = vec![];
    for i in 0..k {
        let mut c = host.cl();
        let (sender, mut stream) = match tmo(rep, "open StreamingPull", c.open_stream(&s, max_out)).await {
            Some(Ok(p)) => p,
            Some(Err(e)) => {
                rep.fail(format!("round {lane}/{round}: StreamingPull open failed: {e:?}"));
                return;
            }
            None => return,
        };
        keep.push(sender);
        let tx = tx.clone();
        readers.push(tokio::spawn(async move {
            loop {
                match stream.message().await {
                    Ok(Some(r)) => {
                        let _ = tx.send((i, Ok(r.received_messages)));
                    }
                    Ok(None) => {
                        let _ = tx.send((i, Err(Status::ok("end of stream"))));
                        break;
                    }
                    Err(e) => {
                        let _ = tx.send((i, Err(e)));
                        break;
                    }
                }
            }
        }));
    }
    pre_delay(round).await;
    let p = 1 + (round / 4) % 5;
    let per = 1 + (round / 20) % 3;
    let barrier = Arc::new(Barrier::new(p));
    let mut pubs = vec![];
    for i in 0..p {
        let mut c = host.cl();
        let t = t.clone();
        let barrier = barrier.clone();
        pubs.push(tokio::spawn(async move {
            barrier.wait().await;
            let mut ids = vec![];
            for j in 0..2 {
                let datas = (0..per).map(|x| format!("m{i}-{j}-{x}")).collect();
                ids.extend(c.publish(&t, datas).await?);
            }
            Ok::<_, Status>(ids)
        }));
    }
    let mut published = HashSet::new();
    for h in pubs {
        match join_within(rep, HANG, "Publish", h).await {
            Some(Ok(ids)) => published.extend(ids),
            Some(Err(e)) => rep.fail(format!("round {lane}/{round}: Publish failed: {e:?}")),
            None => {}
        }
    }
    let deadline = tokio::time::Instant::now() + WAKE;
    let mut got: HashMap<String, usize> = HashMap::new();
    let mut ack_ids = HashSet::new();
    let mut order: Vec<u64> = vec![];
    while got.len() < published.len() {
        match tokio::time::timeout_at(deadline, rx.recv()).await {
            Ok(Some((i, Ok(msgs)))) => {
                if max_out > 0 && msgs.len() as i64 > max_out {
                    rep.fail(format!(
                        "round {lane}/{round}: response with {} messages > max_outstanding_messages {max_out}",
                        msgs.len()
                    ));
                }
                for m in msgs {
                    let id = m.message.unwrap().message_id;
                    if !ack_ids.insert(m.ack_id.clone()) {
                        rep.fail(format!("round {lane}/{round}: ack id {} reused", m.ack_id));
                    }
                    order.push(id.parse().unwrap_or(0));
                    if let Some(prev) = got.insert(id.clone(), i) {
                        rep.fail(format!(
                            "round {lane}/{round}: message {id} delivered twice (streams {prev} and {i}) without nack/expiry"
                        ));
                    }
                }
            }
            Ok(Some((i, Err(e)))) => {
                rep.fail(format!("round {lane}/{round}: stream {i} ended unexpectedly: {e:?}"));
                break;
            }
            Ok(None) => break,
            Err(_) => {
                let missing: Vec<_> = published.iter().filter(|m| !got.contains_key(*m)).collect();
                rep.fail(format!(
                    "round {lane}/{round}: {} of {} published messages not delivered within {WAKE:?} to {k} open StreamingPull(s) (max_outstanding={max_out}): {missing:?}",
                    missing.len(),
                    published.len()
                ));
                break;
            }
        }
    }
    if k == 1 && order.windows(2).any(|w| w[0] >= w[1]) {
        rep.fail(format!("round {lane}/{round}: single stream received out of order: {order:?}"));
    }
    for r in readers {
        r.abort();
    }
    drop(keep);
    cleanup(rep, &mut c, &t, &[&s]).await;
}

#[tokio::test(flavor = "multi_thread", worker_threads = 8)]
async fn s02_publish_wakes_streaming_pulls() {
    let host = Host::start(4).await;
    let rep = Report::new("s02");
    lanes!(host, rep, 4, scale(120), s02_round);
    host.dispose().await;
    rep.finish();
}

// ---------------------------------------------------------------------------------------
// S03 (C05/C06): k blocked Pulls; a nack (ModifyAckDeadline 0) and k-1 publishes at the
// same instant. Every Pull must get exactly one message.
// ---------------------------------------------------------------------------------------

async fn s03_round(host: &Arc<Host>, rep: &Arc<Report>, lane: usize, round: usize) {
    let t = tn("s03", &format!("t{lane}-{round}"));
    let s = sn("s03", &format!("s{lane}-{round}"));
    let mut c = host.cl();
    if !setup(rep, &mut c, &t, &[&s]).await {
        return;
    }
    let first = match tmo(rep, "Publish", c.publish(&t, vec!["first".into()])).await {
        Some(Ok(ids)) => ids[0].clone(),
        other => {
            rep.fail(format!("round {lane}/{round}: first publish: {other:?}"));
            return;
        }
    };
    let ack_id = match tmo(rep, "Pull", c.pull(&s, 1, false)).await {
        Some(Ok(msgs)) if msgs.len() == 1 => msgs[0].ack_id.clone(),
        other => {
            rep.fail(format!("round {lane}/{round}: first pull: {other:?}"));
            return;
        }
    };
    let k = 1 + (round % 5);
    let mut pulls = vec![];
    for _ in 0..k {
        let mut c = host.cl();
        let s = s.clone();
        pulls.push(tokio::spawn(async move { c.pull(&s, 1, false).await }));
    }
    pre_delay(round).await;
    let barrier = Arc::new(Barrier::new(k));
    let mut acts: Vec<JoinHandle<Result<Vec<String>, Status>>> = vec![];
    {
        let mut c = host.cl();
        let s = s.clone();
        let barrier = barrier.clone();
        acts.push(tokio::spawn(async move {
            barrier.wait().await;
            c.modack(&s, vec![ack_id], 0).await.map(|_| vec![])
        }));
    }
    for i in 1..k {
        let mut c = host.cl();
        let t = t.clone();
        let barrier = barrier.clone();
        acts.push(tokio::spawn(async move {
            barrier.wait().await;
            c.publish(&t, vec![format!("m{i}")]).await
        }));
    }
    let mut expected: HashSet<String> = HashSet::from([first]);
    for h in acts {
        match join_within(rep, HANG, "nack/publish", h).await {
            Some(Ok(ids)) => expected.extend(ids),
            Some(Err(e)) => rep.fail(format!("round {lane}/{round}: nack/publish failed: {e:?}")),
            None => {}
        }
    }
    let mut got = HashSet::new();
    for (i, h) in pulls.into_iter().enumerate() {
        let what = format!(
            "round {lane}/{round}: blocked Pull #{i} of {k} (max 1) after 1 nack + {} publishes",
            k - 1
        );
        match join_within(rep, WAKE, &what, h).await {
            Some(Ok(msgs)) => {
                if msgs.len() != 1 {
                    rep.fail(format!("{what}: returned {} messages", msgs.len()));
                }
                for m in msgs {
                    let id = m.message.unwrap().message_id;
                    if !got.insert(id.clone()) {
                        rep.fail(format!("{what}: message {id} delivered twice"));
                    }
                }
            }
            Some(Err(e)) => rep.fail(format!("{what}: error {e:?}")),
            None => {}
        }
    }
    if got != expected && !rep.too_many() {
        rep.fail(format!("round {lane}/{round}: received {got:?} != expected {expected:?}"));
    }
    cleanup(rep, &mut c, &t, &[&s]).await;
}

#[tokio::test(flavor = "multi_thread", worker_threads = 8)]
async fn s03_nack_wakes_blocked_pulls() {
    let host = Host::start(4).await;
    let rep = Report::new("s03");
    lanes!(host, rep, 4, scale(120), s03_round);
    host.dispose().await;
    rep.finish();
}

// ---------------------------------------------------------------------------------------
// S04 (C06/C16): k blocked Pulls (max 1); at the same instant k publishes and c of the
// Pulls are cancelled by the client. Each cancelled Pull can swallow at most one message,
// so every surviving Pull must still get one.
// ---------------------------------------------------------------------------------------

async fn s04_round(host: &Arc<Host>, rep: &Arc<Report>, lane: usize, round: usize) {
    let t = tn("s04", &format!("t{lane}-{round}"));
    let s = sn("s04", &format!("s{lane}-{round}"));
    let mut c = host.cl();
    if !setup(rep, &mut c, &t, &[&s]).await {
        return;
    }
    let k = 2 + (round % 7);
    let cancel = 1 + (round / 7) % (k - 1);
    let mut pulls = vec![];
    for _ in 0..k {
        let mut c = host.cl();
        let s = s.clone();
        pulls.push(tokio::spawn(async move { c.pull(&s, 1, false).await }));
    }
    pre_delay(round + 2).await;
    let barrier = Arc::new(Barrier::new(k + cancel));
    let mut pubs = vec![];
    for i in 0..k {
        let mut c = host.cl();
        let t = t.clone();
        let barrier = barrier.clone();
        pubs.push(tokio::spawn(async move {
            barrier.wait().await;
            c.publish(&t, vec![format!("m{i}")]).await
        }));
    }
    let mut cancellers = vec![];
    let survivors: Vec<_> = pulls.split_off(cancel);
    for h in pulls {
        let barrier = barrier.clone();
        cancellers.push(tokio::spawn(async move {
            barrier.wait().await;
            spin_delay(rnd(400)).await;
            h.abort();
        }));
    }
    for h in pubs {
        match join_within(rep, HANG, "Publish", h).await {
            Some(Ok(_)) => {}
            Some(Err(e)) => rep.fail(format!("round {lane}/{round}: Publish failed: {e:?}")),
            None => {}
        }
    }
    for h in cancellers {
        let _ = h.await;
    }
    let mut got = HashSet::new();
    for (i, h) in survivors.into_iter().enumerate() {
        let what = format!(
            "round {lane}/{round}: surviving blocked Pull #{i} ({k} pulls, {cancel} cancelled during {k} publishes)"
        );
        match join_within(rep, WAKE, &what, h).await {
            Some(Ok(msgs)) => {
                if msgs.len() != 1 {
                    rep.fail(format!("{what}: returned {} messages", msgs.len()));
                }
                for m in msgs {
                    let id = m.message.unwrap().message_id;
                    if !got.insert(id.clone()) {
                        rep.fail(format!("{what}: message {id} delivered twice"));
                    }
                }
            }
            Some(Err(e)) => rep.fail(format!("{what}: error {e:?}")),
            None => {}
        }
    }
    cleanup(rep, &mut c, &t, &[&s]).await;
}

#[tokio::test(flavor = "multi_thread", worker_threads = 8)]
async fn s04_cancelled_pull_during_publish() {
    let host = Host::start(4).await;
    let rep = Report::new("s04");
    lanes!(host, rep, 4, scale(150), s04_round);
    host.dispose().await;
    rep.finish();
}

// ---------------------------------------------------------------------------------------
// S05 (C02/C03): concurrent pullers that ack / nack / hold-then-nack. An acked message is
// never seen by a Pull that started after the ack returned; while a delivery is held,
// nobody else gets the message; ack IDs are never reused.
// ---------------------------------------------------------------------------------------

#[derive(Clone, Debug)]
struct Delivery {
    msg: String,
    ack_id: String,
    puller: usize,
    pull_start: Instant,
    recv: Instant,
    acked: bool,
    release_start: Instant,
    release_done: Instant,
}

async fn s05_round(host: &Arc<Host>, rep: &Arc<Report>, lane: usize, round: usize) {
    let t = tn("s05", &format!("t{lane}-{round}"));
    let s = sn("s05", &format!("s{lane}-{round}"));
    let mut c = host.cl();
    if !setup(rep, &mut c, &t, &[&s]).await {
        return;
    }
    let n_batches = 6;
    let per = 8;
    let total = n_batches * per;
    let started = Instant::now();
    let acked = Arc::new(Mutex::new(HashSet::<String>::new()));
    let deliveries = Arc::new(Mutex::new(Vec::<Delivery>::new()));
    let pullers = 2 + round % 6;
    let mut tasks = vec![];
    // Publishers run concurrently with the pullers.
    let mut pubs = vec![];
    for i in 0..n_batches {
        let mut c = host.cl();
        let t = t.clone();
        pubs.push(tokio::spawn(async move {
            spin_delay(rnd(500)).await;
            c.publish(&t, (0..per).map(|x| format!("m{i}-{x}")).collect()).await
        }));
    }
    for p in 0..pullers {
        let mut c = host.cl();
        let s = s.clone();
        let rep = rep.clone();
        let acked = acked.clone();
        let deliveries = deliveries.clone();
        tasks.push(tokio::spawn(async move {
            while acked.lock().unwrap().len() < total && started.elapsed() < Duration::from_secs(8) {
                let max = 1 + rnd(5) as i32;
                let pull_start = Instant::now();
                let r = tmo(&rep, "Pull(return_immediately)", c.pull(&s, max, true)).await;
                let recv = Instant::now();
                let msgs = match r {
                    Some(Ok(m)) => m,
                    Some(Err(e)) => {
                        rep.fail(format!("s05: Pull failed: {e:?}"));
                        return;
                    }
                    None => return,
                };
                if msgs.is_empty() {
                    spin_delay(50 + rnd(200)).await;
                    continue;
                }
                if msgs.len() as i32 > max {
                    rep.fail(format!("s05: Pull returned {} > max_messages {max}", msgs.len()));
                }
                let ids: Vec<String> = msgs
                    .iter()
                    .map(|m| m.message.as_ref().unwrap().message_id.clone())
                    .collect();
                if ids.iter().collect::<HashSet<_>>().len() != ids.len() {
                    rep.fail(format!("s05: one Pull response contains a message twice: {ids:?}"));
                }
                let ack_ids: Vec<String> = msgs.iter().map(|m| m.ack_id.clone()).collect();
                let action = rnd(100);
                if action >= 70 {
                    spin_delay(rnd(2000)).await;
                }
                let release_start = Instant::now();
                let res = if action < 45 {
                    tmo(&rep, "Acknowledge", c.ack(&s, ack_ids.clone())).await
                } else {
                    tmo(&rep, "ModifyAckDeadline(0)", c.modack(&s, ack_ids.clone(), 0)).await
                };
                let release_done = Instant::now();
                match res {
                    Some(Ok(())) => {}
                    Some(Err(e)) => {
                        rep.fail(format!("s05: ack/nack failed: {e:?}"));
                        return;
                    }
                    None => return,
                }
                let is_ack = action < 45;
                let mut d = deliveries.lock().unwrap();
                for (msg, ack_id) in ids.iter().zip(ack_ids) {
                    d.push(Delivery {
                        msg: msg.clone(),
                        ack_id,
                        puller: p,
                        pull_start,
                        recv,
                        acked: is_ack,
                        release_start,
                        release_done,
                    });
                }
                drop(d);
                if is_ack {
                    acked.lock().unwrap().extend(ids);
                }
            }
        }));
    }
    let mut published = HashSet::new();
    for h in pubs {
        match join_within(rep, HANG, "Publish", h).await {
            Some(Ok(ids)) => published.extend(ids),
            Some(Err(e)) => rep.fail(format!("s05 {lane}/{round}: Publish failed: {e:?}")),
            None => {}
        }
    }
    for h in tasks {
        let _ = join_within(rep, Duration::from_secs(30), "puller", h).await;
    }
    let elapsed = started.elapsed();
    let d = deliveries.lock().unwrap().clone();
    if elapsed > Duration::from_secs(9) {
        rep.note("round too slow, checks skipped");
    } else {
        let acked = acked.lock().unwrap();
        if *acked != published {
            rep.fail(format!(
                "s05 {lane}/{round}: after {elapsed:?}, acked {} of {} published messages; never delivered: {:?}",
                acked.len(),
                published.len(),
                published.difference(&acked).collect::<Vec<_>>()
            ));
        }
        let mut seen_ack_ids = HashSet::new();
        let mut by_msg: HashMap<&str, Vec<&Delivery>> = HashMap::new();
        for x in &d {
            if !seen_ack_ids.insert(&x.ack_id) {
                rep.fail(format!("s05 {lane}/{round}: ack id {} used for two deliveries", x.ack_id));
            }
            by_msg.entry(&x.msg).or_default().push(x);
        }
        for (msg, ds) in by_msg {
            for a in &ds {
                for b in &ds {
                    if std::ptr::eq(*a, *b) {
                        continue;
                    }
                    if a.acked && b.pull_start > a.release_done {
                        rep.fail(format!(
                            "s05 {lane}/{round}: message {msg} acked (ack id {}, ack returned) and then delivered again by a Pull started {:?} later (ack id {})",
                            a.ack_id,
                            b.pull_start - a.release_done,
                            b.ack_id
                        ));
                    }
                    if b.pull_start > a.recv && b.recv < a.release_start {
                        rep.fail(format!(
                            "s05 {lane}/{round}: message {msg} leased to puller {} (ack id {}) was handed to puller {} (ack id {}) while the lease was outstanding",
                            a.puller, a.ack_id, b.puller, b.ack_id
                        ));
                    }
                }
            }
        }
    }
    cleanup(rep, &mut c, &t, &[&s]).await;
}

#[tokio::test(flavor = "multi_thread", worker_threads = 8)]
async fn s05_exclusive_lease_and_final_ack() {
    let host = Host::start(4).await;
    let rep = Report::new("s05");
    lanes!(host, rep, 3, scale(40), s05_round);
    host.dispose().await;
    rep.finish();
}

// ---------------------------------------------------------------------------------------
// Quiescent consistency check used by several scenarios (C10/C11/C16).
// ---------------------------------------------------------------------------------------

/// Returns a description of the first inconsistency found, or None.
async fn find_inconsistency(rep: &Report, c: &mut Cl, project: &str, probe: bool) -> Option<String> {
    let topics = match tmo(rep, "ListTopics", c.list_topics(project)).await? {
        Ok(t) => t,
        Err(e) => return Some(format!("ListTopics failed: {e:?}")),
    };
    let subs = match tmo(rep, "ListSubscriptions", c.list_subs(project)).await? {
        Ok(s) => s,
        Err(e) => return Some(format!("ListSubscriptions failed at quiescence: {e:?}")),
    };
    for sub in &subs {
        match tmo(rep, "GetSubscription", c.get_sub(&sub.name)).await? {
            Ok(g) => {
                if g.topic != sub.topic {
                    return Some(format!("Get {} says topic {} but List says {}", sub.name, g.topic, sub.topic));
                }
            }
            Err(e) => return Some(format!("listed subscription {} cannot be read: {e:?}", sub.name)),
        }
        if sub.topic != "_deleted_topic_" && !topics.contains(&sub.topic) {
            return Some(format!(
                "subscription {} reports topic {} which is not listed (ListTopics = {topics:?})",
                sub.name, sub.topic
            ));
        }
    }
    for t in &topics {
        if let Err(e) = tmo(rep, "GetTopic", c.get_topic(t)).await? {
            return Some(format!("listed topic {t} cannot be read: {e:?}"));
        }
        let attached: HashSet<String> = match tmo(rep, "ListTopicSubscriptions", c.list_topic_subs(t)).await? {
            Ok(l) => l.into_iter().collect(),
            Err(e) => return Some(format!("ListTopicSubscriptions {t} failed: {e:?}")),
        };
        let expected: HashSet<String> = subs.iter().filter(|s| &s.topic == t).map(|s| s.name.clone()).collect();
        if attached != expected {
            return Some(format!(
                "topic {t}: ListTopicSubscriptions = {attached:?} but the live subscriptions naming it are {expected:?}"
            ));
        }
        if probe {
            let data = format!("probe-{}", Uuid::new_v4());
            match tmo(rep, "probe Publish", c.publish(t, vec![data.clone()])).await? {
                Ok(_) => {}
                Err(e) => return Some(format!("probe Publish to live topic {t} failed: {e:?} (attached = {attached:?})")),
            }
            for s in &expected {
                let found = tokio::time::timeout(WAKE, async {
                    loop {
                        match c.pull(s, 1000, false).await {
                            Ok(msgs) => {
                                let hit = msgs.iter().any(|m| m.message.as_ref().unwrap().data == data.as_bytes());
                                let _ = c.ack(s, msgs.into_iter().map(|m| m.ack_id).collect()).await;
                                if hit {
                                    return Ok(());
                                }
                            }
                            Err(e) => return Err(e),
                        }
                    }
                })
                .await;
                match found {
                    Ok(Ok(())) => {}
                    Ok(Err(e)) => return Some(format!("pull on live subscription {s} failed: {e:?}")),
                    Err(_) => {
                        return Some(format!(
                            "subscription {s} exists and names live topic {t} but did not receive a probe message within {WAKE:?}"
                        ))
                    }
                }
            }
        }
    }
    None
}

/// Like `find_inconsistency`, but only reports inconsistencies that persist
/// (abandoned requests may still be completing in the background).
async fn check_consistency(rep: &Report, c: &mut Cl, project: &str, ctx: &str) {
    let mut last = None;
    for attempt in 0..4 {
        match find_inconsistency(rep, c, project, attempt > 0 || true).await {
            None => {
                if attempt > 0 {
                    rep.note("inconsistency was transient");
                }
                return;
            }
            Some(x) => last = Some(x),
        }
        tokio::time::sleep(Duration::from_millis(300)).await;
    }
    rep.fail(format!("{ctx}: persistent inconsistency: {}", last.unwrap()));
}

// ---------------------------------------------------------------------------------------
// S06 (C07, then C10/C11): chaos of every kind of request on a few shared names.
// No unary call may hang; afterwards the registries must be consistent.
// ---------------------------------------------------------------------------------------

async fn s06_round(host: &Arc<Host>, rep: &Arc<Report>, lane: usize, round: usize) {
    let project = format!("s06-{lane}-{round}");
    let topics: Vec<String> = (0..3).map(|i| tn(&project, &format!("t{i}"))).collect();
    let subs: Vec<String> = (0..6).map(|i| sn(&project, &format!("s{i}"))).collect();
    let stop = Arc::new(AtomicBool::new(false));
    let mut workers = vec![];
    let n_workers = 6 + round % 10;
    for _ in 0..n_workers {
        let mut c = host.cl();
        let rep = rep.clone();
        let topics = topics.clone();
        let subs = subs.clone();
        let project = project.clone();
        workers.push(tokio::spawn(async move {
            let mut acks: Vec<(String, String)> = vec![];
            for _ in 0..150 {
                let t = topics[rnd(3) as usize].clone();
                let s = subs[rnd(6) as usize].clone();
                let op = rnd(100);
                let ok = match op {
                    0..=24 => tmo(&rep, "Publish", c.publish(&t, vec!["x".into(), "y".into()])).await.is_some(),
                    25..=39 => match tmo(&rep, "Pull(ri)", c.pull(&s, 3, true)).await {
                        Some(Ok(msgs)) => {
                            acks.extend(msgs.into_iter().map(|m| (s.clone(), m.ack_id)));
                            true
                        }
                        Some(Err(_)) => true,
                        None => false,
                    },
                    40..=49 => {
                        if let Some((s, a)) = acks.pop() {
                            tmo(&rep, "Acknowledge", c.ack(&s, vec![a])).await.is_some()
                        } else {
                            true
                        }
                    }
                    50..=54 => {
                        if let Some((s, a)) = acks.pop() {
                            tmo(&rep, "ModifyAckDeadline", c.modack(&s, vec![a], (rnd(2) * 15) as i32)).await.is_some()
                        } else {
                            true
                        }
                    }
                    55..=66 => tmo(&rep, "CreateSubscription", c.create_sub(&s, &t)).await.is_some(),
                    67..=76 => tmo(&rep, "DeleteSubscription", c.delete_sub(&s)).await.is_some(),
                    77..=84 => tmo(&rep, "CreateTopic", c.create_topic(&t)).await.is_some(),
                    85..=89 => tmo(&rep, "DeleteTopic", c.delete_topic(&t)).await.is_some(),
                    90..=91 => tmo(&rep, "GetSubscription", c.get_sub(&s)).await.is_some(),
                    92..=93 => tmo(&rep, "ListSubscriptions", c.list_subs(&project)).await.is_some(),
                    94..=96 => tmo(&rep, "ListTopicSubscriptions", c.list_topic_subs(&t)).await.is_some(),
                    97 => tmo(&rep, "GetTopic", c.get_topic(&t)).await.is_some(),
                    _ => tmo(&rep, "ListTopics", c.list_topics(&project)).await.is_some(),
                };
                if !ok {
                    return;
                }
            }
        }));
    }
    // Waiting consumers that come and go (their waiting is legitimate, so it is cut short
    // by the client, which also exercises cancellation).
    let mut waiters = vec![];
    for w in 0..4 {
        let mut c = host.cl();
        let subs = subs.clone();
        let stop = stop.clone();
        waiters.push(tokio::spawn(async move {
            while !stop.load(Ordering::Relaxed) {
                let s = subs[rnd(6) as usize].clone();
                if w % 2 == 0 {
                    let _ = tokio::time::timeout(Duration::from_millis(1 + rnd(20)), c.pull(&s, 2, false)).await;
                } else if let Ok(Ok((_tx, mut stream))) =
                    tokio::time::timeout(Duration::from_secs(2), c.open_stream(&s, 10)).await
                {
                    let _ = tokio::time::timeout(Duration::from_millis(1 + rnd(20)), async {
                        while let Ok(Some(_)) = stream.message().await {}
                    })
                    .await;
                }
            }
        }));
    }
    for h in workers {
        let _ = h.await;
    }
    stop.store(true, Ordering::Relaxed);
    for h in waiters {
        let _ = join_within(rep, HANG, "waiter task", h).await;
    }
    let mut c = host.cl();
    check_consistency(rep, &mut c, &project, &format!("s06 {lane}/{round}")).await;
    // Clean up everything in the project.
    if let Some(Ok(ss)) = tmo(rep, "ListSubscriptions", c.list_subs(&project)).await {
        for s in ss {
            let _ = tmo(rep, "cleanup", c.delete_sub(&s.name)).await;
        }
    }
    for t in &topics {
        let _ = tmo(rep, "cleanup", c.delete_topic(t)).await;
    }
}

#[tokio::test(flavor = "multi_thread", worker_threads = 8)]
async fn s06_chaos_no_hang_then_consistent() {
    let host = Host::start(6).await;
    let rep = Report::new("s06");
    lanes!(host, rep, 2, scale(25), s06_round);
    host.dispose().await;
    rep.finish();
}

// ---------------------------------------------------------------------------------------
// S07 (C10/C11): n tasks do the same thing to the same name at the same instant.
// ---------------------------------------------------------------------------------------

/// Runs `n` copies of `f(i)` lined up on a barrier and returns their results.
async fn race<T, F, Fut>(rep: &Report, n: usize, what: &str, f: F) -> Vec<T>
where
    F: Fn(usize) -> Fut,
    Fut: Future<Output = T> + Send + 'static,
    T: Send + 'static,
{
    let barrier = Arc::new(Barrier::new(n));
    let mut hs = vec![];
    for i in 0..n {
        let fut = f(i);
        let barrier = barrier.clone();
        hs.push(tokio::spawn(async move {
            barrier.wait().await;
            fut.await
        }));
    }
    let mut out = vec![];
    for h in hs {
        if let Some(v) = join_within(rep, HANG, what, h).await {
            out.push(v);
        }
    }
    out
}

fn count_codes<T>(results: &[Result<T, Status>]) -> (usize, BTreeMap<String, usize>) {
    let mut ok = 0;
    let mut errs = BTreeMap::new();
    for r in results {
        match r {
            Ok(_) => ok += 1,
            Err(e) => *errs.entry(format!("{:?}", e.code())).or_insert(0) += 1,
        }
    }
    (ok, errs)
}

async fn s07_round(host: &Arc<Host>, rep: &Arc<Report>, lane: usize, round: usize) {
    let project = format!("s07-{lane}-{round}");
    let t = tn(&project, "t");
    let s = sn(&project, "s");
    let n = 2 + round % 7;
    let ctx = format!("s07 {lane}/{round} n={n}");

    // (a) n concurrent CreateTopic of one name.
    let r = race(rep, n, "CreateTopic", |_| {
        let mut c = host.cl();
        let t = t.clone();
        async move { c.create_topic(&t).await }
    })
    .await;
    let (ok, errs) = count_codes(&r);
    if ok != 1 || errs.keys().any(|k| k != "AlreadyExists") {
        rep.fail(format!("{ctx}: {n} concurrent CreateTopic: {ok} succeeded, errors {errs:?}"));
    }

    // (b) n concurrent CreateSubscription of one name.
    let r = race(rep, n, "CreateSubscription", |_| {
        let mut c = host.cl();
        let (s, t) = (s.clone(), t.clone());
        async move { c.create_sub(&s, &t).await }
    })
    .await;
    let (ok, errs) = count_codes(&r);
    if ok != 1 || errs.keys().any(|k| k != "AlreadyExists") {
        rep.fail(format!("{ctx}: {n} concurrent CreateSubscription: {ok} succeeded, errors {errs:?}"));
    }

    // (c) n concurrent DeleteSubscription of one name.
    let r = race(rep, n, "DeleteSubscription", |_| {
        let mut c = host.cl();
        let s = s.clone();
        async move { c.delete_sub(&s).await }
    })
    .await;
    let (ok, errs) = count_codes(&r);
    if ok != 1 || errs.keys().any(|k| k != "NotFound" && k != "FailedPrecondition") {
        rep.fail(format!("{ctx}: {n} concurrent DeleteSubscription: {ok} succeeded, errors {errs:?}"));
    }
    let mut c = host.cl();
    match tmo(rep, "GetSubscription", c.get_sub(&s)).await {
        Some(Err(e)) if e.code() == Code::NotFound => {}
        other => rep.fail(format!("{ctx}: after DeleteSubscription returned, Get says {other:?}")),
    }

    // (d) creators, deleters, publishers and pullers of one name, all at once; twice.
    for rep_i in 0..2 {
        let r = race(rep, 3 * n, "create/delete/publish mix", |i| {
            let mut c = host.cl();
            let (s, t) = (s.clone(), t.clone());
            async move {
                match i % 3 {
                    0 => ("create", c.create_sub(&s, &t).await.map(|_| ())),
                    1 => ("delete", c.delete_sub(&s).await),
                    _ => {
                        if i % 2 == 0 {
                            ("publish", c.publish(&t, vec!["p".into()]).await.map(|_| ()))
                        } else {
                            ("pull", c.pull(&s, 10, true).await.map(|_| ()))
                        }
                    }
                }
            }
        })
        .await;
        let existed_before = rep_i == 1; // unknown really; computed below instead
        let _ = existed_before;
        let mut create_ok = 0i32;
        let mut create_amb = 0i32;
        let mut delete_ok = 0i32;
        for (kind, res) in &r {
            match (*kind, res) {
                ("create", Ok(())) => create_ok += 1,
                ("create", Err(e)) if e.code() == Code::FailedPrecondition => create_amb += 1,
                ("create", Err(e)) if e.code() != Code::AlreadyExists => {
                    rep.fail(format!("{ctx}: racing CreateSubscription failed with {e:?}"))
                }
                ("delete", Ok(())) => delete_ok += 1,
                ("delete", Err(e)) if e.code() != Code::NotFound && e.code() != Code::FailedPrecondition => {
                    rep.fail(format!("{ctx}: racing DeleteSubscription failed with {e:?}"))
                }
                ("publish", Err(e)) => {
                    rep.note(&format!("publish racing create/delete failed: {:?}", e.code()));
                }
                _ => {}
            }
        }
        if create_amb > 0 {
            rep.note("create answered FAILED_PRECONDITION");
        }
        let before = if rep_i == 0 { 0 } else { -1 };
        let exists = match tmo(rep, "GetSubscription", c.get_sub(&s)).await {
            Some(Ok(_)) => 1,
            Some(Err(e)) if e.code() == Code::NotFound => 0,
            other => {
                rep.fail(format!("{ctx}: Get after races: {other:?}"));
                return;
            }
        };
        if before == 0 {
            // exists = creates that took effect - deletes that took effect.
            let lo = create_ok - delete_ok;
            let hi = create_ok + create_amb - delete_ok;
            if exists < lo || exists > hi {
                rep.fail(format!(
                    "{ctx}: {create_ok} creates ok (+{create_amb} ambiguous), {delete_ok} deletes ok, but exists={exists}"
                ));
            }
        }
        check_consistency(rep, &mut c, &project, &ctx).await;
        // Normalise for the second repetition: make sure it is absent.
        let _ = tmo(rep, "DeleteSubscription", c.delete_sub(&s)).await;
    }

    // (e) topic create/delete/create-subscription/publish races on one topic name.
    let r = race(rep, 4 * n, "topic mix", |i| {
        let mut c = host.cl();
        let (s, t) = (sn(&project, &format!("e{}", i % 3)), t.clone());
        async move {
            match i % 4 {
                0 => ("create_topic", c.create_topic(&t).await),
                1 => ("delete_topic", c.delete_topic(&t).await),
                2 => ("create_sub", c.create_sub(&s, &t).await.map(|_| ())),
                _ => ("publish", c.publish(&t, vec!["q".into()]).await.map(|_| ())),
            }
        }
    })
    .await;
    for (kind, res) in &r {
        if let Err(e) = res {
            rep.note(&format!("(e) {kind}: {:?}", e.code()));
        }
    }
    check_consistency(rep, &mut c, &project, &format!("{ctx} (e)")).await;

    if let Some(Ok(ss)) = tmo(rep, "ListSubscriptions", c.list_subs(&project)).await {
        for s in ss {
            let _ = tmo(rep, "cleanup", c.delete_sub(&s.name)).await;
        }
    }
    let _ = tmo(rep, "cleanup", c.delete_topic(&t)).await;
}

#[tokio::test(flavor = "multi_thread", worker_threads = 8)]
async fn s07_same_name_races() {
    let host = Host::start(6).await;
    let rep = Report::new("s07");
    lanes!(host, rep, 3, scale(100), s07_round);
    host.dispose().await;
    rep.finish();
}

// S07b (C10): n concurrent DeleteTopic of one name: exactly one may succeed.
async fn s07b_round(host: &Arc<Host>, rep: &Arc<Report>, lane: usize, round: usize) {
    let t = tn("s07b", &format!("t{lane}-{round}"));
    let mut c = host.cl();
    if !setup(rep, &mut c, &t, &[]).await {
        return;
    }
    let n = 2 + round % 7;
    let r = race(rep, n, "DeleteTopic", |_| {
        let mut c = host.cl();
        let t = t.clone();
        async move { c.delete_topic(&t).await }
    })
    .await;
    let (ok, errs) = count_codes(&r);
    if ok != 1 || errs.keys().any(|k| k != "NotFound" && k != "FailedPrecondition") {
        rep.fail(format!("s07b {lane}/{round}: {n} concurrent DeleteTopic: {ok} succeeded, errors {errs:?}"));
    }
}

#[tokio::test(flavor = "multi_thread", worker_threads = 8)]
async fn s07b_concurrent_delete_topic_single_winner() {
    let host = Host::start(6).await;
    let rep = Report::new("s07b");
    lanes!(host, rep, 3, scale(100), s07b_round);
    host.dispose().await;
    rep.finish();
}

// ---------------------------------------------------------------------------------------
// S08 (C12): blocked Pulls and open StreamingPulls must all be released with an error
// when the subscription is deleted (racing deletes, DeleteTopic, publishes).
// ---------------------------------------------------------------------------------------

async fn s08_round(host: &Arc<Host>, rep: &Arc<Report>, lane: usize, round: usize) {
    let t = tn("s08", &format!("t{lane}-{round}"));
    let s = sn("s08", &format!("s{lane}-{round}"));
    let mut c = host.cl();
    if !setup(rep, &mut c, &t, &[&s]).await {
        return;
    }
    let k = if round % 10 == 9 { 40 } else { round % 6 };
    let j = if round % 10 == 8 { 20 } else { (round / 6) % 4 + if k == 0 { 1 } else { 0 } };
    let with_topic_delete = round % 3 == 0;
    let with_publish = round % 4 == 1;
    let deleters = 1 + round % 3;
    let ctx = format!(
        "s08 {lane}/{round}: {k} pulls, {j} streams, {deleters} DeleteSubscription, DeleteTopic={with_topic_delete}, publish={with_publish}"
    );
    let mut pulls = vec![];
    for _ in 0..k {
        let mut c = host.cl();
        let s = s.clone();
        pulls.push(tokio::spawn(async move { c.pull(&s, 5, false).await }));
    }
    let mut streams = vec![];
    for _ in 0..j {
        let mut c = host.cl();
        match tmo(rep, "open StreamingPull", c.open_stream(&s, 10)).await {
            Some(Ok((tx, mut stream))) => streams.push(tokio::spawn(async move {
                let _tx = tx;
                let mut n = 0usize;
                loop {
                    match stream.message().await {
                        Ok(Some(r)) => n += r.received_messages.len(),
                        Ok(None) => return (n, Status::ok("stream ended without error")),
                        Err(e) => return (n, e),
                    }
                }
            })),
            Some(Err(e)) => {
                rep.fail(format!("{ctx}: open stream failed: {e:?}"));
                return;
            }
            None => return,
        }
    }
    pre_delay(round + 1).await;
    let total = deleters + with_topic_delete as usize + with_publish as usize;
    let r = race(rep, total, "delete race", |i| {
        let mut c = host.cl();
        let (s, t) = (s.clone(), t.clone());
        async move {
            if i < deleters {
                ("delete_sub", c.delete_sub(&s).await)
            } else if i == deleters && with_topic_delete {
                ("delete_topic", c.delete_topic(&t).await)
            } else {
                ("publish", c.publish(&t, vec!["z".into()]).await.map(|_| ()))
            }
        }
    })
    .await;
    let del_ok = r.iter().filter(|(k, r)| *k == "delete_sub" && r.is_ok()).count();
    if del_ok != 1 {
        rep.fail(format!("{ctx}: {del_ok} DeleteSubscription calls succeeded: {r:?}"));
    }
    for (kind, res) in &r {
        if let Err(e) = res {
            if *kind != "delete_sub" {
                rep.note(&format!("{kind} racing deletion: {:?}", e.code()));
            }
        }
    }
    for (i, h) in pulls.into_iter().enumerate() {
        let what = format!("{ctx}: blocked Pull #{i} after DeleteSubscription returned");
        match join_within(rep, WAKE, &what, h).await {
            Some(Ok(msgs)) => {
                if msgs.is_empty() {
                    rep.fail(format!("{what}: returned an empty OK response"));
                } else if !with_publish {
                    rep.fail(format!("{what}: returned messages although nothing was published"));
                }
            }
            Some(Err(e)) => {
                if e.code() != Code::NotFound {
                    rep.note(&format!("blocked pull released with {:?}", e.code()));
                }
            }
            None => {}
        }
    }
    for (i, h) in streams.into_iter().enumerate() {
        let what = format!("{ctx}: StreamingPull #{i} after DeleteSubscription returned");
        match join_within(rep, WAKE, &what, h).await {
            Some((_, st)) => {
                if st.code() == Code::Ok {
                    rep.fail(format!("{what}: {}", st.message()));
                } else if st.code() != Code::NotFound {
                    rep.note(&format!("stream released with {:?}", st.code()));
                }
            }
            None => {}
        }
    }
    let _ = tmo(rep, "cleanup", c.delete_topic(&t)).await;
}

#[tokio::test(flavor = "multi_thread", worker_threads = 8)]
async fn s08_delete_releases_waiting_consumers() {
    let host = Host::start(6).await;
    let rep = Report::new("s08");
    lanes!(host, rep, 3, scale(120), s08_round);
    host.dispose().await;
    rep.finish();
}

// ---------------------------------------------------------------------------------------
// S09 (C16/C07): requests abandoned by the client after a few hundred microseconds.
// Afterwards every subscription that exists is attached and receives a probe.
// ---------------------------------------------------------------------------------------

async fn s09_round(host: &Arc<Host>, rep: &Arc<Report>, lane: usize, round: usize) {
    let project = format!("s09-{lane}-{round}");
    let t = tn(&project, "t");
    let t2 = tn(&project, "t2");
    let mut c = host.ctl();
    if !setup(rep, &mut c, &t, &[]).await {
        return;
    }
    let names: Vec<String> = (0..4).map(|i| sn(&project, &format!("s{i}"))).collect();
    let window = [150u64, 300, 600, 1000][round % 4];
    let mut tasks = vec![];
    for w in 0..(6 + round % 6) {
        let mut c = host.cl();
        let rep = rep.clone();
        let (t, t2, names) = (t.clone(), t2.clone(), names.clone());
        tasks.push(tokio::spawn(async move {
            for _ in 0..12 {
                let s = names[rnd(4) as usize].clone();
                let us = rnd(window);
                let done = match rnd(10) {
                    0..=2 => abandon_after(us, c.create_sub(&s, &t)).await.is_some(),
                    3..=4 => abandon_after(us, c.delete_sub(&s)).await.is_some(),
                    5..=6 => abandon_after(us, c.publish(&t, vec!["a".into(), "b".into()])).await.is_some(),
                    7 => abandon_after(us, c.pull(&s, 2, false)).await.is_some(),
                    8 => {
                        if w % 2 == 0 {
                            abandon_after(us, c.create_topic(&t2)).await.is_some()
                        } else {
                            abandon_after(us, c.delete_topic(&t2)).await.is_some()
                        }
                    }
                    _ => abandon_after(us, c.create_sub(&s, &t2)).await.is_some(),
                };
                rep.note(if done { "completed before abandon" } else { "abandoned" });
            }
        }));
    }
    for h in tasks {
        let _ = h.await;
    }
    tokio::time::sleep(Duration::from_millis(20)).await;
    check_consistency(rep, &mut c, &project, &format!("s09 {lane}/{round} window={window}us")).await;
    // Every name can still be operated on without hanging.
    for s in &names {
        let _ = tmo(rep, "DeleteSubscription after abandons", c.delete_sub(s)).await;
        match tmo(rep, "CreateSubscription after abandons", c.create_sub(s, &t)).await {
            Some(Ok(_)) => {}
            // An abandoned create may legitimately complete late (its effect is "as if completed").
            Some(Err(e)) if e.code() == Code::AlreadyExists => rep.note("abandoned create completed late"),
            Some(Err(e)) => rep.fail(format!("s09 {lane}/{round}: re-creating {s} after delete failed: {e:?}")),
            None => {}
        }
    }
    check_consistency(rep, &mut c, &project, &format!("s09 {lane}/{round} (after re-create)")).await;
    for s in &names {
        let _ = tmo(rep, "DeleteSubscription after abandons", c.delete_sub(s)).await;
    }
    let _ = tmo(rep, "cleanup", c.delete_topic(&t)).await;
    let _ = tmo(rep, "cleanup", c.delete_topic(&t2)).await;
}

#[tokio::test(flavor = "multi_thread", worker_threads = 8)]
async fn s09_abandoned_requests_all_or_nothing() {
    let host = Host::start(6).await;
    let rep = Report::new("s09");
    lanes!(host, rep, 3, scale(80), s09_round);
    host.dispose().await;
    rep.finish();
}

// ---------------------------------------------------------------------------------------
// S10 (C16/C04): Pulls abandoned mid-flight must not lose messages: whatever they were
// handed is redelivered after the 10 s ack deadline, everything else is available at once.
// ---------------------------------------------------------------------------------------

async fn s10_round(host: &Arc<Host>, rep: &Arc<Report>, lane: usize, round: usize) {
    let t = tn("s10", &format!("t{lane}-{round}"));
    let s = sn("s10", &format!("s{lane}-{round}"));
    let mut c = host.cl();
    if !setup(rep, &mut c, &t, &[&s]).await {
        return;
    }
    let m = 6;
    let mut published = HashSet::new();
    let mut abandoners = vec![];
    for _ in 0..4 {
        let mut c = host.cl();
        let s = s.clone();
        abandoners.push(tokio::spawn(async move {
            abandon_after(rnd(800), c.pull(&s, 2, false)).await.map(|r| r.map(|m| m.len()))
        }));
    }
    spin_delay(rnd(300)).await;
    match tmo(rep, "Publish", c.publish(&t, (0..m).map(|i| format!("m{i}")).collect())).await {
        Some(Ok(ids)) => published.extend(ids),
        other => {
            rep.fail(format!("s10: publish: {other:?}"));
            return;
        }
    }
    let mut kept = 0;
    for h in abandoners {
        if let Ok(Some(Ok(n))) = h.await {
            kept += n; // completed pulls: the client holds these and never acks them.
        }
    }
    let started = Instant::now();
    let mut got = HashSet::new();
    let mut first_phase = 0;
    let res = tokio::time::timeout(Duration::from_secs(14), async {
        while got.len() < published.len() {
            match c.pull(&s, 100, false).await {
                Ok(msgs) => {
                    if started.elapsed() < Duration::from_secs(5) {
                        first_phase += msgs.len();
                    }
                    let acks = msgs.iter().map(|m| m.ack_id.clone()).collect();
                    for m in msgs {
                        got.insert(m.message.unwrap().message_id);
                    }
                    let _ = c.ack(&s, acks).await;
                }
                Err(e) => return Err(e),
            }
        }
        Ok(())
    })
    .await;
    match res {
        Ok(Ok(())) => {
            if first_phase < published.len() {
                rep.note("some messages came back only after the ack deadline");
            }
        }
        Ok(Err(e)) => rep.fail(format!("s10 {lane}/{round}: collector pull failed: {e:?}")),
        Err(_) => rep.fail(format!(
            "s10 {lane}/{round}: {} of {} messages never (re)delivered within 14 s after abandoned Pulls ({kept} held by completed pulls)",
            published.len() - got.len(),
            published.len()
        )),
    }
    cleanup(rep, &mut c, &t, &[&s]).await;
}

#[tokio::test(flavor = "multi_thread", worker_threads = 8)]
async fn s10_abandoned_pulls_do_not_lose_messages() {
    let host = Host::start(8).await;
    let rep = Report::new("s10");
    lanes!(host, rep, 60, scale(3), s10_round);
    host.dispose().await;
    rep.finish();
}

// ---------------------------------------------------------------------------------------
// S11 (C11/C10): once DeleteTopic has returned, its subscriptions report a deleted topic,
// Publish says NOT_FOUND, and a re-created topic of that name does not feed them.
// ---------------------------------------------------------------------------------------

async fn s11_round(host: &Arc<Host>, rep: &Arc<Report>, lane: usize, round: usize) {
    let t = tn("s11", &format!("t{lane}-{round}"));
    let s = sn("s11", &format!("s{lane}-{round}"));
    let mut c = host.cl();
    if !setup(rep, &mut c, &t, &[&s]).await {
        return;
    }
    let p = round % 24;
    let stop = Arc::new(AtomicBool::new(false));
    let mut pubs = vec![];
    for _ in 0..p {
        let mut c = host.cl();
        let t = t.clone();
        let stop = stop.clone();
        pubs.push(tokio::spawn(async move {
            while !stop.load(Ordering::Relaxed) {
                if c.publish(&t, vec!["old".into()]).await.is_err() {
                    break;
                }
            }
        }));
    }
    spin_delay(rnd(1500)).await;
    match tmo(rep, "DeleteTopic", c.delete_topic(&t)).await {
        Some(Ok(())) => {}
        other => {
            rep.fail(format!("s11 {lane}/{round}: DeleteTopic: {other:?}"));
            return;
        }
    }
    match tmo(rep, "GetSubscription", c.get_sub(&s)).await {
        Some(Ok(sub)) => {
            if sub.topic != "_deleted_topic_" {
                rep.fail(format!(
                    "s11 {lane}/{round}: DeleteTopic returned, yet GetSubscription still reports topic {} ({p} concurrent publishers)",
                    sub.topic
                ));
            }
        }
        other => rep.fail(format!("s11 {lane}/{round}: GetSubscription after DeleteTopic: {other:?}")),
    }
    match tmo(rep, "Publish", c.publish(&t, vec!["late".into()])).await {
        Some(Err(e)) if e.code() == Code::NotFound => {}
        other => rep.fail(format!("s11 {lane}/{round}: Publish after DeleteTopic returned: {other:?}")),
    }
    stop.store(true, Ordering::Relaxed);
    for h in pubs {
        let _ = join_within(rep, HANG, "publisher", h).await;
    }
    // Re-create the topic: the old subscription must not be fed by it.
    if let Some(Err(e)) = tmo(rep, "CreateTopic", c.create_topic(&t)).await {
        rep.fail(format!("s11 {lane}/{round}: re-create topic failed: {e:?}"));
    }
    let _ = tmo(rep, "Publish", c.publish(&t, vec!["new".into()])).await;
    match tmo(rep, "ListTopicSubscriptions", c.list_topic_subs(&t)).await {
        Some(Ok(l)) if l.is_empty() => {}
        other => rep.fail(format!("s11 {lane}/{round}: re-created topic lists {other:?}")),
    }
    if let Some(Ok(msgs)) = tmo(rep, "Pull", c.pull(&s, 1000, true)).await {
        if msgs.iter().any(|m| m.message.as_ref().unwrap().data == b"new") {
            rep.fail(format!("s11 {lane}/{round}: subscription of the deleted topic received a message of the re-created one"));
        }
    }
    cleanup(rep, &mut c, &t, &[&s]).await;
}

#[tokio::test(flavor = "multi_thread", worker_threads = 8)]
async fn s11_delete_topic_visibility() {
    let host = Host::start(6).await;
    let rep = Report::new("s11");
    lanes!(host, rep, 3, scale(150), s11_round);
    host.dispose().await;
    rep.finish();
}

// ---------------------------------------------------------------------------------------
// S13 (C01): publishes racing with DeleteSubscription / CreateSubscription of siblings:
// the untouched subscriptions must get every accepted message exactly once.
// ---------------------------------------------------------------------------------------

async fn s13_round(host: &Arc<Host>, rep: &Arc<Report>, lane: usize, round: usize) {
    let project = format!("s13-{lane}-{round}");
    let t = tn(&project, "t");
    let s: Vec<String> = (0..4).map(|i| sn(&project, &format!("s{i}"))).collect();
    let mut c = host.cl();
    if !setup(rep, &mut c, &t, &[&s[0], &s[1], &s[2]]).await {
        return;
    }
    let n_pub = 3 + round % 6;
    let r = race(rep, n_pub + 3, "publish vs sibling delete/create", |i| {
        let mut c = host.cl();
        let (t, s) = (t.clone(), s.clone());
        async move {
            if i < n_pub {
                let mut ids = vec![];
                for j in 0..4 {
                    match c.publish(&t, vec![format!("m{i}-{j}")]).await {
                        Ok(x) => ids.extend(x),
                        Err(e) => return Err(Status::new(e.code(), format!("publish: {}", e.message()))),
                    }
                }
                Ok(ids)
            } else if i == n_pub {
                spin_delay(rnd(600)).await;
                c.delete_sub(&s[1]).await.map(|_| vec![])
            } else if i == n_pub + 1 {
                spin_delay(rnd(600)).await;
                c.create_sub(&s[3], &t).await.map(|_| vec![])
            } else {
                spin_delay(rnd(600)).await;
                let r = c.delete_sub(&s[3]).await.map(|_| vec![]);
                Ok(r.unwrap_or_default())
            }
        }
    })
    .await;
    let mut published = HashSet::new();
    for x in r {
        match x {
            Ok(ids) => published.extend(ids),
            Err(e) => {
                if e.message().starts_with("publish:") {
                    rep.fail(format!("s13 {lane}/{round}: Publish racing sibling delete/create failed: {:?} {}", e.code(), e.message()));
                } else {
                    rep.note(&format!("sibling create/delete answered {:?}", e.code()));
                }
            }
        }
    }
    for sub in [&s[0], &s[2]] {
        let mut got = Vec::new();
        loop {
            match tmo(rep, "Pull(ri)", c.pull(sub, 1000, true)).await {
                Some(Ok(msgs)) if msgs.is_empty() => break,
                Some(Ok(msgs)) => got.extend(msgs.into_iter().map(|m| m.message.unwrap().message_id)),
                other => {
                    rep.fail(format!("s13 {lane}/{round}: drain pull: {other:?}"));
                    break;
                }
            }
        }
        let set: HashSet<String> = got.iter().cloned().collect();
        if set.len() != got.len() {
            rep.fail(format!("s13 {lane}/{round}: {sub} received duplicates"));
        }
        if set != published {
            rep.fail(format!(
                "s13 {lane}/{round}: {sub} received {} messages, {} were accepted; missing {:?}",
                set.len(),
                published.len(),
                published.difference(&set).collect::<Vec<_>>()
            ));
        }
    }
    check_consistency(rep, &mut c, &project, &format!("s13 {lane}/{round}")).await;
    cleanup(rep, &mut c, &t, &[&s[0], &s[1], &s[2], &s[3]]).await;
}

#[tokio::test(flavor = "multi_thread", worker_threads = 8)]
async fn s13_fanout_while_siblings_come_and_go() {
    let host = Host::start(6).await;
    let rep = Report::new("s13");
    lanes!(host, rep, 3, scale(120), s13_round);
    host.dispose().await;
    rep.finish();
}

// ---------------------------------------------------------------------------------------
// S14 (C10/C11/C16): sustained create/delete churn of one subscription name by several
// tasks while others publish and pull; afterwards registries agree and the topic works.
// ---------------------------------------------------------------------------------------

async fn s14_round(host: &Arc<Host>, rep: &Arc<Report>, lane: usize, round: usize) {
    let project = format!("s14-{lane}-{round}");
    let t = tn(&project, "t");
    let s = sn(&project, "s");
    let other = sn(&project, "other");
    let mut c = host.cl();
    if !setup(rep, &mut c, &t, &[&other]).await {
        return;
    }
    let stop = Arc::new(AtomicBool::new(false));
    let mut tasks = vec![];
    let n = 1 + round % 4;
    for i in 0..(3 * n + 2) {
        let mut c = host.cl();
        let rep = rep.clone();
        let (t, s, stop) = (t.clone(), s.clone(), stop.clone());
        tasks.push(tokio::spawn(async move {
            while !stop.load(Ordering::Relaxed) {
                let ok = if i < n {
                    tmo(&rep, "CreateSubscription", c.create_sub(&s, &t)).await.is_some()
                } else if i < 2 * n {
                    tmo(&rep, "DeleteSubscription", c.delete_sub(&s)).await.is_some()
                } else if i < 3 * n {
                    match tmo(&rep, "Publish", c.publish(&t, vec!["c".into()])).await {
                        Some(Err(e)) => {
                            rep.note(&format!("publish during churn: {:?}", e.code()));
                            true
                        }
                        Some(Ok(_)) => true,
                        None => false,
                    }
                } else if i == 3 * n {
                    tmo(&rep, "Pull(ri)", c.pull(&s, 10, true)).await.is_some()
                } else {
                    let _ = tokio::time::timeout(Duration::from_millis(1 + rnd(5)), c.pull(&s, 10, false)).await;
                    true
                };
                if !ok {
                    return;
                }
            }
        }));
    }
    tokio::time::sleep(Duration::from_millis(60)).await;
    stop.store(true, Ordering::Relaxed);
    for h in tasks {
        let _ = join_within(rep, Duration::from_secs(15), "churn task", h).await;
    }
    check_consistency(rep, &mut c, &project, &format!("s14 {lane}/{round}")).await;
    cleanup(rep, &mut c, &t, &[&s, &other]).await;
}

#[tokio::test(flavor = "multi_thread", worker_threads = 8)]
async fn s14_create_delete_churn() {
    let host = Host::start(6).await;
    let rep = Report::new("s14");
    lanes!(host, rep, 3, scale(60), s14_round);
    host.dispose().await;
    rep.finish();
}

// ---------------------------------------------------------------------------------------
// S12 (C14/C10): push subscriptions deleted and re-created under the same name at the
// same instant (many names at once). Every push subscription that exists afterwards
// must actually be pushed to.
// ---------------------------------------------------------------------------------------

#[tokio::test(flavor = "multi_thread", worker_threads = 8)]
async fn s12_push_subscription_recreate_race() {
    use push_server::TestPushServer;
    let host = Host::start(8).await;
    let rep = Report::new("s12");
    let mut push = TestPushServer::start().await.unwrap();
    let url = push.url();
    let pushed = Arc::new(Mutex::new(HashSet::<(String, String)>::new()));
    {
        let pushed = pushed.clone();
        tokio::spawn(async move {
            while let Some(h) = push.next().await {
                pushed
                    .lock()
                    .unwrap()
                    .insert((h.subscription.clone(), push_server::decode_data(&h)));
                h.succeed();
            }
        });
    }
    let names: usize = std::env::var("MT_S12_NAMES").ok().and_then(|v| v.parse().ok()).unwrap_or(40);
    for batch in 0..scale(12) {
        if rep.too_many() {
            break;
        }
        let project = format!("s12-{batch}");
        let t = tn(&project, "t");
        let mut c = host.cl();
        if !setup(&rep, &mut c, &t, &[]).await {
            break;
        }
        let mut tasks = vec![];
        for i in 0..names {
            let s = sn(&project, &format!("p{i}"));
            if let Some(Err(e)) = tmo(&rep, "create push sub", c.create_push_sub(&s, &t, &url)).await {
                rep.fail(format!("s12: create push sub: {e:?}"));
            }
        }
        let barrier = Arc::new(Barrier::new(names * 3));
        for i in 0..names {
            let s = sn(&project, &format!("p{i}"));
            for role in 0..3 {
                let mut c = host.cl();
                let rep = rep.clone();
                let (s, t, url, barrier) = (s.clone(), t.clone(), url.clone(), barrier.clone());
                tasks.push(tokio::spawn(async move {
                    barrier.wait().await;
                    if role == 0 {
                        let _ = tmo(&rep, "DeleteSubscription", c.delete_sub(&s)).await;
                    } else {
                        // Keep trying until this name has been re-created by someone.
                        for _ in 0..200 {
                            match tmo(&rep, "CreateSubscription", c.create_push_sub(&s, &t, &url)).await {
                                Some(Ok(_)) => {
                                    rep.note("re-created");
                                    return;
                                }
                                Some(Err(e)) if e.code() == Code::AlreadyExists => {}
                                Some(Err(e)) => rep.note(&format!("create: {:?}", e.code())),
                                None => return,
                            }
                        }
                    }
                }));
            }
        }
        for h in tasks {
            let _ = h.await;
        }
        // Which ones exist now?
        let mut existing = HashSet::new();
        for i in 0..names {
            let s = sn(&project, &format!("p{i}"));
            match tmo(&rep, "GetSubscription", c.get_sub(&s)).await {
                Some(Ok(sub)) => {
                    if sub.push_config.map(|p| p.push_endpoint).unwrap_or_default() != url {
                        rep.fail(format!("s12 batch {batch}: {s} lost its push config"));
                    }
                    existing.insert(s);
                }
                _ => {}
            }
        }
        let data = format!("probe-{batch}");
        if let Some(Err(e)) = tmo(&rep, "Publish", c.publish(&t, vec![data.clone()])).await {
            rep.fail(format!("s12 batch {batch}: publish failed: {e:?}"));
        }
        let deadline = Instant::now() + Duration::from_millis(4500);
        let missing = loop {
            let missing: Vec<String> = {
                let p = pushed.lock().unwrap();
                existing.iter().filter(|s| !p.contains(&((*s).clone(), data.clone()))).cloned().collect()
            };
            if missing.is_empty() || Instant::now() > deadline {
                break missing;
            }
            tokio::time::sleep(Duration::from_millis(50)).await;
        };
        if !missing.is_empty() {
            // Diagnose: is it merely late, or is the subscription unknown to the push loop?
            let data2 = format!("probe2-{batch}");
            let _ = tmo(&rep, "Publish", c.publish(&t, vec![data2.clone()])).await;
            tokio::time::sleep(Duration::from_secs(6)).await;
            let mut diag = vec![];
            for s in &missing {
                let (late1, late2) = {
                    let p = pushed.lock().unwrap();
                    (p.contains(&(s.clone(), data.clone())), p.contains(&(s.clone(), data2.clone())))
                };
                let pulled = match tmo(&rep, "Pull(ri)", c.pull(s, 100, true)).await {
                    Some(Ok(m)) => m
                        .iter()
                        .map(|m| String::from_utf8_lossy(&m.message.as_ref().unwrap().data).to_string())
                        .collect::<Vec<_>>(),
                    other => vec![format!("{other:?}")],
                };
                diag.push(format!(
                    "{s}: probe pushed 6 s later: {late1}; second probe pushed within 6 s: {late2}; a manual Pull now returns {pulled:?}"
                ));
            }
            rep.fail(format!(
                "s12 batch {batch}: {} of {} existing push subscriptions were not pushed the probe within 4.5 s (push interval 1 s). {diag:?}",
                missing.len(),
                existing.len()
            ));
        }
        for s in &existing {
            let _ = tmo(&rep, "cleanup", c.delete_sub(s)).await;
        }
        let _ = tmo(&rep, "cleanup", c.delete_topic(&t)).await;
        rep.round_done();
    }
    host.dispose().await;
    rep.finish();
}

// ---------------------------------------------------------------------------------------
// S15 (C19): FlowControl waiters racing with inc/dec on other threads (library component,
// driven directly).
// ---------------------------------------------------------------------------------------

#[tokio::test(flavor = "multi_thread", worker_threads = 8)]
async fn s15_flow_control_waiters_never_miss_capacity() {
    use deltio::subscriptions::flow_control;
    let rep = Report::new("s15");
    for round in 0..scale(20000) {
        if rep.too_many() {
            break;
        }
        let fc = Arc::new(flow_control::create(100, 2));
        fc.inc(10, 2); // full (messages)
        let waiters = 1 + round % 4;
        let barrier = Arc::new(Barrier::new(waiters + 2));
        let mut hs = vec![];
        for _ in 0..waiters {
            let (fc, barrier) = (fc.clone(), barrier.clone());
            hs.push(tokio::spawn(async move {
                barrier.wait().await;
                fc.wait_for_available_space().await;
                assert!(true);
            }));
        }
        // One task adds more load and removes it again, another frees capacity.
        {
            let (fc, barrier) = (fc.clone(), barrier.clone());
            tokio::spawn(async move {
                barrier.wait().await;
                fc.inc(95, 1);
                fc.dec(95, 1);
            });
        }
        {
            let (fc, barrier) = (fc.clone(), barrier.clone());
            tokio::spawn(async move {
                barrier.wait().await;
                if rnd(2) == 0 {
                    tokio::task::yield_now().await;
                }
                fc.dec(5, 1);
            });
        }
        for h in hs {
            let _ = join_within(&rep, WAKE, &format!("s15 round {round}: FlowControl waiter with capacity free"), h).await;
        }
        rep.round_done();
    }
    rep.finish();
}

// ---------------------------------------------------------------------------------------
// S17 (C12/C07): a stampede of fresh Pulls and StreamingPulls arriving at the very instant
// the subscription's deletion completes. All must end with an error promptly.
// ---------------------------------------------------------------------------------------

async fn s17_round(host: &Arc<Host>, rep: &Arc<Report>, lane: usize, round: usize) {
    let t = tn("s17", &format!("t{lane}-{round}"));
    let s = sn("s17", &format!("s{lane}-{round}"));
    let mut c = host.cl();
    if !setup(rep, &mut c, &t, &[&s]).await {
        return;
    }
    let n = 4 + round % 28;
    let r = race(rep, n + 1, "pull stampede vs delete", |i| {
        let mut c = host.cl();
        let s = s.clone();
        async move {
            if i == 0 {
                spin_delay(rnd(300)).await;
                c.delete_sub(&s).await.map(|_| "deleted".to_string())
            } else if i % 5 == 4 {
                spin_delay(rnd(400)).await;
                match c.open_stream(&s, 10).await {
                    Ok((_tx, mut stream)) => loop {
                        match tokio::time::timeout(WAKE, stream.message()).await {
                            Ok(Ok(Some(_))) => {}
                            Ok(Ok(None)) => return Ok("stream ended without error".into()),
                            Ok(Err(e)) => return Err(e),
                            Err(_) => return Ok("stream still open 5 s after deletion".into()),
                        }
                    },
                    Err(e) => Err(e),
                }
            } else {
                spin_delay(rnd(400)).await;
                match tokio::time::timeout(WAKE, c.pull(&s, 1, false)).await {
                    Ok(Ok(m)) => Ok(format!("pull returned OK with {} messages", m.len())),
                    Ok(Err(e)) => Err(e),
                    Err(_) => Ok("pull still blocked 5 s after deletion".into()),
                }
            }
        }
    })
    .await;
    for x in r {
        match x {
            Ok(msg) if msg == "deleted" => {}
            Ok(msg) => rep.fail(format!("s17 {lane}/{round} ({n} consumers): {msg}")),
            Err(e) => {
                if e.code() != Code::NotFound {
                    rep.note(&format!("released with {:?}", e.code()));
                }
            }
        }
    }
    let _ = tmo(rep, "cleanup", c.delete_topic(&t)).await;
}

#[tokio::test(flavor = "multi_thread", worker_threads = 8)]
async fn s17_pull_stampede_during_delete() {
    let host = Host::start(6).await;
    let rep = Report::new("s17");
    lanes!(host, rep, 3, scale(200), s17_round);
    host.dispose().await;
    rep.finish();
}

// ---------------------------------------------------------------------------------------
// S16 (C06/C16): open StreamingPulls, some of which are dropped by the client at the very
// instant messages are published. Once things are quiet, no message may be available
// while a surviving stream sits idle.
// ---------------------------------------------------------------------------------------

async fn s16_round(host: &Arc<Host>, rep: &Arc<Report>, lane: usize, round: usize) {
    let t = tn("s16", &format!("t{lane}-{round}"));
    let s = sn("s16", &format!("s{lane}-{round}"));
    let mut c = host.cl();
    if !setup(rep, &mut c, &t, &[&s]).await {
        return;
    }
    let k = 2 + round % 5;
    let cancel = 1 + (round / 5) % (k - 1);
    let received = Arc::new(Mutex::new(HashSet::<String>::new()));
    let mut readers = vec![];
    for _ in 0..k {
        let mut c = host.cl();
        match tmo(rep, "open StreamingPull", c.open_stream(&s, 1)).await {
            Some(Ok((tx, mut stream))) => {
                let received = received.clone();
                readers.push(tokio::spawn(async move {
                    let _tx = tx;
                    while let Ok(Some(r)) = stream.message().await {
                        let mut g = received.lock().unwrap();
                        for m in r.received_messages {
                            g.insert(m.message.unwrap().message_id);
                        }
                    }
                }));
            }
            other => {
                rep.fail(format!("s16: open stream: {:?}", other.map(|r| r.map(|_| ()))));
                return;
            }
        }
    }
    pre_delay(round + 2).await;
    let m = k + 2;
    let barrier = Arc::new(Barrier::new(m + cancel));
    let survivors = readers.split_off(cancel);
    let mut cancellers = vec![];
    for h in readers {
        let barrier = barrier.clone();
        cancellers.push(tokio::spawn(async move {
            barrier.wait().await;
            spin_delay(rnd(400)).await;
            h.abort();
        }));
    }
    let mut pubs = vec![];
    for i in 0..m {
        let mut c = host.cl();
        let (t, barrier) = (t.clone(), barrier.clone());
        pubs.push(tokio::spawn(async move {
            barrier.wait().await;
            spin_delay(rnd(300)).await;
            c.publish(&t, vec![format!("m{i}")]).await
        }));
    }
    let mut published = HashSet::new();
    for h in pubs {
        if let Some(Ok(ids)) = join_within(rep, HANG, "Publish", h).await {
            published.extend(ids);
        }
    }
    for h in cancellers {
        let _ = h.await;
    }
    // Wait until everything has been received by survivors, or things have been quiet for a while.
    let quiet_since = Instant::now();
    loop {
        if received.lock().unwrap().len() >= published.len() {
            break;
        }
        if quiet_since.elapsed() > Duration::from_millis(1500) {
            break;
        }
        tokio::time::sleep(Duration::from_millis(5)).await;
    }
    let got = received.lock().unwrap().clone();
    if got.len() < published.len() {
        // Some messages went to dropped streams (legitimate). But none may still be available.
        match tmo(rep, "Pull(ri)", c.pull(&s, 100, true)).await {
            Some(Ok(avail)) if !avail.is_empty() => {
                // Give the survivors no excuse: were they still open?
                let open = survivors.iter().filter(|h| !h.is_finished()).count();
                if open > 0 {
                    rep.fail(format!(
                        "s16 {lane}/{round}: {} message(s) were sitting available for 1.5 s while {open} StreamingPull(s) were open and idle ({k} streams, {cancel} dropped during {m} publishes)",
                        avail.len()
                    ));
                }
            }
            _ => rep.note("messages swallowed by dropped streams"),
        }
    }
    for h in survivors {
        h.abort();
    }
    cleanup(rep, &mut c, &t, &[&s]).await;
}

#[tokio::test(flavor = "multi_thread", worker_threads = 8)]
async fn s16_dropped_stream_during_publish() {
    let host = Host::start(6).await;
    let rep = Report::new("s16");
    lanes!(host, rep, 8, scale(40), s16_round);
    host.dispose().await;
    rep.finish();
}
