//! Second battery of free-running multi-threaded stress tests (see tests/mt_stress.rs for the
//! first one): HTTP push, StreamingPull control messages, ordering/ids, listing, deadlines,
//! and a few two-step paths of the server found by reading the code.
#![allow(deprecated, dead_code, unused_imports, clippy::all)]


use deltio::pubsub_proto::publisher_client::PublisherClient;
use deltio::pubsub_proto::subscriber_client::SubscriberClient;
use deltio::pubsub_proto::{
    AcknowledgeRequest, DeleteSubscriptionRequest, DeleteTopicRequest, GetSubscriptionRequest,
    GetTopicRequest, ListSubscriptionsRequest, ListTopicSubscriptionsRequest, ListTopicsRequest,
    ModifyAckDeadlineRequest, PublishRequest, PubsubMessage, PullRequest, PushConfig,
    ReceivedMessage, StreamingPullRequest, StreamingPullResponse, Subscription, Topic,
};
use deltio::Deltio;
use futures::FutureExt;
use hyper_util::rt::TokioIo;
use rand::Rng;
use std::collections::{BTreeMap, HashMap, HashSet};
use std::future::Future;
use std::sync::atomic::{AtomicBool, AtomicUsize, Ordering};
use std::sync::{Arc, Mutex};
use std::time::{Duration, Instant};
use tokio::net::{UnixListener, UnixStream};
use tokio::sync::{mpsc, Barrier};
use tokio::task::JoinHandle;
use tokio_stream::wrappers::UnixListenerStream;
use tonic::transport::{Channel, Endpoint};
use tonic::{Code, Status, Streaming};
use tower::service_fn;
use uuid::Uuid;

/// Bound for calls that must simply terminate.
const HANG: Duration = Duration::from_secs(10);
/// Bound for "a waiting consumer is woken promptly".
const WAKE: Duration = Duration::from_secs(5);

fn rnd(n: u64) -> u64 {
    if n == 0 {
        0
    } else {
        rand::thread_rng().gen_range(0..n)
    }
}

fn scale(rounds: usize) -> usize {
    let pct: usize = std::env::var("MT_SCALE")
        .ok()
        .and_then(|v| v.parse().ok())
        .unwrap_or(100);
    (rounds * pct / 100).max(1)
}

fn tn(project: &str, id: &str) -> String {
    format!("projects/{project}/topics/{id}")
}
fn sn(project: &str, id: &str) -> String {
    format!("projects/{project}/subscriptions/{id}")
}

// ---------------------------------------------------------------------------------------
// Report
// ---------------------------------------------------------------------------------------

struct Report {
    name: &'static str,
    fails: Mutex<Vec<String>>,
    notes: Mutex<BTreeMap<String, u64>>,
    rounds: AtomicUsize,
}

impl Report {
    fn new(name: &'static str) -> Arc<Self> {
        Arc::new(Self {
            name,
            fails: Mutex::new(vec![]),
            notes: Mutex::new(BTreeMap::new()),
            rounds: AtomicUsize::new(0),
        })
    }
    fn fail(&self, msg: String) {
        eprintln!("FAIL[{}]: {}", self.name, msg);
        self.fails.lock().unwrap().push(msg);
    }
    fn note(&self, key: &str) {
        *self.notes.lock().unwrap().entry(key.to_string()).or_insert(0) += 1;
    }
    fn round_done(&self) {
        self.rounds.fetch_add(1, Ordering::Relaxed);
    }
    fn too_many(&self) -> bool {
        self.fails.lock().unwrap().len() >= 10
    }
    fn finish(&self) {
        let fails = self.fails.lock().unwrap();
        let notes = self.notes.lock().unwrap();
        eprintln!(
            "REPORT[{}]: rounds={} failures={} notes={:?}",
            self.name,
            self.rounds.load(Ordering::Relaxed),
            fails.len(),
            *notes
        );
        assert!(
            fails.is_empty(),
            "{}: {} failure(s) in {} rounds; first: {}",
            self.name,
            fails.len(),
            self.rounds.load(Ordering::Relaxed),
            fails[0]
        );
    }
}

/// Awaits `f`, reporting a hang if it does not finish within `HANG`.
async fn tmo<T>(rep: &Report, what: &str, f: impl Future<Output = T>) -> Option<T> {
    match tokio::time::timeout(HANG, f).await {
        Ok(v) => Some(v),
        Err(_) => {
            rep.fail(format!("HANG (> {:?}): {}", HANG, what));
            None
        }
    }
}

/// Busy-yielding delay with microsecond precision (tokio timers have 1 ms granularity).
async fn spin_delay(us: u64) {
    let deadline = Instant::now() + Duration::from_micros(us);
    while Instant::now() < deadline {
        tokio::task::yield_now().await;
    }
}

/// Runs `f` but abandons (drops) it after `us` microseconds.
async fn abandon_after<T>(us: u64, f: impl Future<Output = T>) -> Option<T> {
    tokio::select! {
        biased;
        v = f => Some(v),
        _ = spin_delay(us) => None,
    }
}

/// A varying short delay so that the next step races differently with what was started.
async fn pre_delay(round: usize) {
    match round % 5 {
        0 => {}
        1 => {
            for _ in 0..3 {
                tokio::task::yield_now().await
            }
        }
        2 => spin_delay(100 + rnd(400)).await,
        3 => tokio::time::sleep(Duration::from_millis(2)).await,
        _ => spin_delay(rnd(1500)).await,
    }
}

// ---------------------------------------------------------------------------------------
// Host: a real server on a unix socket plus a pool of client connections.
// ---------------------------------------------------------------------------------------

struct Host {
    sock_file: String,
    shutdown: Mutex<Option<tokio::sync::oneshot::Sender<()>>>,
    join: Mutex<Option<JoinHandle<()>>>,
    channels: Vec<Channel>,
    /// A connection that is never used for abandoned requests (a flood of client resets
    /// makes the h2 server close the connection with GOAWAY "too_many_resets").
    control: Channel,
    next: AtomicUsize,
}

impl Host {
    async fn start(n_channels: usize) -> Arc<Host> {
        let sock_file = {
            let dir = std::env::temp_dir().into_os_string().into_string().unwrap();
            format!("{}/{}.sock", dir, Uuid::new_v4())
        };
        let listener = UnixListener::bind(&sock_file).unwrap();
        let uds_stream = UnixListenerStream::new(listener);
        let (shutdown_send, shutdown_recv) = tokio::sync::oneshot::channel::<()>();
        let app = Deltio::new();
        let server_builder = app.server_builder();
        let shutdown_fut = async { shutdown_recv.await.unwrap_or(()) }.shared();
        let server_fut = {
            let shutdown_fut = shutdown_fut.clone();
            async move {
                server_builder
                    .serve_with_incoming_shutdown(uds_stream, shutdown_fut)
                    .await
                    .unwrap();
            }
        };
        let push_loop = app.push_loop(Duration::from_secs(1));
        let push_loop_fut = async move {
            tokio::select! {
                _ = push_loop.run() => {},
                _ = shutdown_fut => {},
            }
        };
        let join = tokio::spawn(async move {
            tokio::join!(server_fut, push_loop_fut);
        });

        let mut channels = vec![];
        for _ in 0..n_channels + 1 {
            let channel = Endpoint::try_from("http://doesnt.matter")
                .unwrap()
                .connect_with_connector(service_fn({
                    let sock_file = Arc::new(sock_file.clone());
                    move |_| {
                        let sock_file = Arc::clone(&sock_file);
                        async move {
                            Ok::<_, std::io::Error>(TokioIo::new(
                                UnixStream::connect(sock_file.as_ref()).await?,
                            ))
                        }
                    }
                }))
                .await
                .unwrap();
            channels.push(channel);
        }
        let control = channels.pop().unwrap();
        Arc::new(Host {
            control,
            sock_file,
            shutdown: Mutex::new(Some(shutdown_send)),
            join: Mutex::new(Some(join)),
            channels,
            next: AtomicUsize::new(0),
        })
    }

    /// A client pair on the next connection of the pool.
    fn cl(&self) -> Cl {
        let i = self.next.fetch_add(1, Ordering::Relaxed) % self.channels.len();
        let ch = self.channels[i].clone();
        Cl {
            p: PublisherClient::new(ch.clone()),
            s: SubscriberClient::new(ch),
        }
    }

    /// A client pair on the control connection.
    fn ctl(&self) -> Cl {
        Cl {
            p: PublisherClient::new(self.control.clone()),
            s: SubscriberClient::new(self.control.clone()),
        }
    }

    async fn dispose(&self) {
        if let Some(s) = self.shutdown.lock().unwrap().take() {
            let _ = s.send(());
        }
        let join = self.join.lock().unwrap().take();
        if let Some(join) = join {
            let _ = tokio::time::timeout(Duration::from_secs(3), join).await;
        }
        let _ = std::fs::remove_file(&self.sock_file);
    }
}

type StreamPair = (mpsc::Sender<StreamingPullRequest>, Streaming<StreamingPullResponse>);

#[derive(Clone)]
struct Cl {
    p: PublisherClient<Channel>,
    s: SubscriberClient<Channel>,
}

impl Cl {
    async fn create_topic(&mut self, t: &str) -> Result<(), Status> {
        self.p
            .create_topic(Topic {
                name: t.to_string(),
                ..Default::default()
            })
            .await
            .map(|_| ())
    }
    async fn delete_topic(&mut self, t: &str) -> Result<(), Status> {
        self.p
            .delete_topic(DeleteTopicRequest {
                topic: t.to_string(),
            })
            .await
            .map(|_| ())
    }
    async fn get_topic(&mut self, t: &str) -> Result<(), Status> {
        self.p
            .get_topic(GetTopicRequest {
                topic: t.to_string(),
            })
            .await
            .map(|_| ())
    }
    async fn create_sub(&mut self, s: &str, t: &str) -> Result<Subscription, Status> {
        self.s
            .create_subscription(Subscription {
                name: s.to_string(),
                topic: t.to_string(),
                ..Default::default()
            })
            .await
            .map(|r| r.into_inner())
    }
    async fn create_push_sub(&mut self, s: &str, t: &str, url: &str) -> Result<Subscription, Status> {
        self.s
            .create_subscription(Subscription {
                name: s.to_string(),
                topic: t.to_string(),
                push_config: Some(PushConfig {
                    attributes: Default::default(),
                    authentication_method: None,
                    push_endpoint: url.to_string(),
                }),
                ..Default::default()
            })
            .await
            .map(|r| r.into_inner())
    }
    async fn delete_sub(&mut self, s: &str) -> Result<(), Status> {
        self.s
            .delete_subscription(DeleteSubscriptionRequest {
                subscription: s.to_string(),
            })
            .await
            .map(|_| ())
    }
    async fn get_sub(&mut self, s: &str) -> Result<Subscription, Status> {
        self.s
            .get_subscription(GetSubscriptionRequest {
                subscription: s.to_string(),
            })
            .await
            .map(|r| r.into_inner())
    }
    async fn publish(&mut self, t: &str, datas: Vec<String>) -> Result<Vec<String>, Status> {
        self.p
            .publish(PublishRequest {
                topic: t.to_string(),
                messages: datas
                    .into_iter()
                    .map(|d| PubsubMessage {
                        data: d.into_bytes(),
                        ..Default::default()
                    })
                    .collect(),
            })
            .await
            .map(|r| r.into_inner().message_ids)
    }
    async fn pull(&mut self, s: &str, max: i32, ri: bool) -> Result<Vec<ReceivedMessage>, Status> {
        self.s
            .pull(PullRequest {
                subscription: s.to_string(),
                return_immediately: ri,
                max_messages: max,
            })
            .await
            .map(|r| r.into_inner().received_messages)
    }
    async fn ack(&mut self, s: &str, ack_ids: Vec<String>) -> Result<(), Status> {
        self.s
            .acknowledge(AcknowledgeRequest {
                subscription: s.to_string(),
                ack_ids,
            })
            .await
            .map(|_| ())
    }
    async fn modack(&mut self, s: &str, ack_ids: Vec<String>, secs: i32) -> Result<(), Status> {
        self.s
            .modify_ack_deadline(ModifyAckDeadlineRequest {
                subscription: s.to_string(),
                ack_ids,
                ack_deadline_seconds: secs,
            })
            .await
            .map(|_| ())
    }
    async fn list_topics(&mut self, project: &str) -> Result<Vec<String>, Status> {
        self.p
            .list_topics(ListTopicsRequest {
                project: format!("projects/{project}"),
                page_size: 1000,
                page_token: String::new(),
            })
            .await
            .map(|r| r.into_inner().topics.into_iter().map(|t| t.name).collect())
    }
    async fn list_subs(&mut self, project: &str) -> Result<Vec<Subscription>, Status> {
        self.s
            .list_subscriptions(ListSubscriptionsRequest {
                project: format!("projects/{project}"),
                page_size: 1000,
                page_token: String::new(),
            })
            .await
            .map(|r| r.into_inner().subscriptions)
    }
    async fn list_topic_subs(&mut self, t: &str) -> Result<Vec<String>, Status> {
        self.p
            .list_topic_subscriptions(ListTopicSubscriptionsRequest {
                topic: t.to_string(),
                page_size: 1000,
                page_token: String::new(),
            })
            .await
            .map(|r| r.into_inner().subscriptions)
    }
    async fn open_stream(&mut self, s: &str, max_outstanding: i64) -> Result<StreamPair, Status> {
        let (send_request, mut outgoing) = mpsc::channel::<StreamingPullRequest>(100);
        let subscription = s.to_string();
        let response = self
            .s
            .streaming_pull(async_stream::stream! {
                yield StreamingPullRequest {
                    subscription,
                    client_id: Uuid::new_v4().to_string(),
                    max_outstanding_messages: max_outstanding,
                    max_outstanding_bytes: 100_000_000,
                    ..Default::default()
                };
                while let Some(request) = outgoing.recv().await {
                    yield request;
                }
            })
            .await?;
        Ok((send_request, response.into_inner()))
    }
}

/// Creates a topic and subscriptions on it; reports and returns false on any problem.
async fn setup(rep: &Report, c: &mut Cl, t: &str, subs: &[&str]) -> bool {
    match tmo(rep, "setup CreateTopic", c.create_topic(t)).await {
        Some(Ok(())) => {}
        Some(Err(e)) => {
            rep.fail(format!("setup: CreateTopic {t} failed: {e:?}"));
            return false;
        }
        None => return false,
    }
    for s in subs {
        match tmo(rep, "setup CreateSubscription", c.create_sub(s, t)).await {
            Some(Ok(_)) => {}
            Some(Err(e)) => {
                rep.fail(format!("setup: CreateSubscription {s} failed: {e:?}"));
                return false;
            }
            None => return false,
        }
    }
    true
}

/// Best-effort clean-up (keeps the server's state small); hangs are still reported.
async fn cleanup(rep: &Report, c: &mut Cl, t: &str, subs: &[&str]) {
    for s in subs {
        let _ = tmo(rep, "cleanup DeleteSubscription", c.delete_sub(s)).await;
    }
    let _ = tmo(rep, "cleanup DeleteTopic", c.delete_topic(t)).await;
}

/// Runs `$round(host, rep, lane, round)` for `$rounds` rounds on `$lanes` concurrent lanes.
macro_rules! lanes {
    ($host:expr, $rep:expr, $lanes:expr, $rounds:expr, $round:ident) => {{
        let mut handles = vec![];
        for lane in 0..$lanes {
            let host = Arc::clone(&$host);
            let rep = Arc::clone(&$rep);
            let rounds = $rounds;
            handles.push(tokio::spawn(async move {
                for round in 0..rounds {
                    if rep.too_many() {
                        break;
                    }
                    $round(&host, &rep, lane, round).await;
                    rep.round_done();
                }
            }));
        }
        for h in handles {
            h.await.unwrap();
        }
    }};
}

/// Joins a spawned call with a bound; aborts and reports it if it does not finish.
async fn join_within<T>(
    rep: &Report,
    d: Duration,
    what: &str,
    mut h: JoinHandle<T>,
) -> Option<T> {
    match tokio::time::timeout(d, &mut h).await {
        Ok(Ok(v)) => Some(v),
        Ok(Err(e)) => {
            rep.fail(format!("{what}: task failed: {e:?}"));
            None
        }
        Err(_) => {
            h.abort();
            rep.fail(format!("NOT FINISHED within {d:?}: {what}"));
            None
        }
    }
}

// =======================================================================================
// Second battery. Helpers above are copied from tests/mt_stress.rs.
// =======================================================================================

use base64::Engine as _;
use deltio::push::push_loop::PushPayload;
use http_body_util::{BodyExt, Empty};
use hyper::body::{Bytes, Incoming};
use hyper::server::conn::http1;
use hyper::{Request, Response, StatusCode};
use std::hash::{Hash, Hasher};
use tokio::net::TcpListener;

fn h64(parts: &[&str]) -> u64 {
    let mut h = std::collections::hash_map::DefaultHasher::new();
    for p in parts {
        p.hash(&mut h);
    }
    h.finish()
}

fn accepted_status(s: u16) -> bool {
    matches!(s, 102 | 200 | 201 | 202 | 204)
}

// ---------------------------------------------------------------------------------------
// A scripted HTTP endpoint for push subscriptions.
// ---------------------------------------------------------------------------------------

#[derive(Clone, Debug)]
struct Hit {
    idx: usize,
    path: String,
    sub: String,
    msg_id: String,
    msg_id_dupe: String,
    data: Vec<u8>,
    attrs: HashMap<String, String>,
    arrived: Instant,
    answered: Option<Instant>,
    /// 0 = the connection was dropped without an answer.
    status: u16,
    /// n-th POST of this (subscription, message), starting at 1.
    attempt: usize,
    bad: Option<String>,
}

#[derive(Clone, Copy, Debug)]
enum Act {
    /// Answer with this status after this many milliseconds.
    Reply(u16, u64),
    /// Drop the connection after this many milliseconds.
    Drop(u64),
}

type Script = Arc<dyn Fn(&Hit) -> Act + Send + Sync>;

struct PushEp {
    url: String,
    hits: Arc<Mutex<Vec<Hit>>>,
    join: JoinHandle<()>,
}

impl PushEp {
    async fn start(script: Script) -> Arc<PushEp> {
        let listener = TcpListener::bind("127.0.0.1:0").await.unwrap();
        let url = format!("http://{}", listener.local_addr().unwrap());
        let hits = Arc::new(Mutex::new(Vec::<Hit>::new()));
        let join = tokio::spawn({
            let hits = hits.clone();
            async move {
                loop {
                    let (stream, _) = match listener.accept().await {
                        Ok(r) => r,
                        Err(_) => continue,
                    };
                    let hits = hits.clone();
                    let script = script.clone();
                    let svc = move |req: Request<Incoming>| {
                        let hits = hits.clone();
                        let script = script.clone();
                        async move {
                            let arrived = Instant::now();
                            let path = req.uri().path().to_string();
                            let method = req.method().clone();
                            let body = match req.collect().await {
                                Ok(b) => b.to_bytes(),
                                Err(_) => Bytes::new(),
                            };
                            let mut hit = Hit {
                                idx: 0,
                                path,
                                sub: String::new(),
                                msg_id: String::new(),
                                msg_id_dupe: String::new(),
                                data: vec![],
                                attrs: HashMap::new(),
                                arrived,
                                answered: None,
                                status: 0,
                                attempt: 0,
                                bad: None,
                            };
                            if method != hyper::Method::POST {
                                hit.bad = Some(format!("method {method}"));
                            }
                            match serde_json::from_slice::<PushPayload>(&body) {
                                Ok(p) => {
                                    hit.sub = p.subscription;
                                    hit.msg_id = p.message.message_id_dupe;
                                    hit.msg_id_dupe = p.message.message_id;
                                    hit.attrs = p.message.attributes;
                                    match base64::engine::general_purpose::STANDARD.decode(&p.message.data) {
                                        Ok(d) => hit.data = d,
                                        Err(e) => hit.bad = Some(format!("data is not base64: {e}")),
                                    }
                                }
                                Err(e) => {
                                    hit.bad = Some(format!(
                                        "body is not the expected JSON: {e}: {:?}",
                                        String::from_utf8_lossy(&body)
                                    ))
                                }
                            }
                            let idx = {
                                let mut hs = hits.lock().unwrap();
                                hit.idx = hs.len();
                                hit.attempt = 1 + hs
                                    .iter()
                                    .filter(|h| h.sub == hit.sub && h.msg_id == hit.msg_id && h.path == hit.path)
                                    .count();
                                hs.push(hit.clone());
                                hit.idx
                            };
                            let act = script(&hit);
                            let (delay, status) = match act {
                                Act::Reply(s, d) => (d, s),
                                Act::Drop(d) => (d, 0),
                            };
                            if delay > 0 {
                                tokio::time::sleep(Duration::from_millis(delay)).await;
                            }
                            {
                                let mut hs = hits.lock().unwrap();
                                hs[idx].status = status;
                                hs[idx].answered = Some(Instant::now());
                            }
                            if status == 0 {
                                return Err(std::io::Error::new(std::io::ErrorKind::Other, "drop"));
                            }
                            let mut resp = Response::new(Empty::<Bytes>::default());
                            *resp.status_mut() = StatusCode::from_u16(status).unwrap();
                            Ok::<_, std::io::Error>(resp)
                        }
                    };
                    tokio::spawn(async move {
                        let _ = http1::Builder::new()
                            .serve_connection(TokioIo::new(stream), hyper::service::service_fn(svc))
                            .await;
                    });
                }
            }
        });
        Arc::new(PushEp { url, hits, join })
    }

    fn hits_with_prefix(&self, prefix: &str) -> Vec<Hit> {
        self.hits
            .lock()
            .unwrap()
            .iter()
            .filter(|h| h.path.starts_with(prefix))
            .cloned()
            .collect()
    }

    fn dispose(&self) {
        self.join.abort();
    }
}

/// Like `lanes!` but hands the endpoint to the round function as well.
macro_rules! lanes_ep {
    ($host:expr, $rep:expr, $ep:expr, $lanes:expr, $rounds:expr, $round:ident) => {{
        let mut handles = vec![];
        for lane in 0..$lanes {
            let host = Arc::clone(&$host);
            let rep = Arc::clone(&$rep);
            let ep = Arc::clone(&$ep);
            let rounds = $rounds;
            handles.push(tokio::spawn(async move {
                for round in 0..rounds {
                    if rep.too_many() {
                        break;
                    }
                    $round(&host, &rep, &ep, lane, round).await;
                    rep.round_done();
                }
            }));
        }
        for h in handles {
            h.await.unwrap();
        }
    }};
}

type Attrs = HashMap<String, String>;

async fn publish_full(c: &mut Cl, t: &str, msgs: Vec<(Vec<u8>, Attrs)>) -> Result<Vec<String>, Status> {
    c.p.publish(PublishRequest {
        topic: t.to_string(),
        messages: msgs
            .into_iter()
            .map(|(data, attributes)| PubsubMessage {
                data,
                attributes,
                ..Default::default()
            })
            .collect(),
    })
    .await
    .map(|r| r.into_inner().message_ids)
}

async fn create_sub_cfg(c: &mut Cl, s: &str, t: &str, deadline: i32, push: Option<&str>) -> Result<Subscription, Status> {
    c.s.create_subscription(Subscription {
        name: s.to_string(),
        topic: t.to_string(),
        ack_deadline_seconds: deadline,
        push_config: push.map(|url| PushConfig {
            attributes: Default::default(),
            authentication_method: None,
            push_endpoint: url.to_string(),
        }),
        ..Default::default()
    })
    .await
    .map(|r| r.into_inner())
}

fn rand_payload(tag: &str) -> (Vec<u8>, Attrs) {
    let mut data = tag.as_bytes().to_vec();
    data.push(0);
    for _ in 0..rnd(40) {
        data.push(rnd(256) as u8);
    }
    let mut attrs = Attrs::new();
    for i in 0..rnd(4) {
        attrs.insert(format!("k{i}"), format!("v-{tag}-{}", rnd(1000)));
    }
    if rnd(4) == 0 {
        attrs.insert("uni".into(), "h\u{e9}llo \"q\" \\ \n".into());
    }
    (data, attrs)
}

fn mid(m: &ReceivedMessage) -> String {
    m.message.as_ref().unwrap().message_id.clone()
}

// ---------------------------------------------------------------------------------------
// T01 (C14/C09/C03): several push subscriptions (and one pull subscription) on one topic,
// concurrent publishers, an endpoint that fails the first attempts of some messages
// (500/404/429/dropped connection) and answers slowly for others. Every (subscription,
// message) is POSTed until accepted, attempts never overlap, nothing is POSTed after it was
// accepted, the payload is intact, the pull subscription is never POSTed to.
// ---------------------------------------------------------------------------------------

fn t01_script() -> Script {
    Arc::new(|h: &Hit| {
        let x = h64(&[&h.sub, &h.msg_id]);
        let fails = (x % 3) as usize;
        if h.attempt <= fails {
            match (x / 3 + h.attempt as u64) % 5 {
                0 => Act::Reply(500, 0),
                1 => Act::Reply(404, 30),
                2 => Act::Drop(0),
                3 => Act::Reply(429, 5),
                _ => Act::Drop(40),
            }
        } else {
            let code = [200u16, 204, 201, 202][(x / 7 % 4) as usize];
            let delay = if x % 5 == 0 { 150 } else { x % 20 };
            Act::Reply(code, delay)
        }
    })
}

async fn t01_round(host: &Arc<Host>, rep: &Arc<Report>, ep: &Arc<PushEp>, lane: usize, round: usize) {
    let project = format!("t01-{lane}-{round}");
    let t = tn(&project, "t");
    let mut c = host.cl();
    if !setup(rep, &mut c, &t, &[]).await {
        return;
    }
    let np = 1 + round % 3;
    let prefix = format!("/t01/{lane}-{round}/");
    let mut push_subs = vec![];
    for j in 0..np {
        let s = sn(&project, &format!("p{j}"));
        let url = format!("{}{}p{j}", ep.url, prefix);
        match tmo(rep, "create push sub", create_sub_cfg(&mut c, &s, &t, 10, Some(&url))).await {
            Some(Ok(r)) => {
                if r.push_config.as_ref().map(|p| p.push_endpoint.clone()) != Some(url.clone()) {
                    rep.fail(format!("t01: created push sub reports push config {:?}", r.push_config));
                }
            }
            other => {
                rep.fail(format!("t01: create push sub: {other:?}"));
                return;
            }
        }
        push_subs.push((s, format!("{prefix}p{j}")));
    }
    let q = sn(&project, "q");
    if let Some(Err(e)) = tmo(rep, "create pull sub", c.create_sub(&q, &t)).await {
        rep.fail(format!("t01: create pull sub: {e:?}"));
        return;
    }
    let n_pub = 2 + round % 4;
    let barrier = Arc::new(Barrier::new(n_pub));
    let mut pubs = vec![];
    for i in 0..n_pub {
        let mut c = host.cl();
        let t = t.clone();
        let barrier = barrier.clone();
        pubs.push(tokio::spawn(async move {
            barrier.wait().await;
            let mut out = vec![];
            for j in 0..4 {
                let msgs: Vec<_> = (0..1 + rnd(4)).map(|x| rand_payload(&format!("m{i}-{j}-{x}"))).collect();
                let ids = publish_full(&mut c, &t, msgs.clone()).await?;
                if ids.len() != msgs.len() {
                    return Err(Status::internal(format!("{} ids for {} messages", ids.len(), msgs.len())));
                }
                out.extend(ids.into_iter().zip(msgs));
                if rnd(3) == 0 {
                    tokio::time::sleep(Duration::from_millis(rnd(400))).await;
                }
            }
            Ok::<_, Status>(out)
        }));
    }
    let mut published: HashMap<String, (Vec<u8>, Attrs)> = HashMap::new();
    for h in pubs {
        match join_within(rep, HANG, "t01 publisher", h).await {
            Some(Ok(v)) => {
                for (id, m) in v {
                    if published.insert(id.clone(), m).is_some() {
                        rep.fail(format!("t01: message id {id} issued twice"));
                    }
                }
            }
            Some(Err(e)) => rep.fail(format!("t01 {lane}/{round}: Publish failed: {e:?}")),
            None => {}
        }
    }
    // Wait until every (push subscription, message) has been accepted.
    let started = Instant::now();
    let limit = Duration::from_secs(40);
    loop {
        let hits = ep.hits_with_prefix(&prefix);
        let acc: HashSet<(String, String)> = hits
            .iter()
            .filter(|h| accepted_status(h.status))
            .map(|h| (h.path.clone(), h.msg_id.clone()))
            .collect();
        if acc.len() >= published.len() * np || started.elapsed() > limit {
            break;
        }
        tokio::time::sleep(Duration::from_millis(100)).await;
    }
    let settle = started.elapsed();
    // Two more push rounds: nothing may be POSTed again.
    tokio::time::sleep(Duration::from_millis(2300)).await;
    let hits = ep.hits_with_prefix(&prefix);
    let ctx = format!("t01 {lane}/{round} ({np} push subs, {} msgs)", published.len());
    let mut by_key: HashMap<(String, String), Vec<Hit>> = HashMap::new();
    for h in hits {
        if let Some(b) = &h.bad {
            rep.fail(format!("{ctx}: bad POST on {}: {b}", h.path));
            continue;
        }
        let expected_sub = push_subs.iter().find(|(_, p)| *p == h.path).map(|(s, _)| s.clone());
        if expected_sub.as_deref() != Some(h.sub.as_str()) {
            rep.fail(format!("{ctx}: POST on path {} names subscription {}", h.path, h.sub));
        }
        if h.msg_id != h.msg_id_dupe {
            rep.fail(format!("{ctx}: messageId {} != message_id {}", h.msg_id, h.msg_id_dupe));
        }
        match published.get(&h.msg_id) {
            None => rep.fail(format!("{ctx}: POST of unknown message id {} (data {:?})", h.msg_id, String::from_utf8_lossy(&h.data))),
            Some((d, a)) => {
                if *d != h.data || *a != h.attrs {
                    rep.fail(format!("{ctx}: payload of {} differs from what was published: data {:?} attrs {:?} vs {:?} {:?}", h.msg_id, h.data, h.attrs, d, a));
                }
            }
        }
        by_key.entry((h.path.clone(), h.msg_id.clone())).or_default().push(h);
    }
    for (s, path) in &push_subs {
        for id in published.keys() {
            let mut hs = by_key.remove(&(path.clone(), id.clone())).unwrap_or_default();
            hs.sort_by_key(|h| h.arrived);
            let desc: Vec<String> = hs
                .iter()
                .map(|h| format!("[#{} status {} +{:?}..{:?}]", h.attempt, h.status, h.arrived.duration_since(started), h.answered.map(|a| a.duration_since(started))))
                .collect();
            let first_acc = hs.iter().position(|h| accepted_status(h.status));
            match first_acc {
                None => rep.fail(format!(
                    "{ctx}: message {id} on {s} was not accepted within {settle:?}; POSTs (relative to end of publishing): {desc:?}"
                )),
                Some(p) => {
                    if p + 1 < hs.len() {
                        rep.fail(format!("{ctx}: message {id} on {s} was POSTed again after it had been accepted: {desc:?}"));
                    }
                }
            }
            for w in hs.windows(2) {
                match w[0].answered {
                    Some(a) if w[1].arrived >= a => {}
                    _ => rep.fail(format!("{ctx}: two POSTs of message {id} on {s} overlap in time: {desc:?}")),
                }
            }
        }
    }
    // The pull subscription got everything, intact, and was never POSTed to.
    if ep.hits.lock().unwrap().iter().any(|h| h.sub == q) {
        rep.fail(format!("{ctx}: pull subscription {q} was POSTed"));
    }
    let mut got: HashMap<String, ReceivedMessage> = HashMap::new();
    let pull_deadline = Instant::now() + WAKE;
    while got.len() < published.len() && Instant::now() < pull_deadline {
        match tmo(rep, "Pull(ri)", c.pull(&q, 1000, true)).await {
            Some(Ok(ms)) => {
                for m in ms {
                    got.insert(mid(&m), m);
                }
            }
            other => {
                rep.fail(format!("{ctx}: pull on {q}: {other:?}"));
                break;
            }
        }
    }
    for (id, (d, a)) in &published {
        match got.get(id) {
            None => rep.fail(format!("{ctx}: pull subscription did not get message {id}")),
            Some(m) => {
                let pm = m.message.as_ref().unwrap();
                if pm.data != *d || pm.attributes != *a {
                    rep.fail(format!("{ctx}: pulled message {id} differs from what was published"));
                }
            }
        }
    }
    let subs: Vec<&str> = push_subs.iter().map(|(s, _)| s.as_str()).chain([q.as_str()]).collect();
    cleanup(rep, &mut c, &t, &subs).await;
}

#[tokio::test(flavor = "multi_thread", worker_threads = 8)]
async fn t01_push_until_accepted() {
    let host = Host::start(6).await;
    let rep = Report::new("t01");
    let ep = PushEp::start(t01_script()).await;
    lanes_ep!(host, rep, ep, 4, scale(5), t01_round);
    ep.dispose();
    host.dispose().await;
    rep.finish();
}

// ---------------------------------------------------------------------------------------
// T02 (C14/C01/C11): DeleteSubscription while a long train of push dispatches is in flight.
// No POST may arrive noticeably after DeleteSubscription returned; a subscription re-created
// under the name (push to another path, or pull-only) gets only new messages.
// ---------------------------------------------------------------------------------------

fn t02_script() -> Script {
    Arc::new(|h: &Hit| {
        let x = h64(&[&h.sub, &h.msg_id]);
        Act::Reply(200, if x % 3 == 0 { 300 } else { x % 10 })
    })
}

async fn t02_round(host: &Arc<Host>, rep: &Arc<Report>, ep: &Arc<PushEp>, lane: usize, round: usize) {
    let project = format!("t02-{lane}-{round}");
    let t = tn(&project, "t");
    let s = sn(&project, "s");
    let ctx = format!("t02 {lane}/{round}");
    let mut c = host.cl();
    if !setup(rep, &mut c, &t, &[]).await {
        return;
    }
    let p1 = format!("/t02/{lane}-{round}/v1");
    let p2 = format!("/t02/{lane}-{round}/v2");
    if let Some(Err(e)) = tmo(rep, "create push sub", create_sub_cfg(&mut c, &s, &t, 10, Some(&format!("{}{}", ep.url, p1)))).await {
        rep.fail(format!("{ctx}: create: {e:?}"));
        return;
    }
    let mut old_ids = HashSet::new();
    for b in 0..4 {
        match tmo(rep, "Publish", c.publish(&t, (0..100).map(|i| format!("old-{b}-{i}")).collect())).await {
            Some(Ok(ids)) => old_ids.extend(ids),
            other => {
                rep.fail(format!("{ctx}: publish: {other:?}"));
                return;
            }
        }
    }
    // Wait for the train to start.
    let t0 = Instant::now();
    while ep.hits_with_prefix(&p1).is_empty() {
        if t0.elapsed() > Duration::from_secs(5) {
            rep.fail(format!("{ctx}: no POST within 5 s of publishing to a push subscription"));
            return;
        }
        tokio::time::sleep(Duration::from_millis(10)).await;
    }
    tokio::time::sleep(Duration::from_millis(rnd(900))).await;
    spin_delay(rnd(1000)).await;
    let del = tmo(rep, "DeleteSubscription", c.delete_sub(&s)).await;
    let t_ret = Instant::now();
    if !matches!(del, Some(Ok(()))) {
        rep.fail(format!("{ctx}: DeleteSubscription: {del:?}"));
        return;
    }
    // Re-create under the same name.
    let pull_only = round % 2 == 1;
    let url2 = format!("{}{}", ep.url, p2);
    let r = if pull_only {
        tmo(rep, "CreateSubscription", c.create_sub(&s, &t)).await
    } else {
        tmo(rep, "CreateSubscription", create_sub_cfg(&mut c, &s, &t, 10, Some(&url2))).await
    };
    if !matches!(r, Some(Ok(_))) {
        rep.fail(format!("{ctx}: re-create after delete returned: {r:?}"));
        return;
    }
    let new_ids: HashSet<String> = match tmo(rep, "Publish", c.publish(&t, (0..5).map(|i| format!("new-{i}")).collect())).await {
        Some(Ok(ids)) => ids.into_iter().collect(),
        other => {
            rep.fail(format!("{ctx}: publish new: {other:?}"));
            return;
        }
    };
    let mut pulled_new = HashSet::new();
    if pull_only {
        let dl = Instant::now() + WAKE;
        while pulled_new.len() < 5 && Instant::now() < dl {
            match tmo(rep, "Pull(ri)", c.pull(&s, 1000, true)).await {
                Some(Ok(ms)) => {
                    for m in ms {
                        let id = mid(&m);
                        if !new_ids.contains(&id) {
                            rep.fail(format!("{ctx}: re-created subscription received message {id} ({:?}) published before it was created", String::from_utf8_lossy(&m.message.as_ref().unwrap().data)));
                        }
                        pulled_new.insert(id);
                    }
                }
                other => {
                    rep.fail(format!("{ctx}: pull: {other:?}"));
                    break;
                }
            }
            tokio::time::sleep(Duration::from_millis(20)).await;
        }
        if pulled_new.len() < 5 {
            rep.fail(format!("{ctx}: re-created pull subscription received only {} of 5 new messages", pulled_new.len()));
        }
    }
    tokio::time::sleep(Duration::from_millis(3200)).await;
    let tol = Duration::from_millis(250);
    let v1 = ep.hits_with_prefix(&p1);
    let late: Vec<_> = v1.iter().filter(|h| h.arrived > t_ret + tol).collect();
    if !late.is_empty() {
        rep.fail(format!(
            "{ctx}: {} POSTs for the deleted subscription arrived more than {tol:?} after DeleteSubscription returned (latest {:?} after); {} POSTs in total",
            late.len(),
            late.iter().map(|h| h.arrived - t_ret).max(),
            v1.len()
        ));
    }
    let after: usize = v1.iter().filter(|h| h.arrived > t_ret).count();
    if after > 0 {
        rep.note("POST arrived within 250ms after delete returned");
    }
    if v1.len() < 400 {
        rep.note("train was cut by the deletion");
    } else {
        rep.note("train had finished before the deletion");
    }
    let mut seen = HashSet::new();
    for h in &v1 {
        if !old_ids.contains(&h.msg_id) || h.sub != s {
            rep.fail(format!("{ctx}: unexpected POST on v1: sub {} msg {}", h.sub, h.msg_id));
        }
        if accepted_status(h.status) && !seen.insert(h.msg_id.clone()) {
            rep.fail(format!("{ctx}: message {} POSTed twice to v1 although accepted", h.msg_id));
        }
    }
    let v2 = ep.hits_with_prefix(&p2);
    if pull_only {
        if !v2.is_empty() {
            rep.fail(format!("{ctx}: POSTs on a path nobody registered"));
        }
        let wrong: Vec<_> = v1.iter().filter(|h| new_ids.contains(&h.msg_id)).collect();
        if !wrong.is_empty() {
            rep.fail(format!("{ctx}: message of the re-created pull-only subscription was POSTed to the old endpoint"));
        }
    } else {
        let mut acc = HashSet::new();
        for h in &v2 {
            if !new_ids.contains(&h.msg_id) {
                rep.fail(format!("{ctx}: re-created push subscription POSTed message {} ({:?}) published before it was created", h.msg_id, String::from_utf8_lossy(&h.data)));
            }
            if !acc.insert(h.msg_id.clone()) {
                rep.fail(format!("{ctx}: new message {} POSTed twice", h.msg_id));
            }
        }
        if acc.len() != 5 {
            rep.fail(format!("{ctx}: only {} of 5 new messages POSTed to the re-created push subscription within 3 s", acc.len()));
        }
    }
    cleanup(rep, &mut c, &t, &[&s]).await;
}

#[tokio::test(flavor = "multi_thread", worker_threads = 8)]
async fn t02_push_delete_while_dispatching() {
    let host = Host::start(6).await;
    let rep = Report::new("t02");
    let ep = PushEp::start(t02_script()).await;
    lanes_ep!(host, rep, ep, 4, scale(5), t02_round);
    ep.dispose();
    host.dispose().await;
    rep.finish();
}

// ---------------------------------------------------------------------------------------
// T03 (C03/C02/C14): a push subscription that is also pulled by clients. A message is never
// held by a puller and by an in-flight POST at the same time, and once it was acked by a
// puller or accepted by the endpoint nobody gets it again.
// ---------------------------------------------------------------------------------------

fn t03_script() -> Script {
    Arc::new(|h: &Hit| {
        let x = h64(&[&h.sub, &h.msg_id, &h.attempt.to_string()]);
        if x % 4 == 0 {
            Act::Reply(500, 10 + x % 50)
        } else {
            Act::Reply(200, 20 + x % 100)
        }
    })
}

#[derive(Clone, Debug)]
struct PDeliv {
    msg: String,
    ack_id: String,
    puller: usize,
    pull_start: Instant,
    recv: Instant,
    acked: bool,
    release_start: Instant,
    release_done: Instant,
}

async fn t03_round(host: &Arc<Host>, rep: &Arc<Report>, ep: &Arc<PushEp>, lane: usize, round: usize) {
    let project = format!("t03-{lane}-{round}");
    let t = tn(&project, "t");
    let s = sn(&project, "s");
    let ctx = format!("t03 {lane}/{round}");
    let path = format!("/t03/{lane}-{round}");
    let mut c = host.cl();
    if !setup(rep, &mut c, &t, &[]).await {
        return;
    }
    if let Some(Err(e)) = tmo(rep, "create push sub", create_sub_cfg(&mut c, &s, &t, 10, Some(&format!("{}{}", ep.url, path)))).await {
        rep.fail(format!("{ctx}: create: {e:?}"));
        return;
    }
    let started = Instant::now();
    let stop = Arc::new(AtomicBool::new(false));
    let deliveries = Arc::new(Mutex::new(Vec::<PDeliv>::new()));
    let mut pubs = vec![];
    for i in 0..3 {
        let mut c = host.cl();
        let t = t.clone();
        pubs.push(tokio::spawn(async move {
            let mut ids = vec![];
            for j in 0..4 {
                tokio::time::sleep(Duration::from_millis(rnd(500))).await;
                ids.extend(c.publish(&t, (0..4).map(|x| format!("m{i}-{j}-{x}")).collect()).await?);
            }
            Ok::<_, Status>(ids)
        }));
    }
    let mut pullers = vec![];
    for p in 0..(1 + round % 3) {
        let mut c = host.cl();
        let (s, rep, stop, deliveries) = (s.clone(), rep.clone(), stop.clone(), deliveries.clone());
        pullers.push(tokio::spawn(async move {
            while !stop.load(Ordering::Relaxed) {
                tokio::time::sleep(Duration::from_millis(20 + rnd(150))).await;
                let max = 1 + rnd(3) as i32;
                let pull_start = Instant::now();
                let r = tmo(&rep, "Pull(ri)", c.pull(&s, max, true)).await;
                let recv = Instant::now();
                let msgs = match r {
                    Some(Ok(m)) => m,
                    Some(Err(e)) => {
                        rep.fail(format!("t03: Pull failed: {e:?}"));
                        return;
                    }
                    None => return,
                };
                if msgs.is_empty() {
                    continue;
                }
                tokio::time::sleep(Duration::from_millis(rnd(80))).await;
                let ack_ids: Vec<String> = msgs.iter().map(|m| m.ack_id.clone()).collect();
                let is_ack = rnd(100) < 50;
                let release_start = Instant::now();
                let res = if is_ack {
                    tmo(&rep, "Acknowledge", c.ack(&s, ack_ids.clone())).await
                } else {
                    tmo(&rep, "ModifyAckDeadline(0)", c.modack(&s, ack_ids.clone(), 0)).await
                };
                let release_done = Instant::now();
                if !matches!(res, Some(Ok(()))) {
                    rep.fail(format!("t03: ack/nack: {res:?}"));
                    return;
                }
                let mut d = deliveries.lock().unwrap();
                for m in &msgs {
                    d.push(PDeliv {
                        msg: mid(m),
                        ack_id: m.ack_id.clone(),
                        puller: p,
                        pull_start,
                        recv,
                        acked: is_ack,
                        release_start,
                        release_done,
                    });
                }
            }
        }));
    }
    let mut published = HashSet::new();
    for h in pubs {
        match join_within(rep, HANG, "publisher", h).await {
            Some(Ok(ids)) => published.extend(ids),
            Some(Err(e)) => rep.fail(format!("{ctx}: Publish failed: {e:?}")),
            None => {}
        }
    }
    let limit = Duration::from_secs(40);
    loop {
        let mut done: HashSet<String> = ep
            .hits_with_prefix(&path)
            .iter()
            .filter(|h| accepted_status(h.status))
            .map(|h| h.msg_id.clone())
            .collect();
        done.extend(deliveries.lock().unwrap().iter().filter(|d| d.acked).map(|d| d.msg.clone()));
        if done.len() >= published.len() || started.elapsed() > limit {
            break;
        }
        tokio::time::sleep(Duration::from_millis(100)).await;
    }
    // Keep the pullers going for two more push rounds.
    tokio::time::sleep(Duration::from_millis(2300)).await;
    stop.store(true, Ordering::Relaxed);
    for h in pullers {
        let _ = join_within(rep, Duration::from_secs(15), "puller", h).await;
    }
    let hits = ep.hits_with_prefix(&path);
    let dels = deliveries.lock().unwrap().clone();
    rep.note(&format!("pull deliveries x{}", dels.len() / 10 * 10));
    rep.note(&format!("push POSTs x{}", hits.len() / 10 * 10));
    let rel = |i: Instant| i.duration_since(started);
    for id in &published {
        let hs: Vec<&Hit> = hits.iter().filter(|h| &h.msg_id == id).collect();
        let ds: Vec<&PDeliv> = dels.iter().filter(|d| &d.msg == id).collect();
        let history = || {
            let mut ev: Vec<(Instant, String)> = vec![];
            for h in &hs {
                ev.push((h.arrived, format!("POST {:?}..{:?} status {}", rel(h.arrived), h.answered.map(rel), h.status)));
            }
            for d in &ds {
                ev.push((d.recv, format!("pull#{} start {:?} recv {:?} {} {:?}..{:?} (ack id {})", d.puller, rel(d.pull_start), rel(d.recv), if d.acked { "ack" } else { "nack" }, rel(d.release_start), rel(d.release_done), d.ack_id)));
            }
            ev.sort_by_key(|e| e.0);
            ev.into_iter().map(|e| e.1).collect::<Vec<_>>()
        };
        let finals = hs.iter().filter(|h| accepted_status(h.status)).count() + ds.iter().filter(|d| d.acked).count();
        if finals == 0 {
            rep.fail(format!("{ctx}: message {id} neither acked nor accepted after {:?}: {:?}", started.elapsed(), history()));
        }
        if finals > 1 {
            rep.fail(format!("{ctx}: message {id} was finally acknowledged {finals} times (pull ack / push accept): {:?}", history()));
        }
        // Lease overlaps between a pull delivery and a POST.
        for d in &ds {
            for h in &hs {
                let h_end = h.answered.unwrap_or(h.arrived);
                if h.arrived < d.release_start && d.recv < h_end {
                    rep.fail(format!("{ctx}: message {id} was held by a puller and in a POST at the same time: {:?}", history()));
                }
            }
            for e in &ds {
                if !std::ptr::eq(*d, *e) && e.pull_start > d.recv && e.recv < d.release_start {
                    rep.fail(format!("{ctx}: message {id} was held by two pullers at the same time: {:?}", history()));
                }
            }
            if d.acked {
                if hs.iter().any(|h| h.arrived > d.release_done) || ds.iter().any(|e| e.pull_start > d.release_done) {
                    rep.fail(format!("{ctx}: message {id} delivered again after a puller's ack returned: {:?}", history()));
                }
            }
        }
        for h in &hs {
            if accepted_status(h.status) {
                let a = h.answered.unwrap();
                if hs.iter().any(|g| g.arrived > a) || ds.iter().any(|e| e.pull_start > a) {
                    rep.fail(format!("{ctx}: message {id} delivered again after the endpoint accepted it: {:?}", history()));
                }
            }
            for g in &hs {
                if !std::ptr::eq(*h, *g) && g.arrived > h.arrived && g.arrived < h.answered.unwrap_or(h.arrived) {
                    rep.fail(format!("{ctx}: two POSTs of message {id} overlap: {:?}", history()));
                }
            }
        }
    }
    cleanup(rep, &mut c, &t, &[&s]).await;
}

#[tokio::test(flavor = "multi_thread", worker_threads = 8)]
async fn t03_push_subscription_also_pulled() {
    let host = Host::start(6).await;
    let rep = Report::new("t03");
    let ep = PushEp::start(t03_script()).await;
    lanes_ep!(host, rep, ep, 4, scale(4), t03_round);
    ep.dispose();
    host.dispose().await;
    rep.finish();
}

// ---------------------------------------------------------------------------------------
// T04 (C02/C03/C05/C17): several StreamingPulls on one subscription ack / nack / extend via
// the stream and via unary calls while publishers publish and a noise task sends unary
// Acknowledge / ModifyAckDeadline for stale and unknown ack ids. An acked message never
// comes back, a held message is never handed to somebody else, ack ids are unique.
// Phase 2: a malformed control message (carrying a valid nack or ack of a delivery held by
// another stream) ends only its own stream with INVALID_ARGUMENT and applies nothing.
// ---------------------------------------------------------------------------------------

type StreamEvent = Result<Vec<ReceivedMessage>, Status>;

struct OpenStream {
    tx: mpsc::Sender<StreamingPullRequest>,
    rx: mpsc::UnboundedReceiver<StreamEvent>,
    fwd: JoinHandle<()>,
}

async fn open_forwarded(rep: &Report, c: &mut Cl, s: &str, max_out: i64) -> Option<OpenStream> {
    let (tx, mut stream) = match tmo(rep, "open StreamingPull", c.open_stream(s, max_out)).await {
        Some(Ok(p)) => p,
        Some(Err(e)) => {
            rep.fail(format!("StreamingPull open failed: {e:?}"));
            return None;
        }
        None => return None,
    };
    let (etx, rx) = mpsc::unbounded_channel();
    let fwd = tokio::spawn(async move {
        loop {
            match stream.message().await {
                Ok(Some(r)) => {
                    if etx.send(Ok(r.received_messages)).is_err() {
                        break;
                    }
                }
                Ok(None) => {
                    let _ = etx.send(Err(Status::ok("end of stream")));
                    break;
                }
                Err(e) => {
                    let _ = etx.send(Err(e));
                    break;
                }
            }
        }
    });
    Some(OpenStream { tx, rx, fwd })
}

fn ctl_ack(ids: Vec<String>) -> StreamingPullRequest {
    StreamingPullRequest {
        ack_ids: ids,
        ..Default::default()
    }
}

fn ctl_mod(ids: Vec<String>, secs: i32) -> StreamingPullRequest {
    StreamingPullRequest {
        modify_deadline_seconds: ids.iter().map(|_| secs).collect(),
        modify_deadline_ack_ids: ids,
        ..Default::default()
    }
}

#[derive(Default)]
struct T04State {
    /// msg -> (stream, ack id) of the delivery that currently holds it.
    holding: HashMap<String, (usize, String)>,
    /// Messages whose delivery was acked (and never nacked).
    acked: HashSet<String>,
    ack_ids: HashSet<String>,
    /// Ack ids whose acknowledgement was confirmed by a unary response.
    confirmed_acked_ids: Vec<String>,
    history: HashMap<String, Vec<String>>,
}

async fn t04_round(host: &Arc<Host>, rep: &Arc<Report>, lane: usize, round: usize) {
    let project = format!("t04-{lane}-{round}");
    let t = tn(&project, "t");
    let s = sn(&project, "s");
    let ctx = format!("t04 {lane}/{round}");
    let mut c = host.cl();
    if !setup(rep, &mut c, &t, &[&s]).await {
        return;
    }
    let k = 2 + round % 3;
    let max_out = 5i64;
    let started = Instant::now();
    let state = Arc::new(Mutex::new(T04State::default()));
    let stop = Arc::new(AtomicBool::new(false));
    let mut workers = vec![];
    for i in 0..k {
        let mut c = host.cl();
        let Some(os) = open_forwarded(rep, &mut c, &s, max_out).await else { return };
        let (s, rep, state, stop, ctx) = (s.clone(), rep.clone(), state.clone(), stop.clone(), ctx.clone());
        workers.push(tokio::spawn(async move {
            let mut os = os;
            loop {
                let ev = tokio::select! {
                    ev = os.rx.recv() => ev,
                    _ = async { while !stop.load(Ordering::Relaxed) { tokio::time::sleep(Duration::from_millis(5)).await } } => break,
                };
                let msgs = match ev {
                    Some(Ok(m)) => m,
                    Some(Err(e)) => {
                        rep.fail(format!("{ctx}: stream {i} ended unexpectedly: {e:?}"));
                        break;
                    }
                    None => break,
                };
                if msgs.len() as i64 > max_out {
                    rep.fail(format!("{ctx}: StreamingPull response with {} messages > max_outstanding_messages {max_out}", msgs.len()));
                }
                let now = started.elapsed();
                {
                    let mut st = state.lock().unwrap();
                    let mut in_resp = HashSet::new();
                    for m in &msgs {
                        let id = mid(m);
                        if !in_resp.insert(id.clone()) {
                            rep.fail(format!("{ctx}: one response contains message {id} twice"));
                        }
                        st.history.entry(id.clone()).or_default().push(format!("{now:?}: delivered to stream {i} ack id {}", m.ack_id));
                        if !st.ack_ids.insert(m.ack_id.clone()) {
                            rep.fail(format!("{ctx}: ack id {} used twice", m.ack_id));
                        }
                        if st.acked.contains(&id) {
                            rep.fail(format!("{ctx}: message {id} delivered again after it was acknowledged: {:?}", st.history[&id]));
                        }
                        if let Some((other, aid)) = st.holding.insert(id.clone(), (i, m.ack_id.clone())) {
                            rep.fail(format!("{ctx}: message {id} delivered to stream {i} while stream {other} holds it (ack id {aid}): {:?}", st.history[&id]));
                        }
                    }
                }
                for m in msgs {
                    let id = mid(&m);
                    let aid = m.ack_id.clone();
                    let action = rnd(100);
                    if rnd(4) == 0 {
                        tokio::time::sleep(Duration::from_millis(rnd(30))).await;
                    }
                    let log = |st: &mut T04State, what: &str| {
                        st.history.entry(id.clone()).or_default().push(format!("{:?}: {what} (ack id {aid}, stream {i})", started.elapsed()));
                    };
                    let ok = match action {
                        0..=29 => {
                            {
                                let mut st = state.lock().unwrap();
                                st.holding.remove(&id);
                                st.acked.insert(id.clone());
                                log(&mut st, "ack via stream");
                            }
                            os.tx.send(ctl_ack(vec![aid.clone()])).await.is_ok()
                        }
                        30..=49 => {
                            let r = tmo(&rep, "Acknowledge", c.ack(&s, vec![aid.clone(), "4000000001".into()])).await;
                            let mut st = state.lock().unwrap();
                            st.holding.remove(&id);
                            st.acked.insert(id.clone());
                            st.confirmed_acked_ids.push(aid.clone());
                            log(&mut st, "ack via unary returned");
                            matches!(r, Some(Ok(())))
                        }
                        50..=64 => {
                            {
                                let mut st = state.lock().unwrap();
                                st.holding.remove(&id);
                                log(&mut st, "nack via stream");
                            }
                            os.tx.send(ctl_mod(vec![aid.clone()], 0)).await.is_ok()
                        }
                        65..=74 => {
                            {
                                let mut st = state.lock().unwrap();
                                st.holding.remove(&id);
                                log(&mut st, "nack via unary");
                            }
                            matches!(tmo(&rep, "ModifyAckDeadline(0)", c.modack(&s, vec![aid.clone()], 0)).await, Some(Ok(())))
                        }
                        75..=89 => {
                            // extend via the stream, hold, then ack via unary.
                            let a = os.tx.send(ctl_mod(vec![aid.clone()], 30)).await.is_ok();
                            tokio::time::sleep(Duration::from_millis(20 + rnd(60))).await;
                            let r = tmo(&rep, "Acknowledge", c.ack(&s, vec![aid.clone()])).await;
                            let mut st = state.lock().unwrap();
                            st.holding.remove(&id);
                            st.acked.insert(id.clone());
                            st.confirmed_acked_ids.push(aid.clone());
                            log(&mut st, "extended via stream, then ack via unary returned");
                            a && matches!(r, Some(Ok(())))
                        }
                        _ => {
                            // extend via unary, hold, then ack + redundant modify in one control message.
                            let r = tmo(&rep, "ModifyAckDeadline(20)", c.modack(&s, vec![aid.clone()], 20)).await;
                            tokio::time::sleep(Duration::from_millis(rnd(50))).await;
                            {
                                let mut st = state.lock().unwrap();
                                st.holding.remove(&id);
                                st.acked.insert(id.clone());
                                log(&mut st, "extended via unary, then ack via stream");
                            }
                            let mut req = ctl_ack(vec![aid.clone()]);
                            req.modify_deadline_ack_ids = vec!["4000000002".into()];
                            req.modify_deadline_seconds = vec![0];
                            matches!(r, Some(Ok(()))) && os.tx.send(req).await.is_ok()
                        }
                    };
                    if !ok {
                        rep.fail(format!("{ctx}: control action {action} on stream {i} failed"));
                        return os;
                    }
                }
            }
            os
        }));
    }
    // Noise: unary calls with stale (confirmed acked) and unknown ack ids.
    let noise = {
        let mut c = host.cl();
        let (s, rep, state, stop, ctx) = (s.clone(), rep.clone(), state.clone(), stop.clone(), ctx.clone());
        tokio::spawn(async move {
            while !stop.load(Ordering::Relaxed) {
                let mut ids: Vec<String> = {
                    let st = state.lock().unwrap();
                    let n = st.confirmed_acked_ids.len();
                    (0..3.min(n)).map(|_| st.confirmed_acked_ids[rnd(n as u64) as usize].clone()).collect()
                };
                ids.push(format!("{}", 3_000_000_000u64 + rnd(1000)));
                let r = match rnd(3) {
                    0 => tmo(&rep, "noise Acknowledge", c.ack(&s, ids)).await,
                    1 => tmo(&rep, "noise ModifyAckDeadline(0)", c.modack(&s, ids, 0)).await,
                    _ => tmo(&rep, "noise ModifyAckDeadline(15)", c.modack(&s, ids, 15)).await,
                };
                if !matches!(r, Some(Ok(()))) {
                    rep.fail(format!("{ctx}: unary call with stale/unknown ack ids: {r:?}"));
                    return;
                }
                spin_delay(rnd(800)).await;
            }
        })
    };
    let n_pub = 1 + round % 4;
    let mut pubs = vec![];
    for i in 0..n_pub {
        let mut c = host.cl();
        let t = t.clone();
        pubs.push(tokio::spawn(async move {
            let mut ids = vec![];
            for j in 0..6 {
                ids.extend(c.publish(&t, (0..1 + rnd(4)).map(|x| format!("m{i}-{j}-{x}")).collect()).await?);
                spin_delay(rnd(3000)).await;
            }
            Ok::<_, Status>(ids)
        }));
    }
    let mut published = HashSet::new();
    for h in pubs {
        match join_within(rep, HANG, "publisher", h).await {
            Some(Ok(ids)) => published.extend(ids),
            Some(Err(e)) => rep.fail(format!("{ctx}: Publish failed: {e:?}")),
            None => {}
        }
    }
    let dl = Instant::now() + Duration::from_secs(8);
    loop {
        let n = state.lock().unwrap().acked.len();
        if n >= published.len() {
            break;
        }
        if Instant::now() > dl {
            let st = state.lock().unwrap();
            let missing: Vec<_> = published.iter().filter(|m| !st.acked.contains(*m)).map(|m| (m.clone(), st.history.get(m).cloned())).collect();
            rep.fail(format!("{ctx}: {} of {} messages not delivered-and-acked within 8 s with {k} open streams: {missing:?}", missing.len(), published.len()));
            break;
        }
        tokio::time::sleep(Duration::from_millis(10)).await;
    }
    // Quiet period: nothing may come back.
    tokio::time::sleep(Duration::from_millis(300)).await;
    stop.store(true, Ordering::Relaxed);
    let _ = join_within(rep, HANG, "noise", noise).await;
    let mut streams = vec![];
    for h in workers {
        if let Some(os) = join_within(rep, HANG, "stream worker", h).await {
            streams.push(os);
        }
    }
    if streams.len() == k && !rep.too_many() {
        t04_phase2(host, rep, &ctx, &t, &s, &mut streams, round).await;
    }
    for os in &streams {
        os.fwd.abort();
    }
    drop(streams);
    cleanup(rep, &mut c, &t, &[&s]).await;
}

/// Waits until one of the streams receives a message; returns (stream index, message).
async fn next_on_any(streams: &mut [OpenStream], skip: Option<usize>, within: Duration) -> Result<(usize, ReceivedMessage), String> {
    let dl = Instant::now() + within;
    loop {
        for (i, os) in streams.iter_mut().enumerate() {
            if Some(i) == skip {
                continue;
            }
            match os.rx.try_recv() {
                Ok(Ok(mut ms)) if !ms.is_empty() => {
                    if ms.len() > 1 {
                        return Err(format!("stream {i} received {} messages, expected 1", ms.len()));
                    }
                    return Ok((i, ms.remove(0)));
                }
                Ok(Ok(_)) => {}
                Ok(Err(e)) => return Err(format!("stream {i} ended: {e:?}")),
                Err(_) => {}
            }
        }
        if Instant::now() > dl {
            return Err(format!("nothing received on any stream within {within:?}"));
        }
        tokio::time::sleep(Duration::from_millis(1)).await;
    }
}

async fn t04_phase2(host: &Arc<Host>, rep: &Arc<Report>, ctx: &str, t: &str, s: &str, streams: &mut Vec<OpenStream>, round: usize) {
    let mut c = host.cl();
    let variant = (round / 3) % 8;
    let ctx = format!("{ctx} phase2 variant {variant}");
    let x_id = match tmo(rep, "Publish", c.publish(t, vec!["X".into()])).await {
        Some(Ok(ids)) => ids[0].clone(),
        other => {
            rep.fail(format!("{ctx}: publish X: {other:?}"));
            return;
        }
    };
    let (holder, x) = match next_on_any(streams, None, WAKE).await {
        Ok(v) => v,
        Err(e) => {
            rep.fail(format!("{ctx}: X not delivered to the open streams: {e}"));
            return;
        }
    };
    if mid(&x) != x_id {
        rep.fail(format!("{ctx}: expected X ({x_id}), got {}", mid(&x)));
        return;
    }
    let bad = (holder + 1) % streams.len();
    let xa = x.ack_id.clone();
    let mut req = StreamingPullRequest::default();
    match variant {
        0 => {
            req = ctl_mod(vec![xa.clone()], 0);
            req.ack_ids = vec!["not-a-number".into()];
        }
        1 => {
            req.modify_deadline_ack_ids = vec![xa.clone(), "zz".into()];
            req.modify_deadline_seconds = vec![0, 10];
        }
        2 => {
            req.modify_deadline_ack_ids = vec![xa.clone(), "12".into()];
            req.modify_deadline_seconds = vec![0, -5];
        }
        3 => {
            req.modify_deadline_ack_ids = vec![xa.clone()];
            req.modify_deadline_seconds = vec![0, 10];
        }
        4 => {
            req = ctl_mod(vec![xa.clone()], 0);
            req.subscription = s.to_string();
        }
        5 => {
            req = ctl_mod(vec![xa.clone()], 0);
            req.max_outstanding_messages = 5;
        }
        6 => {
            req = ctl_mod(vec![xa.clone()], 0);
            req.max_outstanding_bytes = 10;
        }
        _ => {
            // a valid ACK of X together with a malformed modification.
            req.ack_ids = vec![xa.clone()];
            req.modify_deadline_ack_ids = vec!["bad".into()];
            req.modify_deadline_seconds = vec![10];
        }
    }
    // The malformed message races with unary calls about other ids and a publish of Y0.
    let y0 = {
        let mut c1 = host.cl();
        let mut c2 = host.cl();
        let (s1, t1) = (s.to_string(), t.to_string());
        let barrier = Arc::new(Barrier::new(3));
        let b1 = barrier.clone();
        let b2 = barrier.clone();
        let h1 = tokio::spawn(async move {
            b1.wait().await;
            c1.modack(&s1, vec!["4000000007".into()], 0).await
        });
        let h2 = tokio::spawn(async move {
            b2.wait().await;
            c2.publish(&t1, vec!["Y0".into()]).await
        });
        barrier.wait().await;
        if streams[bad].tx.send(req).await.is_err() {
            rep.fail(format!("{ctx}: could not send on stream {bad}"));
            return;
        }
        let _ = join_within(rep, HANG, "unary modack", h1).await;
        match join_within(rep, HANG, "publish Y0", h2).await {
            Some(Ok(ids)) => ids[0].clone(),
            other => {
                rep.fail(format!("{ctx}: publish Y0: {other:?}"));
                return;
            }
        }
    };
    // The bad stream must end with INVALID_ARGUMENT (it may have received Y0 just before).
    let dl = Instant::now() + WAKE;
    let mut y0_lost_to_bad = false;
    loop {
        match tokio::time::timeout_at(dl.into(), streams[bad].rx.recv()).await {
            Ok(Some(Ok(ms))) => {
                for m in ms {
                    if mid(&m) == x_id {
                        rep.fail(format!("{ctx}: X was redelivered (to the rejected stream itself): the rejected control message was applied"));
                    } else if mid(&m) == y0 {
                        y0_lost_to_bad = true;
                    }
                }
            }
            Ok(Some(Err(e))) => {
                if e.code() != Code::InvalidArgument {
                    rep.fail(format!("{ctx}: stream with malformed control message ended with {e:?}, expected INVALID_ARGUMENT"));
                }
                break;
            }
            Ok(None) => break,
            Err(_) => {
                rep.fail(format!("{ctx}: stream did not end within {WAKE:?} after a malformed control message"));
                return;
            }
        }
    }
    // For 400 ms nobody may receive X; Y0 goes to a surviving stream unless the dying
    // stream took it.
    let watch_until = Instant::now() + Duration::from_millis(400);
    let mut y0_seen = false;
    while Instant::now() < watch_until {
        match next_on_any(streams, Some(bad), Duration::from_millis(20)).await {
            Ok((i, m)) => {
                if mid(&m) == x_id {
                    rep.fail(format!("{ctx}: X (held by stream {holder}) was redelivered to stream {i}: the rejected control message was applied"));
                    return;
                } else if mid(&m) == y0 {
                    y0_seen = true;
                    let _ = streams[i].tx.send(ctl_ack(vec![m.ack_id])).await;
                }
            }
            Err(e) if e.starts_with("nothing") => {}
            Err(e) => {
                rep.fail(format!("{ctx}: a surviving stream broke: {e}"));
                return;
            }
        }
    }
    if !y0_seen && !y0_lost_to_bad {
        rep.note("Y0 taken by the dying stream (comes back after its deadline)");
    }
    if variant == 7 {
        // X must not have been acked: a nack by its holder brings it back.
        let _ = streams[holder].tx.send(ctl_mod(vec![xa.clone()], 0)).await;
        match next_on_any(streams, Some(bad), WAKE).await {
            Ok((i, m)) if mid(&m) == x_id => {
                let _ = streams[i].tx.send(ctl_ack(vec![m.ack_id])).await;
            }
            Ok((_, m)) if mid(&m) == y0 => rep.note("Y0 arrived late"),
            other => rep.fail(format!("{ctx}: after the rejected message (valid ack of X + malformed modify), a nack of X by its holder did not bring X back: {other:?}: the rejected message's ack was applied")),
        }
    } else {
        let _ = streams[holder].tx.send(ctl_ack(vec![xa.clone()])).await;
    }
    // Surviving streams keep working.
    let y_id = match tmo(rep, "Publish", c.publish(t, vec!["Y".into()])).await {
        Some(Ok(ids)) => ids[0].clone(),
        other => {
            rep.fail(format!("{ctx}: publish Y: {other:?}"));
            return;
        }
    };
    let dl = Instant::now() + WAKE;
    loop {
        match next_on_any(streams, Some(bad), WAKE).await {
            Ok((i, m)) => {
                let _ = streams[i].tx.send(ctl_ack(vec![m.ack_id.clone()])).await;
                if mid(&m) == y_id {
                    break;
                }
                if mid(&m) == x_id {
                    rep.fail(format!("{ctx}: X delivered again after its holder acked it"));
                }
            }
            Err(e) => {
                rep.fail(format!("{ctx}: after one stream was rejected, the surviving streams did not receive a new message: {e}"));
                return;
            }
        }
        if Instant::now() > dl {
            rep.fail(format!("{ctx}: Y not received"));
            return;
        }
    }
}

#[tokio::test(flavor = "multi_thread", worker_threads = 8)]
async fn t04_stream_control_vs_unary() {
    let host = Host::start(6).await;
    let rep = Report::new("t04");
    lanes!(host, rep, 4, scale(50), t04_round);
    host.dispose().await;
    rep.finish();
}

// ---------------------------------------------------------------------------------------
// T05 (C02/C05/C03): ack and nack of the SAME ack id at the same instant, via unary calls
// and via a stream. Afterwards the message is either gone or redelivered exactly once
// (a double nack must not duplicate it), never both delivered twice.
// ---------------------------------------------------------------------------------------

async fn t05_round(host: &Arc<Host>, rep: &Arc<Report>, lane: usize, round: usize) {
    let project = format!("t05-{lane}-{round}");
    let t = tn(&project, "t");
    let s = sn(&project, "s");
    let ctx = format!("t05 {lane}/{round}");
    let mut c = host.cl();
    if !setup(rep, &mut c, &t, &[&s]).await {
        return;
    }
    let m = 4usize;
    let ids = match tmo(rep, "Publish", c.publish(&t, (0..m).map(|i| format!("m{i}")).collect())).await {
        Some(Ok(ids)) => ids,
        other => {
            rep.fail(format!("{ctx}: publish: {other:?}"));
            return;
        }
    };
    let first = match tmo(rep, "Pull", c.pull(&s, 100, false)).await {
        Some(Ok(ms)) if ms.len() == m => ms,
        other => {
            rep.fail(format!("{ctx}: first pull: {:?}", other.map(|r| r.map(|v| v.len()))));
            return;
        }
    };
    // The observer stream: receives whatever becomes available again.
    let Some(mut os) = open_forwarded(rep, &mut c, &s, 100).await else { return };
    let mode = round % 5;
    let mut tasks: Vec<JoinHandle<Result<(), Status>>> = vec![];
    let n_racers: usize = first.len() * 4;
    let barrier = Arc::new(Barrier::new(n_racers));
    for rm in &first {
        let aid = rm.ack_id.clone();
        for role in 0..4 {
            let mut c = host.cl();
            let (s, aid, barrier, tx) = (s.clone(), aid.clone(), barrier.clone(), os.tx.clone());
            tasks.push(tokio::spawn(async move {
                barrier.wait().await;
                spin_delay(rnd(150)).await;
                match (mode, role) {
                    // mode 0: 2 nacks + 2 nacks via stream (must requeue once)
                    (0, 0) | (0, 1) => c.modack(&s, vec![aid.clone(), aid], 0).await,
                    (0, _) => tx.send(ctl_mod(vec![aid], 0)).await.map_err(|_| Status::internal("stream closed")),
                    // mode 1: unary ack vs unary nack vs stream nack vs stream ack
                    (1, 0) => c.ack(&s, vec![aid]).await,
                    (1, 1) => c.modack(&s, vec![aid], 0).await,
                    (1, 2) => tx.send(ctl_mod(vec![aid], 0)).await.map_err(|_| Status::internal("stream closed")),
                    (1, _) => tx.send(ctl_ack(vec![aid])).await.map_err(|_| Status::internal("stream closed")),
                    // mode 2: nack vs extend
                    (2, 0) | (2, 2) => c.modack(&s, vec![aid], 0).await,
                    (2, 1) => c.modack(&s, vec![aid], 30).await,
                    (2, _) => tx.send(ctl_mod(vec![aid], 25)).await.map_err(|_| Status::internal("stream closed")),
                    // mode 3: one control message with ack and nack of the same id, vs unary nack
                    (3, 0) => {
                        let mut r = ctl_ack(vec![aid.clone()]);
                        r.modify_deadline_ack_ids = vec![aid];
                        r.modify_deadline_seconds = vec![0];
                        tx.send(r).await.map_err(|_| Status::internal("stream closed"))
                    }
                    (3, 1) => c.modack(&s, vec![aid], 0).await,
                    (3, _) => Ok(()),
                    // mode 4: 4 unary nacks
                    _ => c.modack(&s, vec![aid], 0).await,
                }
            }));
        }
    }
    for h in tasks {
        match join_within(rep, HANG, "racer", h).await {
            Some(Ok(())) => {}
            Some(Err(e)) => rep.fail(format!("{ctx}: racing control call failed: {e:?}")),
            None => {}
        }
    }
    // Observe for a while.
    let mut seen: HashMap<String, Vec<String>> = HashMap::new();
    let until = Instant::now() + Duration::from_millis(500);
    loop {
        match tokio::time::timeout_at(until.into(), os.rx.recv()).await {
            Ok(Some(Ok(ms))) => {
                for m in ms {
                    seen.entry(mid(&m)).or_default().push(m.ack_id.clone());
                }
            }
            Ok(Some(Err(e))) => {
                rep.fail(format!("{ctx}: observer stream ended: {e:?}"));
                break;
            }
            Ok(None) => break,
            Err(_) => break,
        }
    }
    for (id, aids) in &seen {
        if !ids.contains(id) {
            rep.fail(format!("{ctx}: unknown message {id}"));
        }
        if aids.len() > 1 {
            rep.fail(format!("{ctx} mode {mode}: message {id} was redelivered {} times (ack ids {aids:?}) after concurrent ack/nack of ONE delivery", aids.len()));
        }
        if first.iter().any(|f| aids.contains(&f.ack_id)) {
            rep.fail(format!("{ctx}: redelivery reuses the ack id of the first delivery"));
        }
    }
    if (mode == 0 || mode == 4) && seen.len() != m {
        rep.fail(format!("{ctx} mode {mode}: {} of {m} nacked messages came back within 500 ms on an open stream", seen.len()));
    }
    os.fwd.abort();
    drop(os);
    cleanup(rep, &mut c, &t, &[&s]).await;
}

#[tokio::test(flavor = "multi_thread", worker_threads = 8)]
async fn t05_ack_nack_same_id_race() {
    let host = Host::start(6).await;
    let rep = Report::new("t05");
    lanes!(host, rep, 4, scale(60), t05_round);
    host.dispose().await;
    rep.finish();
}

// ---------------------------------------------------------------------------------------
// T06 (C08/C09): concurrent publishers to one topic with three subscriptions. Ids unique,
// consecutive within a request, ordered in real time; first deliveries in id order on a
// polling Pull consumer, a StreamingPull consumer and a late Pull consumer; content and
// publish time identical everywhere; ids never reused across DeleteTopic/CreateTopic.
// ---------------------------------------------------------------------------------------

lazy_static::lazy_static! {
    static ref T06_ALL_IDS: Mutex<HashSet<String>> = Mutex::new(HashSet::new());
}

struct PubRec {
    invoked: Instant,
    returned: Instant,
    ids: Vec<u64>,
    msgs: Vec<(Vec<u8>, Attrs)>,
}

async fn t06_round(host: &Arc<Host>, rep: &Arc<Report>, lane: usize, round: usize) {
    let project = format!("t06-{lane}-{round}");
    let t = tn(&project, "t");
    let (a, b, cc) = (sn(&project, "a"), sn(&project, "b"), sn(&project, "c"));
    let ctx = format!("t06 {lane}/{round}");
    let mut c = host.cl();
    if !setup(rep, &mut c, &t, &[&a, &b, &cc]).await {
        return;
    }
    let n_pub = 2 + round % 5;
    let per = 6;
    let stop = Arc::new(AtomicBool::new(false));
    // Consumer A: polling Pull.
    let cons_a = {
        let mut c = host.cl();
        let (a, rep, stop) = (a.clone(), rep.clone(), stop.clone());
        tokio::spawn(async move {
            let mut seq: Vec<ReceivedMessage> = vec![];
            let mut idle_after_stop = 0;
            loop {
                match tmo(&rep, "Pull(ri)", c.pull(&a, 1000, true)).await {
                    Some(Ok(ms)) => {
                        if ms.is_empty() {
                            if stop.load(Ordering::Relaxed) {
                                idle_after_stop += 1;
                                if idle_after_stop > 3 {
                                    break;
                                }
                            }
                            spin_delay(200 + rnd(2000)).await;
                        } else {
                            let aids = ms.iter().map(|m| m.ack_id.clone()).collect();
                            seq.extend(ms);
                            let _ = tmo(&rep, "Acknowledge", c.ack(&a, aids)).await;
                        }
                    }
                    other => {
                        rep.fail(format!("t06: Pull on a: {other:?}"));
                        break;
                    }
                }
            }
            seq
        })
    };
    // Consumer B: one StreamingPull.
    let Some(mut os) = open_forwarded(rep, &mut c, &b, 1000).await else { return };
    let barrier = Arc::new(Barrier::new(n_pub));
    let mut pubs = vec![];
    for i in 0..n_pub {
        let mut c = host.cl();
        let (t, barrier) = (t.clone(), barrier.clone());
        pubs.push(tokio::spawn(async move {
            barrier.wait().await;
            let mut recs = vec![];
            for j in 0..per {
                let msgs: Vec<_> = (0..1 + rnd(4)).map(|x| rand_payload(&format!("p{i}-{j}-{x}"))).collect();
                let invoked = Instant::now();
                let ids = publish_full(&mut c, &t, msgs.clone()).await?;
                let returned = Instant::now();
                let ids: Vec<u64> = ids.iter().map(|s| s.parse().unwrap_or(0)).collect();
                recs.push(PubRec { invoked, returned, ids, msgs });
                if rnd(3) == 0 {
                    spin_delay(rnd(1500)).await;
                }
            }
            Ok::<_, Status>(recs)
        }));
    }
    let mut recs: Vec<PubRec> = vec![];
    for h in pubs {
        match join_within(rep, HANG, "publisher", h).await {
            Some(Ok(r)) => recs.extend(r),
            Some(Err(e)) => rep.fail(format!("{ctx}: Publish failed: {e:?}")),
            None => {}
        }
    }
    stop.store(true, Ordering::Relaxed);
    let mut content: HashMap<u64, (Vec<u8>, Attrs)> = HashMap::new();
    for r in &recs {
        if r.ids.len() != r.msgs.len() {
            rep.fail(format!("{ctx}: Publish of {} messages returned {} ids", r.msgs.len(), r.ids.len()));
        }
        if r.ids.windows(2).any(|w| w[1] != w[0] + 1) || r.ids.contains(&0) {
            rep.fail(format!("{ctx}: ids of one Publish request are not consecutive/increasing: {:?}", r.ids));
        }
        for (id, m) in r.ids.iter().zip(&r.msgs) {
            if content.insert(*id, m.clone()).is_some() {
                rep.fail(format!("{ctx}: message id {id} issued twice on one topic"));
            }
            if !T06_ALL_IDS.lock().unwrap().insert(id.to_string()) {
                rep.fail(format!("{ctx}: message id {id} was already issued before (another topic or incarnation)"));
            }
        }
    }
    for x in &recs {
        for y in &recs {
            if x.returned < y.invoked && x.ids.iter().max() >= y.ids.iter().min() {
                rep.fail(format!("{ctx}: Publish returning ids {:?} completed before the Publish returning {:?} was invoked, but the ids are not ordered", x.ids, y.ids));
            }
        }
    }
    let mut all: Vec<u64> = content.keys().cloned().collect();
    all.sort();
    let total = all.len();
    // Collect B.
    let mut seq_b: Vec<ReceivedMessage> = vec![];
    let dl = Instant::now() + WAKE;
    while seq_b.len() < total {
        match tokio::time::timeout_at(dl.into(), os.rx.recv()).await {
            Ok(Some(Ok(ms))) => {
                let _ = os.tx.send(ctl_ack(ms.iter().map(|m| m.ack_id.clone()).collect())).await;
                seq_b.extend(ms);
            }
            Ok(Some(Err(e))) => {
                rep.fail(format!("{ctx}: stream on b ended: {e:?}"));
                break;
            }
            _ => break,
        }
    }
    let seq_a = join_within(rep, Duration::from_secs(20), "consumer a", cons_a).await.unwrap_or_default();
    // Consumer C: late.
    let mut seq_c: Vec<ReceivedMessage> = vec![];
    let dl = Instant::now() + WAKE;
    while seq_c.len() < total && Instant::now() < dl {
        match tmo(rep, "Pull(ri)", c.pull(&cc, 1000, true)).await {
            Some(Ok(ms)) => seq_c.extend(ms),
            other => {
                rep.fail(format!("{ctx}: Pull on c: {other:?}"));
                break;
            }
        }
    }
    let mut times: HashMap<u64, Option<prost_types::Timestamp>> = HashMap::new();
    for (name, seq) in [("polling Pull consumer", &seq_a), ("StreamingPull consumer", &seq_b), ("late Pull consumer", &seq_c)] {
        let got: Vec<u64> = seq.iter().map(|m| mid(m).parse().unwrap_or(0)).collect();
        if got != all {
            let first_bad = got.iter().zip(&all).position(|(x, y)| x != y);
            rep.fail(format!(
                "{ctx} ({n_pub} publishers): {name} received {} messages, expected {total} in id order; first difference at position {first_bad:?}; got {:?} expected {:?}",
                got.len(),
                &got[first_bad.unwrap_or(0).saturating_sub(3)..got.len().min(first_bad.unwrap_or(0) + 6)],
                &all[first_bad.unwrap_or(0).saturating_sub(3)..all.len().min(first_bad.unwrap_or(0) + 6)]
            ));
        }
        for m in seq.iter() {
            let pm = m.message.as_ref().unwrap();
            let id: u64 = pm.message_id.parse().unwrap_or(0);
            if let Some((d, at)) = content.get(&id) {
                if pm.data != *d || pm.attributes != *at {
                    rep.fail(format!("{ctx}: {name}: content of message {id} differs from what was published"));
                }
            }
            let e = times.entry(id).or_insert_with(|| pm.publish_time.clone());
            if *e != pm.publish_time {
                rep.fail(format!("{ctx}: message {id} has different publish times on different subscriptions"));
            }
        }
    }
    os.fwd.abort();
    drop(os);
    // Delete and re-create the topic; race publishes with it. No id is ever reused.
    let r = race(rep, 8, "topic delete/create/publish", |i| {
        let mut c = host.cl();
        let t = t.clone();
        async move {
            let mut out = vec![];
            for _ in 0..3 {
                match i % 4 {
                    0 => {
                        let _ = c.delete_topic(&t).await;
                    }
                    1 => {
                        let _ = c.create_topic(&t).await;
                    }
                    _ => {
                        if let Ok(ids) = c.publish(&t, vec!["z".into(), "z".into()]).await {
                            out.extend(ids);
                        }
                    }
                }
            }
            out
        }
    })
    .await;
    let _ = tmo(rep, "CreateTopic", c.create_topic(&t)).await;
    let mut late: Vec<String> = r.into_iter().flatten().collect();
    if let Some(Ok(ids)) = tmo(rep, "Publish", c.publish(&t, vec!["after".into()])).await {
        late.extend(ids);
    }
    for id in late {
        if !T06_ALL_IDS.lock().unwrap().insert(id.clone()) {
            rep.fail(format!("{ctx}: message id {id} reused across DeleteTopic/CreateTopic of one name"));
        }
    }
    cleanup(rep, &mut c, &t, &[&a, &b, &cc]).await;
}

#[tokio::test(flavor = "multi_thread", worker_threads = 8)]
async fn t06_order_and_ids() {
    let host = Host::start(6).await;
    let rep = Report::new("t06");
    lanes!(host, rep, 4, scale(60), t06_round);
    host.dispose().await;
    rep.finish();
}

/// Runs `n` copies of `f(i)` lined up on a barrier and returns their results.
async fn race<T, F, Fut>(rep: &Report, n: usize, what: &str, f: F) -> Vec<T>
where
    F: Fn(usize) -> Fut,
    Fut: Future<Output = T> + Send + 'static,
    T: Send + 'static,
{
    let barrier = Arc::new(Barrier::new(n));
    let mut hs = vec![];
    for i in 0..n {
        let fut = f(i);
        let barrier = barrier.clone();
        hs.push(tokio::spawn(async move {
            barrier.wait().await;
            fut.await
        }));
    }
    let mut out = vec![];
    for h in hs {
        if let Some(v) = join_within(rep, HANG, what, h).await {
            out.push(v);
        }
    }
    out
}

// ---------------------------------------------------------------------------------------
// T07 (C13/C11/C10): heavy concurrent create/delete of topics and subscriptions in two
// projects, then at quiescence: page walks (sizes 1, 7, 1000, 0) list every live resource
// exactly once, in a stable order that respects the creation order of non-overlapping
// creates, nothing from the other project, and ListTopicSubscriptions agrees with the
// subscriptions that report the topic.
// ---------------------------------------------------------------------------------------

fn eff_size(size: i32) -> usize {
    match size {
        0 => 20,
        s if s > 1000 => 1000,
        s => s as usize,
    }
}

async fn walk_topics(c: &mut Cl, project: &str, size: i32) -> Result<Vec<Vec<String>>, Status> {
    let mut pages = vec![];
    let mut token = String::new();
    for _ in 0..5000 {
        let r = c
            .p
            .list_topics(ListTopicsRequest {
                project: format!("projects/{project}"),
                page_size: size,
                page_token: token.clone(),
            })
            .await?
            .into_inner();
        pages.push(r.topics.into_iter().map(|t| t.name).collect());
        token = r.next_page_token;
        if token.is_empty() {
            return Ok(pages);
        }
    }
    Err(Status::internal("page walk does not end"))
}

async fn walk_subs(c: &mut Cl, project: &str, size: i32) -> Result<Vec<Vec<Subscription>>, Status> {
    let mut pages = vec![];
    let mut token = String::new();
    for _ in 0..5000 {
        let r = c
            .s
            .list_subscriptions(ListSubscriptionsRequest {
                project: format!("projects/{project}"),
                page_size: size,
                page_token: token.clone(),
            })
            .await?
            .into_inner();
        pages.push(r.subscriptions);
        token = r.next_page_token;
        if token.is_empty() {
            return Ok(pages);
        }
    }
    Err(Status::internal("page walk does not end"))
}

async fn walk_topic_subs(c: &mut Cl, topic: &str, size: i32) -> Result<Vec<Vec<String>>, Status> {
    let mut pages = vec![];
    let mut token = String::new();
    for _ in 0..5000 {
        let r = c
            .p
            .list_topic_subscriptions(ListTopicSubscriptionsRequest {
                topic: topic.to_string(),
                page_size: size,
                page_token: token.clone(),
            })
            .await?
            .into_inner();
        pages.push(r.subscriptions);
        token = r.next_page_token;
        if token.is_empty() {
            return Ok(pages);
        }
    }
    Err(Status::internal("page walk does not end"))
}

fn check_pages<T>(rep: &Report, ctx: &str, what: &str, size: i32, pages: &[Vec<T>]) {
    for p in pages {
        if p.len() > eff_size(size) {
            rep.fail(format!("{ctx}: {what} page_size {size}: page with {} entries", p.len()));
        }
    }
}

fn dup<'a>(v: &'a [String]) -> Option<&'a String> {
    let mut s = HashSet::new();
    v.iter().find(|x| !s.insert(*x))
}

async fn t07_round(host: &Arc<Host>, rep: &Arc<Report>, lane: usize, round: usize) {
    let projects = [format!("t07a-{lane}-{round}"), format!("t07b-{lane}-{round}")];
    let ctx = format!("t07 {lane}/{round}");
    let mut c = host.cl();
    for p in &projects {
        if !setup(rep, &mut c, &tn(p, "keep"), &[]).await {
            return;
        }
    }
    let n_topics = 6usize;
    let n_subs = 24usize;
    let n_workers = 8 + round % 9;
    let fresh: Arc<Mutex<Vec<(String, bool, Instant, Instant)>>> = Arc::new(Mutex::new(vec![]));
    let mut tasks = vec![];
    for w in 0..n_workers {
        let mut c = host.cl();
        let (rep, projects) = (rep.clone(), projects.clone());
        tasks.push(tokio::spawn(async move {
            for _ in 0..120 {
                let p = &projects[rnd(2) as usize];
                let t = tn(p, &format!("t{}", rnd(n_topics as u64)));
                let s = sn(p, &format!("s{}", rnd(n_subs as u64)));
                let ok = match rnd(100) {
                    0..=17 => tmo(&rep, "CreateTopic", c.create_topic(&t)).await.is_some(),
                    18..=27 => tmo(&rep, "DeleteTopic", c.delete_topic(&t)).await.is_some(),
                    28..=64 => {
                        let topic = match rnd(20) {
                            0 => tn(&projects[(w + 1) % 2], "keep"),
                            1..=6 => tn(p, "keep"),
                            _ => t.clone(),
                        };
                        match tmo(&rep, "CreateSubscription", c.create_sub(&s, &topic)).await {
                            Some(Ok(r)) => {
                                if r.name != s || (r.topic != topic && r.topic != "_deleted_topic_") {
                                    rep.fail(format!("t07: CreateSubscription({s}, {topic}) answered name {} topic {}", r.name, r.topic));
                                }
                                true
                            }
                            Some(Err(_)) => true,
                            None => false,
                        }
                    }
                    65..=89 => tmo(&rep, "DeleteSubscription", c.delete_sub(&s)).await.is_some(),
                    90..=94 => tmo(&rep, "ListSubscriptions", c.list_subs(p)).await.is_some(),
                    _ => tmo(&rep, "ListTopicSubscriptions", c.list_topic_subs(&t)).await.is_some(),
                };
                if !ok {
                    return;
                }
            }
        }));
    }
    // Fresh names, each created exactly once while the churn runs.
    for f in 0..6 {
        let mut c = host.cl();
        let (rep, projects, fresh) = (rep.clone(), projects.clone(), fresh.clone());
        tasks.push(tokio::spawn(async move {
            for j in 0..6 {
                let p = &projects[(f + j) % 2];
                let is_topic = (f + j / 2) % 2 == 0;
                let name = if is_topic { tn(p, &format!("f{f}-{j}")) } else { sn(p, &format!("fs{f}-{j}")) };
                spin_delay(rnd(3000)).await;
                let t0 = Instant::now();
                let r = if is_topic {
                    tmo(&rep, "CreateTopic", c.create_topic(&name)).await
                } else {
                    tmo(&rep, "CreateSubscription", c.create_sub(&name, &tn(p, "keep"))).await.map(|r| r.map(|_| ()))
                };
                let t1 = Instant::now();
                match r {
                    Some(Ok(())) => fresh.lock().unwrap().push((name, is_topic, t0, t1)),
                    other => rep.fail(format!("t07: creating fresh {name}: {other:?}")),
                }
            }
        }));
    }
    for h in tasks {
        let _ = join_within(rep, Duration::from_secs(60), "t07 worker", h).await;
    }
    let fresh = fresh.lock().unwrap().clone();
    // Quiescent. Establish the live sets by Get.
    for (pi, p) in projects.iter().enumerate() {
        let other = &projects[1 - pi];
        let mut live_topics = HashSet::new();
        let mut cand_t: Vec<String> = (0..n_topics).map(|i| tn(p, &format!("t{i}"))).collect();
        cand_t.push(tn(p, "keep"));
        cand_t.extend(fresh.iter().filter(|f| f.1 && f.0.starts_with(&format!("projects/{p}/"))).map(|f| f.0.clone()));
        for t in &cand_t {
            match tmo(rep, "GetTopic", c.get_topic(t)).await {
                Some(Ok(())) => {
                    live_topics.insert(t.clone());
                }
                Some(Err(e)) if e.code() == Code::NotFound => {}
                other => rep.fail(format!("{ctx}: GetTopic {t}: {other:?}")),
            }
        }
        let mut live_subs: HashMap<String, Subscription> = HashMap::new();
        let mut cand_s: Vec<String> = (0..n_subs).map(|i| sn(p, &format!("s{i}"))).collect();
        cand_s.extend(fresh.iter().filter(|f| !f.1 && f.0.starts_with(&format!("projects/{p}/"))).map(|f| f.0.clone()));
        for s in &cand_s {
            match tmo(rep, "GetSubscription", c.get_sub(s)).await {
                Some(Ok(sub)) => {
                    live_subs.insert(s.clone(), sub);
                }
                Some(Err(e)) if e.code() == Code::NotFound => {}
                other => rep.fail(format!("{ctx}: GetSubscription {s}: {other:?}")),
            }
        }
        let mut ref_topics: Option<Vec<String>> = None;
        let mut ref_subs: Option<Vec<String>> = None;
        for (wi, size) in [1000, 1, 7, 0, 1000].into_iter().enumerate() {
            // Topics.
            match tmo(rep, "walk ListTopics", walk_topics(&mut c, p, size)).await {
                Some(Ok(pages)) => {
                    check_pages(rep, &ctx, "ListTopics", size, &pages);
                    let flat: Vec<String> = pages.into_iter().flatten().collect();
                    if let Some(d) = dup(&flat) {
                        rep.fail(format!("{ctx}: ListTopics page_size {size} lists {d} twice"));
                    }
                    let set: HashSet<String> = flat.iter().cloned().collect();
                    if set != live_topics {
                        rep.fail(format!(
                            "{ctx}: ListTopics({p}) page_size {size}: missing {:?}, unexpected {:?}",
                            live_topics.difference(&set).collect::<Vec<_>>(),
                            set.difference(&live_topics).collect::<Vec<_>>()
                        ));
                    }
                    if flat.iter().any(|n| n.contains(other.as_str())) {
                        rep.fail(format!("{ctx}: ListTopics({p}) lists a topic of {other}"));
                    }
                    match &ref_topics {
                        None => ref_topics = Some(flat),
                        Some(r) => {
                            if *r != flat {
                                rep.fail(format!("{ctx}: ListTopics order differs between walks (walk {wi}, page_size {size}): {r:?} vs {flat:?}"));
                            }
                        }
                    }
                }
                other => rep.fail(format!("{ctx}: ListTopics walk: {:?}", other.map(|r| r.map(|_| ())))),
            }
            // Subscriptions.
            match tmo(rep, "walk ListSubscriptions", walk_subs(&mut c, p, size)).await {
                Some(Ok(pages)) => {
                    check_pages(rep, &ctx, "ListSubscriptions", size, &pages);
                    let subs: Vec<Subscription> = pages.into_iter().flatten().collect();
                    let flat: Vec<String> = subs.iter().map(|s| s.name.clone()).collect();
                    if let Some(d) = dup(&flat) {
                        rep.fail(format!("{ctx}: ListSubscriptions page_size {size} lists {d} twice"));
                    }
                    let set: HashSet<String> = flat.iter().cloned().collect();
                    let live: HashSet<String> = live_subs.keys().cloned().collect();
                    if set != live {
                        rep.fail(format!(
                            "{ctx}: ListSubscriptions({p}) page_size {size}: missing {:?}, unexpected {:?}",
                            live.difference(&set).collect::<Vec<_>>(),
                            set.difference(&live).collect::<Vec<_>>()
                        ));
                    }
                    for s in &subs {
                        if let Some(g) = live_subs.get(&s.name) {
                            if g != s {
                                rep.fail(format!("{ctx}: List and Get disagree about {}: {s:?} vs {g:?}", s.name));
                            }
                        }
                        if s.ack_deadline_seconds != 10 || s.push_config.is_some() {
                            rep.fail(format!("{ctx}: {} reports deadline {} push {:?}", s.name, s.ack_deadline_seconds, s.push_config));
                        }
                    }
                    match &ref_subs {
                        None => ref_subs = Some(flat),
                        Some(r) => {
                            if *r != flat {
                                rep.fail(format!("{ctx}: ListSubscriptions order differs between walks (walk {wi}, page_size {size})"));
                            }
                        }
                    }
                }
                other => rep.fail(format!("{ctx}: ListSubscriptions walk: {:?}", other.map(|r| r.map(|_| ())))),
            }
        }
        // Creation order of fresh names whose creates did not overlap.
        for (list, is_topic) in [(ref_topics.clone().unwrap_or_default(), true), (ref_subs.clone().unwrap_or_default(), false)] {
            let pos: HashMap<&String, usize> = list.iter().enumerate().map(|(i, n)| (n, i)).collect();
            for x in fresh.iter().filter(|f| f.1 == is_topic) {
                for y in fresh.iter().filter(|f| f.1 == is_topic) {
                    if x.3 < y.2 {
                        if let (Some(px), Some(py)) = (pos.get(&x.0), pos.get(&y.0)) {
                            if px > py {
                                rep.fail(format!("{ctx}: {} was created (returned) before creation of {} began, but is listed after it", x.0, y.0));
                            }
                        }
                    }
                }
            }
        }
        // ListTopicSubscriptions of each live topic.
        let sub_order = ref_subs.clone().unwrap_or_default();
        for t in &live_topics {
            let expected: Vec<String> = sub_order.iter().filter(|s| live_subs.get(*s).map(|x| &x.topic) == Some(t)).cloned().collect();
            for size in [1000, 1, 7, 0] {
                match tmo(rep, "walk ListTopicSubscriptions", walk_topic_subs(&mut c, t, size)).await {
                    Some(Ok(pages)) => {
                        check_pages(rep, &ctx, "ListTopicSubscriptions", size, &pages);
                        let flat: Vec<String> = pages.into_iter().flatten().collect();
                        if flat != expected {
                            let a: HashSet<_> = flat.iter().collect();
                            let b: HashSet<_> = expected.iter().collect();
                            rep.fail(format!(
                                "{ctx}: ListTopicSubscriptions({t}) page_size {size} = {flat:?} but the live subscriptions reporting that topic are (in ListSubscriptions order) {expected:?}; only in topic list: {:?}; only in subscriptions: {:?}",
                                a.difference(&b).collect::<Vec<_>>(),
                                b.difference(&a).collect::<Vec<_>>()
                            ));
                        }
                    }
                    other => rep.fail(format!("{ctx}: ListTopicSubscriptions walk: {:?}", other.map(|r| r.map(|_| ())))),
                }
            }
            // The topic must be usable.
            if let Some(Err(e)) = tmo(rep, "probe Publish", c.publish(t, vec!["probe".into()])).await {
                rep.fail(format!("{ctx}: Publish to live topic {t} failed at quiescence: {e:?}"));
            }
        }
        // Clean up.
        for s in live_subs.keys() {
            let _ = tmo(rep, "cleanup", c.delete_sub(s)).await;
        }
        for t in &live_topics {
            let _ = tmo(rep, "cleanup", c.delete_topic(t)).await;
        }
    }
}

#[tokio::test(flavor = "multi_thread", worker_threads = 8)]
async fn t07_listing_after_churn() {
    let host = Host::start(6).await;
    let rep = Report::new("t07");
    lanes!(host, rep, 2, scale(30), t07_round);
    host.dispose().await;
    rep.finish();
}

// ---------------------------------------------------------------------------------------
// T08 (C04/C03/C06): ack deadline under load. A pulled message is not handed to anybody
// else before (pull start + deadline) and is handed to a blocked Pull soon after
// (receipt + deadline + 0.1 s); the redelivery itself is leased again.
// ---------------------------------------------------------------------------------------

fn late_tol() -> Duration {
    Duration::from_millis(std::env::var("MT_LATE_TOL_MS").ok().and_then(|v| v.parse().ok()).unwrap_or(1500))
}

async fn t08_round(host: &Arc<Host>, rep: &Arc<Report>, lane: usize, round: usize) {
    let project = format!("t08-{lane}-{round}");
    let t = tn(&project, "t");
    let s = sn(&project, "s");
    let ctx = format!("t08 {lane}/{round}");
    let mut c = host.cl();
    if !setup(rep, &mut c, &t, &[]).await {
        return;
    }
    let requested = [0, 10, 12, 5][(lane + round) % 4];
    let dsecs = requested.max(10) as u64;
    let d = Duration::from_secs(dsecs);
    match tmo(rep, "CreateSubscription", create_sub_cfg(&mut c, &s, &t, requested, None)).await {
        Some(Ok(r)) => {
            if r.ack_deadline_seconds as u64 != dsecs {
                rep.fail(format!("{ctx}: requested deadline {requested}, reported {}", r.ack_deadline_seconds));
            }
        }
        other => {
            rep.fail(format!("{ctx}: create: {other:?}"));
            return;
        }
    }
    let m = 6usize;
    if !matches!(tmo(rep, "Publish", c.publish(&t, (0..m).map(|i| format!("m{i}")).collect())).await, Some(Ok(_))) {
        rep.fail(format!("{ctx}: publish failed"));
        return;
    }
    // Lease everything with concurrent pulls. msg -> (pull_start, recv, ack id)
    let leases: Arc<Mutex<HashMap<String, (Instant, Instant, String)>>> = Arc::new(Mutex::new(HashMap::new()));
    let r = race(rep, 3, "leasing Pull", |_| {
        let mut c = host.cl();
        let (s, leases, rep, ctx) = (s.clone(), leases.clone(), rep.clone(), ctx.clone());
        async move {
            for _ in 0..20 {
                let ps = Instant::now();
                match c.pull(&s, 2, true).await {
                    Ok(ms) => {
                        let rc = Instant::now();
                        if ms.is_empty() {
                            if leases.lock().unwrap().len() >= 6 {
                                return;
                            }
                            tokio::time::sleep(Duration::from_millis(2)).await;
                        }
                        for m in ms {
                            if leases.lock().unwrap().insert(mid(&m), (ps, rc, m.ack_id.clone())).is_some() {
                                rep.fail(format!("{ctx}: message {} handed out twice while leasing", mid(&m)));
                            }
                        }
                    }
                    Err(e) => {
                        rep.fail(format!("{ctx}: pull: {e:?}"));
                        return;
                    }
                }
            }
        }
    })
    .await;
    drop(r);
    let leases = leases.lock().unwrap().clone();
    if leases.len() != m {
        rep.fail(format!("{ctx}: leased {} of {m}", leases.len()));
        return;
    }
    let first_lease = leases.values().map(|l| l.0).min().unwrap();
    let last_recv = leases.values().map(|l| l.1).max().unwrap();
    // Blocked pullers: (pull_start, recv, msgs)
    let redeliveries: Arc<Mutex<Vec<(Instant, Instant, String, String)>>> = Arc::new(Mutex::new(vec![]));
    let end_at = last_recv + d + Duration::from_millis(100) + late_tol() + Duration::from_millis(1200);
    let mut blocked = vec![];
    for _ in 0..2 {
        let mut c = host.cl();
        let (s, red) = (s.clone(), redeliveries.clone());
        blocked.push(tokio::spawn(async move {
            while Instant::now() < end_at {
                let ps = Instant::now();
                match tokio::time::timeout_at(end_at.into(), c.pull(&s, 10, false)).await {
                    Ok(Ok(ms)) => {
                        let rc = Instant::now();
                        let mut r = red.lock().unwrap();
                        for m in ms {
                            r.push((ps, rc, mid(&m), m.ack_id.clone()));
                        }
                    }
                    Ok(Err(e)) => return Err(e),
                    Err(_) => break,
                }
            }
            Ok(())
        }));
    }
    // A probe in the middle of the lease.
    tokio::time::sleep(Duration::from_secs(5)).await;
    match tmo(rep, "Pull(ri)", c.pull(&s, 10, true)).await {
        Some(Ok(ms)) if ms.is_empty() => {}
        Some(Ok(ms)) => {
            // A blocked puller may not have them either; this is an early redelivery.
            rep.fail(format!("{ctx}: {} messages handed out {:?} after they were leased (deadline {dsecs} s)", ms.len(), first_lease.elapsed()));
        }
        other => rep.fail(format!("{ctx}: probe pull: {other:?}")),
    }
    for h in blocked {
        match join_within(rep, d + Duration::from_secs(20), "blocked puller", h).await {
            Some(Ok(())) => {}
            Some(Err(e)) => rep.fail(format!("{ctx}: blocked Pull failed: {e:?}")),
            None => {}
        }
    }
    let red = redeliveries.lock().unwrap().clone();
    for (id, (ps, rc, aid)) in &leases {
        let mut rs: Vec<_> = red.iter().filter(|r| &r.2 == id).collect();
        rs.sort_by_key(|r| r.1);
        match rs.first() {
            None => rep.fail(format!(
                "{ctx}: message {id} leased at {:?} (deadline {dsecs} s) was not redelivered to 2 blocked Pulls within {:?}",
                ps.duration_since(first_lease),
                end_at.duration_since(*rc)
            )),
            Some(r) => {
                if r.1 + Duration::from_millis(3) < *ps + d {
                    rep.fail(format!("{ctx}: message {id} redelivered {:?} after the Pull that leased it STARTED (deadline {dsecs} s): too early", r.1.duration_since(*ps)));
                }
                let lateness = r.1.saturating_duration_since(*rc + d + Duration::from_millis(100));
                if lateness > late_tol() {
                    rep.fail(format!("{ctx}: message {id} redelivered {:?} after the leasing Pull returned (deadline {dsecs} s + 0.1 s slack): late by {lateness:?}", r.1.duration_since(*rc)));
                } else if lateness > Duration::from_millis(400) {
                    rep.note("redelivery 0.4..1.5 s later than deadline+0.1 s");
                }
                if &r.3 == aid {
                    rep.fail(format!("{ctx}: redelivery of {id} reuses ack id {aid}"));
                }
            }
        }
        if rs.len() > 1 {
            rep.fail(format!(
                "{ctx}: message {id} redelivered {} times within {:?} of its first redelivery (each redelivery is leased for {dsecs} s)",
                rs.len(),
                rs.last().unwrap().1.duration_since(rs[0].1)
            ));
        }
    }
    cleanup(rep, &mut c, &t, &[&s]).await;
}

#[tokio::test(flavor = "multi_thread", worker_threads = 8)]
async fn t08_deadline_expiry_window() {
    let host = Host::start(8).await;
    let rep = Report::new("t08");
    lanes!(host, rep, 16, scale(2), t08_round);
    host.dispose().await;
    rep.finish();
}

// ---------------------------------------------------------------------------------------
// T09 (C05/C04/C03): ModifyAckDeadline(2) shortens the lease; a second
// ModifyAckDeadline(3) is sent right around the expiry instant. The message is redelivered
// either around the first deadline (the second call came too late) or around the second
// one; never earlier, never lost, never both.
// ---------------------------------------------------------------------------------------

async fn t09_round(host: &Arc<Host>, rep: &Arc<Report>, lane: usize, round: usize) {
    let project = format!("t09-{lane}-{round}");
    let t = tn(&project, "t");
    let s = sn(&project, "s");
    let ctx = format!("t09 {lane}/{round}");
    let mut c = host.cl();
    if !setup(rep, &mut c, &t, &[&s]).await {
        return;
    }
    if !matches!(tmo(rep, "Publish", c.publish(&t, vec!["x".into(), "by1".into(), "by2".into()])).await, Some(Ok(_))) {
        return;
    }
    let ms = match tmo(rep, "Pull", c.pull(&s, 10, false)).await {
        Some(Ok(ms)) if ms.len() == 3 => ms,
        other => {
            rep.fail(format!("{ctx}: pull: {:?}", other.map(|r| r.map(|v| v.len()))));
            return;
        }
    };
    let x = ms[0].clone();
    let x_id = mid(&x);
    // Bystanders are acked right away.
    let _ = tmo(rep, "Acknowledge", c.ack(&s, vec![ms[1].ack_id.clone(), ms[2].ack_id.clone()])).await;
    let t0s = Instant::now();
    if !matches!(tmo(rep, "ModifyAckDeadline(2)", c.modack(&s, vec![x.ack_id.clone()], 2)).await, Some(Ok(()))) {
        rep.fail(format!("{ctx}: modack failed"));
        return;
    }
    let t0r = Instant::now();
    let tol = late_tol();
    let slack = Duration::from_millis(100);
    let via_stream = round % 3 == 2;
    // Blocked consumer(s).
    let got: Arc<Mutex<Vec<(Instant, String, String)>>> = Arc::new(Mutex::new(vec![]));
    let end_at = t0s + Duration::from_millis(2200) + Duration::from_secs(3) + slack + tol + Duration::from_millis(700);
    let mut consumers = vec![];
    for _ in 0..2 {
        let mut c = host.cl();
        let (s, got) = (s.clone(), got.clone());
        consumers.push(tokio::spawn(async move {
            while Instant::now() < end_at {
                match tokio::time::timeout_at(end_at.into(), c.pull(&s, 10, false)).await {
                    Ok(Ok(ms)) => {
                        let rc = Instant::now();
                        let mut g = got.lock().unwrap();
                        for m in ms {
                            g.push((rc, mid(&m), m.ack_id.clone()));
                        }
                    }
                    Ok(Err(e)) => return Err(e),
                    Err(_) => break,
                }
            }
            Ok(())
        }));
    }
    // Second modification around the expiry instant (the deadline is rounded up by < 0.1 s).
    let jitter_us = rnd(220_000) as i64 - 50_000;
    let target = t0s + Duration::from_secs(2);
    let target = if jitter_us >= 0 { target + Duration::from_micros(jitter_us as u64) } else { target - Duration::from_micros((-jitter_us) as u64) };
    tokio::time::sleep_until((target - Duration::from_millis(3)).into()).await;
    while Instant::now() < target {
        tokio::task::yield_now().await;
    }
    let t1s = Instant::now();
    let mut stream_keep = None;
    if via_stream {
        // A StreamingPull opened now also becomes a consumer; use max_outstanding 1.
        // Simpler and unambiguous: send the modification through a unary call on even
        // rounds and through a fresh stream's control message here.
        let mut c2 = host.cl();
        match tmo(rep, "open stream", c2.open_stream(&s, 1)).await {
            Some(Ok((tx, stream))) => {
                let _ = tx.send(ctl_mod(vec![x.ack_id.clone()], 3)).await;
                stream_keep = Some((tx, stream));
            }
            other => {
                rep.fail(format!("{ctx}: open stream: {:?}", other.map(|r| r.map(|_| ()))));
            }
        }
    } else if !matches!(tmo(rep, "ModifyAckDeadline(3)", c.modack(&s, vec![x.ack_id.clone()], 3)).await, Some(Ok(()))) {
        rep.fail(format!("{ctx}: second modack failed"));
    }
    let t1r = Instant::now();
    // The stream, if any, is a consumer too: collect what it receives.
    let stream_got: Arc<Mutex<Vec<(Instant, String, String)>>> = Arc::new(Mutex::new(vec![]));
    let stream_task = stream_keep.map(|(tx, mut stream)| {
        let sg = stream_got.clone();
        tokio::spawn(async move {
            let _tx = tx;
            while let Ok(Ok(Some(r))) = tokio::time::timeout_at(end_at.into(), stream.message()).await {
                let rc = Instant::now();
                let mut g = sg.lock().unwrap();
                for m in r.received_messages {
                    g.push((rc, mid(&m), m.ack_id.clone()));
                }
            }
        })
    });
    for h in consumers {
        match join_within(rep, Duration::from_secs(30), "blocked puller", h).await {
            Some(Ok(())) => {}
            Some(Err(e)) => rep.fail(format!("{ctx}: blocked Pull failed: {e:?}")),
            None => {}
        }
    }
    if let Some(h) = stream_task {
        let _ = join_within(rep, Duration::from_secs(30), "stream consumer", h).await;
    }
    let mut all: Vec<(Instant, String, String)> = got.lock().unwrap().clone();
    all.extend(stream_got.lock().unwrap().iter().cloned());
    all.sort_by_key(|g| g.0);
    let rel = |i: Instant| i.duration_since(t0s);
    let desc = format!(
        "modack(2) {:?}..{:?}, modack(3){} {:?}..{:?}, deliveries at {:?}",
        rel(t0s),
        rel(t0r),
        if via_stream { " via stream" } else { "" },
        rel(t1s),
        rel(t1r),
        all.iter().map(|g| (rel(g.0), g.1 == x_id)).collect::<Vec<_>>()
    );
    let xs: Vec<_> = all.iter().filter(|g| g.1 == x_id).collect();
    if all.iter().any(|g| g.1 != x_id) {
        rep.fail(format!("{ctx}: an acked bystander message was delivered again: {desc}"));
    }
    match xs.first() {
        None => rep.fail(format!("{ctx}: the message was never redelivered (lost?) within {:?}: {desc}", rel(end_at))),
        Some(g) => {
            let r1 = g.0;
            let e_lo = t0s + Duration::from_secs(2) - Duration::from_millis(3);
            let e_hi = t0r + Duration::from_secs(2) + slack + tol;
            let m_lo = t1s + Duration::from_secs(3) - Duration::from_millis(3);
            let m_hi = t1r + Duration::from_secs(3) + slack + tol;
            let in_e = r1 >= e_lo && r1 <= e_hi;
            let in_m = r1 >= m_lo && r1 <= m_hi;
            if r1 < e_lo {
                rep.fail(format!("{ctx}: redelivered before the shortened deadline: {desc}"));
            } else if !in_e && !in_m {
                rep.fail(format!("{ctx}: redelivery matches neither the first deadline (2 s after the first call) nor the second (3 s after the second call): {desc}"));
            } else if in_e && !via_stream && t1r + Duration::from_millis(3) < t0s + Duration::from_secs(2) {
                rep.fail(format!("{ctx}: the second ModifyAckDeadline returned before the first deadline, yet the message expired at the first deadline: {desc}"));
            }
            if in_e && !in_m {
                rep.note("expired at first deadline");
            } else if in_m && !in_e {
                rep.note("extended by second modack");
            } else {
                rep.note("ambiguous window");
            }
            if g.2 == x.ack_id {
                rep.fail(format!("{ctx}: redelivery reuses the ack id"));
            }
        }
    }
    if xs.len() > 1 {
        rep.fail(format!("{ctx}: the message was redelivered {} times although each redelivery is leased for 10 s: {desc}", xs.len()));
    }
    cleanup(rep, &mut c, &t, &[&s]).await;
}

#[tokio::test(flavor = "multi_thread", worker_threads = 8)]
async fn t09_modack_at_expiry_instant() {
    let host = Host::start(8).await;
    let rep = Report::new("t09");
    lanes!(host, rep, 24, scale(4), t09_round);
    host.dispose().await;
    rep.finish();
}

// ---------------------------------------------------------------------------------------
// T10 (C14/C10/C01): the push loop works from a snapshot of (name, push config) and then
// looks the subscription up BY NAME. Subscriptions are deleted and re-created under the same
// name (new endpoint path, or no push config at all) while many push subscriptions are
// registered. Every POST must go to the endpoint of the incarnation that holds the message,
// and messages of pull-only incarnations must never be POSTed.
// ---------------------------------------------------------------------------------------

#[tokio::test(flavor = "multi_thread", worker_threads = 8)]
async fn t10_push_config_of_recreated_subscription() {
    t10_body("t10").await;
}

/// The same on a single-threaded runtime (server, clients and endpoint interleave only at
/// await points): shows whether the behaviour needs real parallelism.
#[tokio::test(flavor = "current_thread")]
async fn t10b_same_on_current_thread_runtime() {
    t10_body("t10b").await;
}

async fn t10_body(test_name: &'static str) {
    let host = Host::start(8).await;
    let rep = Report::new(test_name);
    let ep = PushEp::start(Arc::new(|_h: &Hit| Act::Reply(200, 0))).await;
    let idle: usize = std::env::var("MT_T10_IDLE").ok().and_then(|v| v.parse().ok()).unwrap_or(4000);
    let churners: usize = std::env::var("MT_T10_CHURNERS").ok().and_then(|v| v.parse().ok()).unwrap_or(10);
    let secs: u64 = std::env::var("MT_T10_SECS").ok().and_then(|v| v.parse().ok()).unwrap_or(15);
    let life_ms: u64 = std::env::var("MT_T10_LIFE_MS").ok().and_then(|v| v.parse().ok()).unwrap_or(6);
    let mut c = host.cl();
    let idle_t = tn("t10", "idle");
    assert!(setup(&rep, &mut c, &idle_t, &[]).await);
    let idle_url = format!("{}/t10/idle", ep.url);
    {
        let mut hs = vec![];
        for w in 0..8 {
            let mut c = host.cl();
            let (idle_t, idle_url, rep) = (idle_t.clone(), idle_url.clone(), rep.clone());
            hs.push(tokio::spawn(async move {
                for i in (w..idle).step_by(8) {
                    let s = sn("t10", &format!("idle{i}"));
                    if !matches!(tmo(&rep, "create idle push sub", create_sub_cfg(&mut c, &s, &idle_t, 10, Some(&idle_url))).await, Some(Ok(_))) {
                        rep.fail(format!("t10: creating idle subscription {i}"));
                        return;
                    }
                }
            }));
        }
        for h in hs {
            let _ = h.await;
        }
    }
    let end = Instant::now() + Duration::from_secs(secs);
    let gens = Arc::new(AtomicUsize::new(0));
    let mut tasks = vec![];
    for i in 0..churners {
        let mut c = host.cl();
        let (rep, url, gens) = (rep.clone(), ep.url.clone(), gens.clone());
        tasks.push(tokio::spawn(async move {
            let t = tn("t10", &format!("c{i}"));
            let s = sn("t10", &format!("c{i}"));
            if !setup(&rep, &mut c, &t, &[]).await {
                return;
            }
            let mut g = 0usize;
            while Instant::now() < end && !rep.too_many() {
                g += 1;
                let push = g % 3 != 0;
                let kind = if push { "push" } else { "pull" };
                let url = format!("{url}/t10/c{i}/g{g}");
                let r = if push {
                    tmo(&rep, "CreateSubscription", create_sub_cfg(&mut c, &s, &t, 10, Some(&url))).await
                } else {
                    tmo(&rep, "CreateSubscription", c.create_sub(&s, &t)).await
                };
                match r {
                    Some(Ok(sub)) => {
                        let reported = sub.push_config.map(|p| p.push_endpoint);
                        if reported != push.then(|| url.clone()) {
                            rep.fail(format!("t10: generation {g} of {s} created with {kind} but reports push endpoint {reported:?}"));
                        }
                    }
                    other => {
                        rep.fail(format!("t10: create generation {g} of {s} after the previous delete returned: {other:?}"));
                        return;
                    }
                }
                if !matches!(tmo(&rep, "Publish", c.publish(&t, vec![format!("c{i}:g{g}:{kind}")])).await, Some(Ok(_))) {
                    rep.fail(format!("t10: publish failed"));
                    return;
                }
                match rnd(4) {
                    0 => {}
                    1 => spin_delay(rnd(1500)).await,
                    _ => tokio::time::sleep(Duration::from_millis(1 + rnd(life_ms))).await,
                }
                if !matches!(tmo(&rep, "DeleteSubscription", c.delete_sub(&s)).await, Some(Ok(()))) {
                    rep.fail(format!("t10: delete generation {g} of {s} failed"));
                    return;
                }
                gens.fetch_add(1, Ordering::Relaxed);
            }
        }));
    }
    for h in tasks {
        let _ = h.await;
    }
    tokio::time::sleep(Duration::from_millis(1500)).await;
    let hits = ep.hits.lock().unwrap().clone();
    let mut good = 0;
    let mut wrong = 0;
    for h in &hits {
        if h.path == "/t10/idle" {
            rep.fail(format!("t10: POST to the idle endpoint: sub {} data {:?}", h.sub, String::from_utf8_lossy(&h.data)));
            continue;
        }
        let data = String::from_utf8_lossy(&h.data).to_string();
        // path /t10/c{i}/g{g}; data c{i}:g{g}:{kind}
        let parts: Vec<&str> = h.path.trim_start_matches("/t10/").split('/').collect();
        let expect = format!("{}:{}:push", parts[0], parts.get(1).unwrap_or(&""));
        if data == expect {
            good += 1;
        } else {
            wrong += 1;
            if wrong <= 5 {
                rep.fail(format!(
                    "t10: message {data:?} (published to a later incarnation of {}) was POSTed to {}, the endpoint of an earlier, deleted incarnation of that name",
                    h.sub, h.path
                ));
            }
        }
    }
    rep.note(&format!("generations x{}", gens.load(Ordering::Relaxed) / 100 * 100));
    eprintln!("t10: {} generations, {} POSTs to the right endpoint, {} to a stale endpoint", gens.load(Ordering::Relaxed), good, wrong);
    rep.rounds.store(gens.load(Ordering::Relaxed), Ordering::Relaxed);
    ep.dispose();
    host.dispose().await;
    rep.finish();
}

// ---------------------------------------------------------------------------------------
// T11 (C10/C11/C01): CreateSubscription racing with DeleteSubscription of the same name.
// The creation stores the subscription in the manager and then attaches it to the topic;
// a deletion that finds it in between must not leave a dead subscription attached to the
// topic (which would then appear in ListTopicSubscriptions and fail every Publish).
// ---------------------------------------------------------------------------------------

async fn t11_lane(host: Arc<Host>, rep: Arc<Report>, lane: usize, rounds: usize) {
    let mut c = host.cl();
    let mut epoch = 0;
    let mut t = tn("t11", &format!("t{lane}-{epoch}"));
    if !setup(&rep, &mut c, &t, &[]).await {
        return;
    }
    for round in 0..rounds {
        if rep.too_many() {
            break;
        }
        let s = sn("t11", &format!("s{lane}-{round}"));
        let created = Arc::new(AtomicBool::new(false));
        let n_del = 1 + round % 3;
        let barrier = Arc::new(Barrier::new(n_del + 2));
        let creator = {
            let mut c = host.cl();
            let (s, t, barrier, created) = (s.clone(), t.clone(), barrier.clone(), created.clone());
            tokio::spawn(async move {
                barrier.wait().await;
                let r = c.create_sub(&s, &t).await;
                created.store(true, Ordering::SeqCst);
                r.map(|_| ())
            })
        };
        let publisher = {
            let mut c = host.cl();
            let (t, barrier) = (t.clone(), barrier.clone());
            tokio::spawn(async move {
                barrier.wait().await;
                c.publish(&t, vec!["p".into()]).await.map(|_| ())
            })
        };
        let mut deleters = vec![];
        for _ in 0..n_del {
            let mut c = host.cl();
            let (s, barrier, created) = (s.clone(), barrier.clone(), created.clone());
            deleters.push(tokio::spawn(async move {
                barrier.wait().await;
                for _ in 0..2000 {
                    let done = created.load(Ordering::SeqCst);
                    match c.delete_sub(&s).await {
                        Ok(()) => return true,
                        Err(_) if done => return false,
                        Err(_) => {}
                    }
                }
                false
            }));
        }
        let cr = join_within(&rep, HANG, "CreateSubscription", creator).await;
        let pr = join_within(&rep, HANG, "Publish", publisher).await;
        let mut deleted = 0;
        for h in deleters {
            if join_within(&rep, HANG, "deleter", h).await == Some(true) {
                deleted += 1;
            }
        }
        let exists = match tmo(&rep, "GetSubscription", c.get_sub(&s)).await {
            Some(Ok(_)) => true,
            Some(Err(e)) if e.code() == Code::NotFound => false,
            other => {
                rep.fail(format!("t11 {lane}/{round}: Get: {other:?}"));
                true
            }
        };
        let attached = match tmo(&rep, "ListTopicSubscriptions", c.list_topic_subs(&t)).await {
            Some(Ok(l)) => l,
            other => {
                rep.fail(format!("t11 {lane}/{round}: ListTopicSubscriptions: {other:?}"));
                vec![]
            }
        };
        let probe = tmo(&rep, "probe Publish", c.publish(&t, vec!["probe".into()])).await;
        let mut bad = false;
        if attached.contains(&s) != exists || attached.len() > 1 {
            rep.fail(format!(
                "t11 {lane}/{round}: after CreateSubscription ({:?}) || {n_del} deleters ({deleted} succeeded): GetSubscription exists={exists} but ListTopicSubscriptions = {attached:?}",
                cr.as_ref().map(|r| r.as_ref().map_err(|e| e.code()))
            ));
            bad = true;
        }
        if !matches!(probe, Some(Ok(_))) {
            rep.fail(format!(
                "t11 {lane}/{round}: Publish to the live topic fails after the race: {probe:?} (create {:?}, racing publish {:?}, exists={exists}, attached={attached:?})",
                cr.as_ref().map(|r| r.as_ref().map_err(|e| e.code())),
                pr.as_ref().map(|r| r.as_ref().map_err(|e| e.code()))
            ));
            bad = true;
        }
        if deleted > 1 {
            rep.fail(format!("t11 {lane}/{round}: {deleted} DeleteSubscription calls succeeded for one creation"));
        }
        if exists {
            let _ = tmo(&rep, "cleanup", c.delete_sub(&s)).await;
        }
        if bad {
            // Diagnose how lasting the damage is.
            tokio::time::sleep(Duration::from_millis(300)).await;
            let again = tmo(&rep, "Publish", c.publish(&t, vec!["probe2".into()])).await.map(|r| r.map(|_| ()).map_err(|e| e.code()));
            let recreate = tmo(&rep, "CreateSubscription", c.create_sub(&s, &t)).await.map(|r| r.map(|_| ()).map_err(|e| e.code()));
            let again2 = tmo(&rep, "Publish", c.publish(&t, vec!["probe3".into()])).await.map(|r| r.map(|_| ()).map_err(|e| e.code()));
            let pulled = tmo(&rep, "Pull(ri)", c.pull(&s, 10, true)).await.map(|r| r.map(|m| m.len()).map_err(|e| e.code()));
            let other = sn("t11", &format!("other{lane}-{round}"));
            let other_create = tmo(&rep, "CreateSubscription", c.create_sub(&other, &t)).await.map(|r| r.map(|_| ()).map_err(|e| e.code()));
            let again3 = tmo(&rep, "Publish", c.publish(&t, vec!["probe4".into()])).await.map(|r| r.map(|_| ()).map_err(|e| e.code()));
            let other_pulled = tmo(&rep, "Pull(ri)", c.pull(&other, 10, true)).await.map(|r| r.map(|m| m.len()).map_err(|e| e.code()));
            let attached2 = tmo(&rep, "ListTopicSubscriptions", c.list_topic_subs(&t)).await.map(|r| r.map_err(|e| e.code()));
            rep.fail(format!(
                "t11 {lane}/{round} DIAGNOSIS 300 ms later: Publish -> {again:?}; CreateSubscription of the same name again -> {recreate:?}; Publish -> {again2:?}; Pull on the re-created subscription -> {pulled:?} messages; CreateSubscription {other} -> {other_create:?}; Publish -> {again3:?}; Pull on it -> {other_pulled:?}; ListTopicSubscriptions -> {attached2:?}"
            ));
            let _ = tmo(&rep, "cleanup", c.delete_sub(&s)).await;
            let _ = tmo(&rep, "cleanup", c.delete_sub(&other)).await;
            // The topic may be wedged; continue on a fresh one.
            epoch += 1;
            t = tn("t11", &format!("t{lane}-{epoch}"));
            if !setup(&rep, &mut c, &t, &[]).await {
                return;
            }
        }
        rep.round_done();
    }
}

#[tokio::test(flavor = "multi_thread", worker_threads = 8)]
async fn t11_create_vs_delete_same_subscription() {
    let host = Host::start(8).await;
    let rep = Report::new("t11");
    // The window is a few instructions wide: it takes a pre-empted worker thread to open
    // it, so compete for the CPUs with busy threads.
    let burn: usize = std::env::var("MT_BURN").ok().and_then(|v| v.parse().ok()).unwrap_or(8);
    let stop_burn = Arc::new(AtomicBool::new(false));
    let burners: Vec<_> = (0..burn)
        .map(|_| {
            let stop = stop_burn.clone();
            std::thread::spawn(move || {
                let mut x = 0u64;
                while !stop.load(Ordering::Relaxed) {
                    for i in 0..10_000u64 {
                        x = x.wrapping_mul(6364136223846793005).wrapping_add(i);
                    }
                    std::hint::black_box(x);
                }
            })
        })
        .collect();
    let mut hs = vec![];
    for lane in 0..12 {
        hs.push(tokio::spawn(t11_lane(host.clone(), rep.clone(), lane, scale(1500))));
    }
    for h in hs {
        let _ = h.await;
    }
    stop_burn.store(true, Ordering::Relaxed);
    for b in burners {
        let _ = b.join();
    }
    host.dispose().await;
    rep.finish();
}

// ---------------------------------------------------------------------------------------
// T12 (C12/C07): StreamingPulls that keep sending control messages (acks, extensions) while
// the subscription is deleted. Every stream must terminate promptly; the terminal status is
// recorded (NOT_FOUND expected; another error status for a stream whose control message
// raced with the deletion is noted, a hang or an OK end is a failure).
// ---------------------------------------------------------------------------------------

async fn t12_round(host: &Arc<Host>, rep: &Arc<Report>, lane: usize, round: usize) {
    let project = format!("t12-{lane}-{round}");
    let t = tn(&project, "t");
    let s = sn(&project, "s");
    let ctx = format!("t12 {lane}/{round}");
    let mut c = host.cl();
    if !setup(rep, &mut c, &t, &[&s]).await {
        return;
    }
    let k = 1 + round % 4;
    let _ = tmo(rep, "Publish", c.publish(&t, (0..k * 2).map(|i| format!("m{i}")).collect())).await;
    let stop = Arc::new(AtomicBool::new(false));
    let mut tasks = vec![];
    for i in 0..k {
        let mut c = host.cl();
        let Some(mut os) = open_forwarded(rep, &mut c, &s, 2).await else { return };
        let (stop, rep, ctx) = (stop.clone(), rep.clone(), ctx.clone());
        tasks.push(tokio::spawn(async move {
            let mut held: Vec<String> = vec![];
            let chatter = i % 2 == 0;
            loop {
                let ev = if chatter {
                    match tokio::time::timeout(Duration::from_micros(100 + rnd(300)), os.rx.recv()).await {
                        Ok(ev) => ev,
                        Err(_) => {
                            // Keep the control channel busy.
                            let mut req = ctl_mod(held.clone(), 20);
                            if rnd(2) == 0 {
                                req.ack_ids = vec![format!("{}", 5_000_000 + rnd(1000))];
                            }
                            if os.tx.send(req).await.is_err() && stop.load(Ordering::Relaxed) {
                                // The request side may be closed once the response ended.
                            }
                            continue;
                        }
                    }
                } else {
                    os.rx.recv().await
                };
                match ev {
                    Some(Ok(ms)) => held.extend(ms.into_iter().map(|m| m.ack_id)),
                    Some(Err(e)) => {
                        os.fwd.abort();
                        return Some(e);
                    }
                    None => {
                        rep.fail(format!("{ctx}: forwarder ended without a status"));
                        return None;
                    }
                }
            }
        }));
    }
    pre_delay(round).await;
    tokio::time::sleep(Duration::from_millis(rnd(5))).await;
    let del = tmo(rep, "DeleteSubscription", c.delete_sub(&s)).await;
    let t_del = Instant::now();
    if !matches!(del, Some(Ok(()))) {
        rep.fail(format!("{ctx}: DeleteSubscription: {del:?}"));
    }
    stop.store(true, Ordering::Relaxed);
    for (i, h) in tasks.into_iter().enumerate() {
        match join_within(rep, WAKE, &format!("{ctx}: StreamingPull {i} of {k} to terminate after DeleteSubscription returned"), h).await {
            Some(Some(e)) => {
                match e.code() {
                    Code::NotFound => rep.note("stream ended NOT_FOUND"),
                    Code::Ok => rep.fail(format!("{ctx}: stream {i} ended without an error status after the subscription was deleted")),
                    other => rep.note(&format!("stream ended {other:?} ({})", if i % 2 == 0 { "was sending control messages" } else { "idle" })),
                }
                if t_del.elapsed() > WAKE {
                    rep.fail(format!("{ctx}: slow termination"));
                }
            }
            _ => {}
        }
    }
    cleanup(rep, &mut c, &t, &[]).await;
}

#[tokio::test(flavor = "multi_thread", worker_threads = 8)]
async fn t12_stream_control_during_delete() {
    let host = Host::start(6).await;
    let rep = Report::new("t12");
    lanes!(host, rep, 4, scale(150), t12_round);
    host.dispose().await;
    rep.finish();
}
