//! Demonstration for the C12 defect "request pushed into a mailbox whose receiver was just dropped".
//!
//! Several StreamingPulls wait on a subscription; the subscription is deleted. On the
//! multi-threaded runtime a stream that is woken by the deletion may be between reserving
//! its mailbox slot and filling it while the subscription actor drops its receiver: its
//! request is then never answered and the stream stays open for ever.
//! The race is narrow: the test repeats the scenario many times.
use deltio::pubsub_proto::DeleteSubscriptionRequest;
use deltio::subscriptions::SubscriptionName;
use deltio::topics::TopicName;
use futures::StreamExt;
use std::time::Duration;
use test_helpers::*;

pub mod test_helpers;

#[tokio::test(flavor = "multi_thread", worker_threads = 8)]
async fn streams_end_when_the_subscription_is_deleted() {
    let mut server = TestHost::start().await.unwrap();
    for attempt in 0..300 {
        let topic_name = TopicName::new("test", &format!("topic-{attempt}"));
        let subscription_name = SubscriptionName::new("test", &format!("subscription-{attempt}"));
        server.create_topic_with_name(&topic_name).await;
        server
            .create_subscription_with_name(&topic_name, &subscription_name)
            .await;
        let mut streams = vec![];
        for _ in 0..6 {
            streams.push(server.streaming_pull(&subscription_name).await);
        }
        tokio::time::sleep(Duration::from_millis(5)).await;
        server
            .subscriber
            .delete_subscription(DeleteSubscriptionRequest {
                subscription: subscription_name.to_string(),
            })
            .await
            .unwrap();
        for (i, (_requests, inbound)) in streams.iter_mut().enumerate() {
            let end = tokio::time::timeout(Duration::from_secs(2), inbound.next()).await;
            assert!(
                end.is_ok(),
                "attempt {attempt}: stream {i} is still open 2 s after DeleteSubscription returned OK"
            );
        }
    }
    server.dispose().await;
}
