//! Targeted free-running multi-threaded tests for the two-step windows found by the audit of
//! the server code at 9ff7822 (helpers copied from tests/mt_stress2.rs).
#![allow(deprecated, dead_code, unused_imports, clippy::all)]


use deltio::pubsub_proto::publisher_client::PublisherClient;
use deltio::pubsub_proto::subscriber_client::SubscriberClient;
use deltio::pubsub_proto::{
    AcknowledgeRequest, DeleteSubscriptionRequest, DeleteTopicRequest, GetSubscriptionRequest,
    GetTopicRequest, ListSubscriptionsRequest, ListTopicSubscriptionsRequest, ListTopicsRequest,
    ModifyAckDeadlineRequest, PublishRequest, PubsubMessage, PullRequest, PushConfig,
    ReceivedMessage, StreamingPullRequest, StreamingPullResponse, Subscription, Topic,
};
use deltio::Deltio;
use futures::FutureExt;
use hyper_util::rt::TokioIo;
use rand::Rng;
use std::collections::{BTreeMap, HashMap, HashSet};
use std::future::Future;
use std::sync::atomic::{AtomicBool, AtomicUsize, Ordering};
use std::sync::{Arc, Mutex};
use std::time::{Duration, Instant};
use tokio::net::{UnixListener, UnixStream};
use tokio::sync::{mpsc, Barrier};
use tokio::task::JoinHandle;
use tokio_stream::wrappers::UnixListenerStream;
use tonic::transport::{Channel, Endpoint};
use tonic::{Code, Status, Streaming};
use tower::service_fn;
use uuid::Uuid;

/// Bound for calls that must simply terminate.
const HANG: Duration = Duration::from_secs(10);
/// Bound for "a waiting consumer is woken promptly".
const WAKE: Duration = Duration::from_secs(5);

fn rnd(n: u64) -> u64 {
    if n == 0 {
        0
    } else {
        rand::thread_rng().gen_range(0..n)
    }
}

fn scale(rounds: usize) -> usize {
    let pct: usize = std::env::var("MT_SCALE")
        .ok()
        .and_then(|v| v.parse().ok())
        .unwrap_or(100);
    (rounds * pct / 100).max(1)
}

fn tn(project: &str, id: &str) -> String {
    format!("projects/{project}/topics/{id}")
}
fn sn(project: &str, id: &str) -> String {
    format!("projects/{project}/subscriptions/{id}")
}

// ---------------------------------------------------------------------------------------
// Report
// ---------------------------------------------------------------------------------------

struct Report {
    name: &'static str,
    fails: Mutex<Vec<String>>,
    notes: Mutex<BTreeMap<String, u64>>,
    rounds: AtomicUsize,
}

impl Report {
    fn new(name: &'static str) -> Arc<Self> {
        Arc::new(Self {
            name,
            fails: Mutex::new(vec![]),
            notes: Mutex::new(BTreeMap::new()),
            rounds: AtomicUsize::new(0),
        })
    }
    fn fail(&self, msg: String) {
        eprintln!("FAIL[{}]: {}", self.name, msg);
        self.fails.lock().unwrap().push(msg);
    }
    fn note(&self, key: &str) {
        *self.notes.lock().unwrap().entry(key.to_string()).or_insert(0) += 1;
    }
    fn round_done(&self) {
        self.rounds.fetch_add(1, Ordering::Relaxed);
    }
    fn too_many(&self) -> bool {
        self.fails.lock().unwrap().len() >= 10
    }
    fn finish(&self) {
        let fails = self.fails.lock().unwrap();
        let notes = self.notes.lock().unwrap();
        eprintln!(
            "REPORT[{}]: rounds={} failures={} notes={:?}",
            self.name,
            self.rounds.load(Ordering::Relaxed),
            fails.len(),
            *notes
        );
        assert!(
            fails.is_empty(),
            "{}: {} failure(s) in {} rounds; first: {}",
            self.name,
            fails.len(),
            self.rounds.load(Ordering::Relaxed),
            fails[0]
        );
    }
}

/// Awaits `f`, reporting a hang if it does not finish within `HANG`.
async fn tmo<T>(rep: &Report, what: &str, f: impl Future<Output = T>) -> Option<T> {
    match tokio::time::timeout(HANG, f).await {
        Ok(v) => Some(v),
        Err(_) => {
            rep.fail(format!("HANG (> {:?}): {}", HANG, what));
            None
        }
    }
}

/// Busy-yielding delay with microsecond precision (tokio timers have 1 ms granularity).
async fn spin_delay(us: u64) {
    let deadline = Instant::now() + Duration::from_micros(us);
    while Instant::now() < deadline {
        tokio::task::yield_now().await;
    }
}

/// Runs `f` but abandons (drops) it after `us` microseconds.
async fn abandon_after<T>(us: u64, f: impl Future<Output = T>) -> Option<T> {
    tokio::select! {
        biased;
        v = f => Some(v),
        _ = spin_delay(us) => None,
    }
}

/// A varying short delay so that the next step races differently with what was started.
async fn pre_delay(round: usize) {
    match round % 5 {
        0 => {}
        1 => {
            for _ in 0..3 {
                tokio::task::yield_now().await
            }
        }
        2 => spin_delay(100 + rnd(400)).await,
        3 => tokio::time::sleep(Duration::from_millis(2)).await,
        _ => spin_delay(rnd(1500)).await,
    }
}

// ---------------------------------------------------------------------------------------
// Host: a real server on a unix socket plus a pool of client connections.
// ---------------------------------------------------------------------------------------

struct Host {
    sock_file: String,
    shutdown: Mutex<Option<tokio::sync::oneshot::Sender<()>>>,
    join: Mutex<Option<JoinHandle<()>>>,
    channels: Vec<Channel>,
    /// A connection that is never used for abandoned requests (a flood of client resets
    /// makes the h2 server close the connection with GOAWAY "too_many_resets").
    control: Channel,
    next: AtomicUsize,
}

impl Host {
    async fn start(n_channels: usize) -> Arc<Host> {
        let sock_file = {
            let dir = std::env::temp_dir().into_os_string().into_string().unwrap();
            format!("{}/{}.sock", dir, Uuid::new_v4())
        };
        let listener = UnixListener::bind(&sock_file).unwrap();
        let uds_stream = UnixListenerStream::new(listener);
        let (shutdown_send, shutdown_recv) = tokio::sync::oneshot::channel::<()>();
        let app = Deltio::new();
        let server_builder = app.server_builder();
        let shutdown_fut = async { shutdown_recv.await.unwrap_or(()) }.shared();
        let server_fut = {
            let shutdown_fut = shutdown_fut.clone();
            async move {
                server_builder
                    .serve_with_incoming_shutdown(uds_stream, shutdown_fut)
                    .await
                    .unwrap();
            }
        };
        let push_loop = app.push_loop(Duration::from_secs(1));
        let push_loop_fut = async move {
            tokio::select! {
                _ = push_loop.run() => {},
                _ = shutdown_fut => {},
            }
        };
        let join = tokio::spawn(async move {
            tokio::join!(server_fut, push_loop_fut);
        });

        let mut channels = vec![];
        for _ in 0..n_channels + 1 {
            let channel = Endpoint::try_from("http://doesnt.matter")
                .unwrap()
                .connect_with_connector(service_fn({
                    let sock_file = Arc::new(sock_file.clone());
                    move |_| {
                        let sock_file = Arc::clone(&sock_file);
                        async move {
                            Ok::<_, std::io::Error>(TokioIo::new(
                                UnixStream::connect(sock_file.as_ref()).await?,
                            ))
                        }
                    }
                }))
                .await
                .unwrap();
            channels.push(channel);
        }
        let control = channels.pop().unwrap();
        Arc::new(Host {
            control,
            sock_file,
            shutdown: Mutex::new(Some(shutdown_send)),
            join: Mutex::new(Some(join)),
            channels,
            next: AtomicUsize::new(0),
        })
    }

    /// A client pair on the next connection of the pool.
    fn cl(&self) -> Cl {
        let i = self.next.fetch_add(1, Ordering::Relaxed) % self.channels.len();
        let ch = self.channels[i].clone();
        Cl {
            p: PublisherClient::new(ch.clone()),
            s: SubscriberClient::new(ch),
        }
    }

    /// A client pair on the control connection.
    fn ctl(&self) -> Cl {
        Cl {
            p: PublisherClient::new(self.control.clone()),
            s: SubscriberClient::new(self.control.clone()),
        }
    }

    async fn dispose(&self) {
        if let Some(s) = self.shutdown.lock().unwrap().take() {
            let _ = s.send(());
        }
        let join = self.join.lock().unwrap().take();
        if let Some(join) = join {
            let _ = tokio::time::timeout(Duration::from_secs(3), join).await;
        }
        let _ = std::fs::remove_file(&self.sock_file);
    }
}

type StreamPair = (mpsc::Sender<StreamingPullRequest>, Streaming<StreamingPullResponse>);

#[derive(Clone)]
struct Cl {
    p: PublisherClient<Channel>,
    s: SubscriberClient<Channel>,
}

impl Cl {
    async fn create_topic(&mut self, t: &str) -> Result<(), Status> {
        self.p
            .create_topic(Topic {
                name: t.to_string(),
                ..Default::default()
            })
            .await
            .map(|_| ())
    }
    async fn delete_topic(&mut self, t: &str) -> Result<(), Status> {
        self.p
            .delete_topic(DeleteTopicRequest {
                topic: t.to_string(),
            })
            .await
            .map(|_| ())
    }
    async fn get_topic(&mut self, t: &str) -> Result<(), Status> {
        self.p
            .get_topic(GetTopicRequest {
                topic: t.to_string(),
            })
            .await
            .map(|_| ())
    }
    async fn create_sub(&mut self, s: &str, t: &str) -> Result<Subscription, Status> {
        self.s
            .create_subscription(Subscription {
                name: s.to_string(),
                topic: t.to_string(),
                ..Default::default()
            })
            .await
            .map(|r| r.into_inner())
    }
    async fn create_push_sub(&mut self, s: &str, t: &str, url: &str) -> Result<Subscription, Status> {
        self.s
            .create_subscription(Subscription {
                name: s.to_string(),
                topic: t.to_string(),
                push_config: Some(PushConfig {
                    attributes: Default::default(),
                    authentication_method: None,
                    push_endpoint: url.to_string(),
                }),
                ..Default::default()
            })
            .await
            .map(|r| r.into_inner())
    }
    async fn delete_sub(&mut self, s: &str) -> Result<(), Status> {
        self.s
            .delete_subscription(DeleteSubscriptionRequest {
                subscription: s.to_string(),
            })
            .await
            .map(|_| ())
    }
    async fn get_sub(&mut self, s: &str) -> Result<Subscription, Status> {
        self.s
            .get_subscription(GetSubscriptionRequest {
                subscription: s.to_string(),
            })
            .await
            .map(|r| r.into_inner())
    }
    async fn publish(&mut self, t: &str, datas: Vec<String>) -> Result<Vec<String>, Status> {
        self.p
            .publish(PublishRequest {
                topic: t.to_string(),
                messages: datas
                    .into_iter()
                    .map(|d| PubsubMessage {
                        data: d.into_bytes(),
                        ..Default::default()
                    })
                    .collect(),
            })
            .await
            .map(|r| r.into_inner().message_ids)
    }
    async fn pull(&mut self, s: &str, max: i32, ri: bool) -> Result<Vec<ReceivedMessage>, Status> {
        self.s
            .pull(PullRequest {
                subscription: s.to_string(),
                return_immediately: ri,
                max_messages: max,
            })
            .await
            .map(|r| r.into_inner().received_messages)
    }
    async fn ack(&mut self, s: &str, ack_ids: Vec<String>) -> Result<(), Status> {
        self.s
            .acknowledge(AcknowledgeRequest {
                subscription: s.to_string(),
                ack_ids,
            })
            .await
            .map(|_| ())
    }
    async fn modack(&mut self, s: &str, ack_ids: Vec<String>, secs: i32) -> Result<(), Status> {
        self.s
            .modify_ack_deadline(ModifyAckDeadlineRequest {
                subscription: s.to_string(),
                ack_ids,
                ack_deadline_seconds: secs,
            })
            .await
            .map(|_| ())
    }
    async fn list_topics(&mut self, project: &str) -> Result<Vec<String>, Status> {
        self.p
            .list_topics(ListTopicsRequest {
                project: format!("projects/{project}"),
                page_size: 1000,
                page_token: String::new(),
            })
            .await
            .map(|r| r.into_inner().topics.into_iter().map(|t| t.name).collect())
    }
    async fn list_subs(&mut self, project: &str) -> Result<Vec<Subscription>, Status> {
        self.s
            .list_subscriptions(ListSubscriptionsRequest {
                project: format!("projects/{project}"),
                page_size: 1000,
                page_token: String::new(),
            })
            .await
            .map(|r| r.into_inner().subscriptions)
    }
    async fn list_topic_subs(&mut self, t: &str) -> Result<Vec<String>, Status> {
        self.p
            .list_topic_subscriptions(ListTopicSubscriptionsRequest {
                topic: t.to_string(),
                page_size: 1000,
                page_token: String::new(),
            })
            .await
            .map(|r| r.into_inner().subscriptions)
    }
    async fn open_stream(&mut self, s: &str, max_outstanding: i64) -> Result<StreamPair, Status> {
        let (send_request, mut outgoing) = mpsc::channel::<StreamingPullRequest>(100);
        let subscription = s.to_string();
        let response = self
            .s
            .streaming_pull(async_stream::stream! {
                yield StreamingPullRequest {
                    subscription,
                    client_id: Uuid::new_v4().to_string(),
                    max_outstanding_messages: max_outstanding,
                    max_outstanding_bytes: 100_000_000,
                    ..Default::default()
                };
                while let Some(request) = outgoing.recv().await {
                    yield request;
                }
            })
            .await?;
        Ok((send_request, response.into_inner()))
    }
}

/// Creates a topic and subscriptions on it; reports and returns false on any problem.
async fn setup(rep: &Report, c: &mut Cl, t: &str, subs: &[&str]) -> bool {
    match tmo(rep, "setup CreateTopic", c.create_topic(t)).await {
        Some(Ok(())) => {}
        Some(Err(e)) => {
            rep.fail(format!("setup: CreateTopic {t} failed: {e:?}"));
            return false;
        }
        None => return false,
    }
    for s in subs {
        match tmo(rep, "setup CreateSubscription", c.create_sub(s, t)).await {
            Some(Ok(_)) => {}
            Some(Err(e)) => {
                rep.fail(format!("setup: CreateSubscription {s} failed: {e:?}"));
                return false;
            }
            None => return false,
        }
    }
    true
}

/// Best-effort clean-up (keeps the server's state small); hangs are still reported.
async fn cleanup(rep: &Report, c: &mut Cl, t: &str, subs: &[&str]) {
    for s in subs {
        let _ = tmo(rep, "cleanup DeleteSubscription", c.delete_sub(s)).await;
    }
    let _ = tmo(rep, "cleanup DeleteTopic", c.delete_topic(t)).await;
}

/// Runs `$round(host, rep, lane, round)` for `$rounds` rounds on `$lanes` concurrent lanes.
macro_rules! lanes {
    ($host:expr, $rep:expr, $lanes:expr, $rounds:expr, $round:ident) => {{
        let mut handles = vec![];
        for lane in 0..$lanes {
            let host = Arc::clone(&$host);
            let rep = Arc::clone(&$rep);
            let rounds = $rounds;
            handles.push(tokio::spawn(async move {
                for round in 0..rounds {
                    if rep.too_many() {
                        break;
                    }
                    $round(&host, &rep, lane, round).await;
                    rep.round_done();
                }
            }));
        }
        for h in handles {
            h.await.unwrap();
        }
    }};
}

/// Joins a spawned call with a bound; aborts and reports it if it does not finish.
async fn join_within<T>(
    rep: &Report,
    d: Duration,
    what: &str,
    mut h: JoinHandle<T>,
) -> Option<T> {
    match tokio::time::timeout(d, &mut h).await {
        Ok(Ok(v)) => Some(v),
        Ok(Err(e)) => {
            rep.fail(format!("{what}: task failed: {e:?}"));
            None
        }
        Err(_) => {
            h.abort();
            rep.fail(format!("NOT FINISHED within {d:?}: {what}"));
            None
        }
    }
}


// =======================================================================================
// Window tests. Helpers above are copied from tests/mt_stress2.rs.
// =======================================================================================

/// Runs `n` copies of `f(i)` lined up on a barrier and returns their results.
async fn race<T, F, Fut>(rep: &Report, n: usize, what: &str, f: F) -> Vec<T>
where
    F: Fn(usize) -> Fut,
    Fut: Future<Output = T> + Send + 'static,
    T: Send + 'static,
{
    let barrier = Arc::new(Barrier::new(n));
    let mut hs = vec![];
    for i in 0..n {
        let fut = f(i);
        let barrier = barrier.clone();
        hs.push(tokio::spawn(async move {
            barrier.wait().await;
            fut.await
        }));
    }
    let mut out = vec![];
    for h in hs {
        if let Some(v) = join_within(rep, HANG, what, h).await {
            out.push(v);
        }
    }
    out
}

/// Busy threads competing for the CPUs, so that worker threads get pre-empted now and then.
struct Burn {
    stop: Arc<AtomicBool>,
    hs: Vec<std::thread::JoinHandle<()>>,
}

impl Burn {
    fn start() -> Burn {
        let n: usize = std::env::var("MT_BURN").ok().and_then(|v| v.parse().ok()).unwrap_or(8);
        let stop = Arc::new(AtomicBool::new(false));
        let hs = (0..n)
            .map(|_| {
                let stop = stop.clone();
                std::thread::spawn(move || {
                    let mut x = 0u64;
                    while !stop.load(Ordering::Relaxed) {
                        for i in 0..10_000u64 {
                            x = x.wrapping_mul(6364136223846793005).wrapping_add(i);
                        }
                        std::hint::black_box(x);
                    }
                })
            })
            .collect();
        Burn { stop, hs }
    }
    fn stop(self) {
        self.stop.store(true, Ordering::Relaxed);
        for h in self.hs {
            let _ = h.join();
        }
    }
}

fn data_of(m: &ReceivedMessage) -> String {
    String::from_utf8_lossy(&m.message.as_ref().unwrap().data).to_string()
}

fn code_of<T>(r: &Result<T, Status>) -> String {
    match r {
        Ok(_) => "OK".to_string(),
        Err(e) => format!("{:?}", e.code()),
    }
}

const DELETED_TOPIC: &str = "_deleted_topic_";

// ---------------------------------------------------------------------------------------
// W01 (C10): CreateSubscription looks the topic up (api/subscriber.rs:71) and only later, in
// a task of its own, inserts the subscription (subscription_manager.rs:74). A complete
// DeleteTopic followed by a complete GetSubscription in between gives a history that no
// atomic map can produce: DeleteTopic OK, then GetSubscription(s) NOT_FOUND, yet
// CreateSubscription(s, t) OK (created after its topic was gone).
// Variant B re-creates the topic before the Get; the subscription is then bound to the
// deleted incarnation although the name it was created on is live.
// ---------------------------------------------------------------------------------------

async fn w01_round(host: &Arc<Host>, rep: &Arc<Report>, lane: usize, round: usize) {
    let project = format!("w01-{lane}-{round}");
    let t = tn(&project, "t");
    let s = sn(&project, "s");
    let ctx = format!("w01 {lane}/{round}");
    let mut c = host.cl();
    if !setup(rep, &mut c, &t, &[]).await {
        return;
    }
    let recreate = round % 2 == 1;
    let barrier = Arc::new(Barrier::new(2));
    let h1 = tokio::spawn({
        let (mut c, s, t, barrier) = (host.cl(), s.clone(), t.clone(), barrier.clone());
        async move {
            barrier.wait().await;
            if round % 3 == 0 {
                spin_delay(rnd(150)).await;
            }
            c.create_sub(&s, &t).await
        }
    });
    let h2 = tokio::spawn({
        let (mut c, s, t, barrier) = (host.cl(), s.clone(), t.clone(), barrier.clone());
        async move {
            barrier.wait().await;
            if round % 3 == 1 {
                spin_delay(rnd(150)).await;
            }
            let del = c.delete_topic(&t).await;
            let rec = if recreate { Some(c.create_topic(&t).await) } else { None };
            let get = c.get_sub(&s).await;
            (del, rec, get)
        }
    });
    let Some(create) = join_within(rep, HANG, &format!("{ctx}: CreateSubscription"), h1).await else { return };
    let Some((del, rec, get)) = join_within(rep, HANG, &format!("{ctx}: DeleteTopic/GetSubscription"), h2).await else { return };
    rep.note(&format!("create={} delete={} get={}", code_of(&create), code_of(&del), code_of(&get)));
    if let Ok(sub) = &create {
        if sub.topic == DELETED_TOPIC {
            rep.note("CreateSubscription answered OK with topic _deleted_topic_");
        }
    }
    let get_nf = matches!(&get, Err(e) if e.code() == Code::NotFound);
    let rec_ok = rec.as_ref().map(|r| r.is_ok()).unwrap_or(true);
    if create.is_ok() && del.is_ok() && rec_ok && get_nf {
        // Where did the subscription end up?
        let after = tmo(rep, "GetSubscription", c.get_sub(&s)).await;
        let topic_after = match &after {
            Some(Ok(sub)) => sub.topic.clone(),
            other => format!("{other:?}"),
        };
        if !recreate {
            rep.fail(format!(
                "{ctx}: NOT LINEARIZABLE (C10): DeleteTopic returned OK, a GetSubscription begun after that returned NOT_FOUND, yet the racing CreateSubscription returned OK (response topic {:?}); afterwards the subscription reports topic {topic_after:?}",
                create.as_ref().unwrap().topic
            ));
        } else if topic_after == DELETED_TOPIC {
            rep.fail(format!(
                "{ctx}: NOT LINEARIZABLE (C10, re-created topic): DeleteTopic and CreateTopic returned OK, a GetSubscription begun after that returned NOT_FOUND, yet the racing CreateSubscription returned OK and the subscription is bound to the deleted incarnation (reports {topic_after:?})"
            ));
        } else {
            rep.note("create linearized after the re-creation of the topic");
        }
    }
    // Quiescent checks.
    let after = tmo(rep, "GetSubscription", c.get_sub(&s)).await;
    match (&create, &after) {
        (Ok(_), Some(Ok(sub))) => {
            if del.is_ok() && !recreate && sub.topic != DELETED_TOPIC {
                rep.fail(format!("{ctx}: subscription reports topic {:?} after DeleteTopic returned OK", sub.topic));
            }
            if recreate && rec_ok && sub.topic != DELETED_TOPIC {
                // Bound to the new incarnation: it must be attached to it.
                let ids = tmo(rep, "Publish", c.publish(&t, vec!["x".into()])).await;
                let got = tokio::time::timeout(WAKE, c.pull(&s, 10, false)).await;
                match (ids, got) {
                    (Some(Ok(_)), Ok(Ok(ms))) if ms.len() == 1 => {}
                    (ids, got) => rep.fail(format!("{ctx}: subscription reports live topic {:?} but a publish/pull gave {ids:?} / {got:?}", sub.topic)),
                }
                match tmo(rep, "ListTopicSubscriptions", c.list_topic_subs(&t)).await {
                    Some(Ok(l)) if l == vec![s.clone()] => {}
                    other => rep.fail(format!("{ctx}: ListTopicSubscriptions of the live topic: {other:?}")),
                }
            }
            if recreate && rec_ok && sub.topic == DELETED_TOPIC {
                match tmo(rep, "ListTopicSubscriptions", c.list_topic_subs(&t)).await {
                    Some(Ok(l)) if l.is_empty() => {}
                    other => rep.fail(format!("{ctx}: subscription of the deleted incarnation, but ListTopicSubscriptions of the new one: {other:?}")),
                }
            }
            match tmo(rep, "DeleteSubscription", c.delete_sub(&s)).await {
                Some(Ok(())) => {}
                other => rep.fail(format!("{ctx}: DeleteSubscription of the created subscription: {other:?}")),
            }
        }
        (Ok(_), other) => rep.fail(format!("{ctx}: CreateSubscription returned OK but GetSubscription afterwards: {other:?}")),
        (Err(e), Some(Ok(_))) => {
            // Allowed for a create that raced with something, but here nothing deletes it.
            rep.note(&format!("create failed {:?} but the subscription exists", e.code()));
            let _ = tmo(rep, "DeleteSubscription", c.delete_sub(&s)).await;
        }
        (Err(_), _) => {}
    }
    let _ = tmo(rep, "cleanup DeleteTopic", c.delete_topic(&t)).await;
}

#[tokio::test(flavor = "multi_thread", worker_threads = 8)]
async fn w01_create_subscription_vs_delete_topic() {
    let host = Host::start(8).await;
    let rep = Report::new("w01");
    let burn = Burn::start();
    lanes!(host, rep, 12, scale(600), w01_round);
    burn.stop();
    host.dispose().await;
    rep.finish();
}

// ---------------------------------------------------------------------------------------
// W02 (C01/C10, strict reading): the create task makes the subscription visible in the
// manager (subscription_manager.rs:74) and then asks the topic to attach it (:78). A
// GetSubscription that already sees it, followed by a complete Publish, in between: the
// message is accepted while a subscription that demonstrably existed before the Publish
// began never gets it.
// ---------------------------------------------------------------------------------------

async fn w02_round(host: &Arc<Host>, rep: &Arc<Report>, lane: usize, round: usize) {
    let project = format!("w02-{lane}-{round}");
    let t = tn(&project, "t");
    let s = sn(&project, "s");
    let ctx = format!("w02 {lane}/{round}");
    let mut c = host.cl();
    if !setup(rep, &mut c, &t, &[]).await {
        return;
    }
    let created = Arc::new(AtomicBool::new(false));
    let barrier = Arc::new(Barrier::new(2));
    let h1 = tokio::spawn({
        let (mut c, s, t, barrier, created) = (host.cl(), s.clone(), t.clone(), barrier.clone(), created.clone());
        async move {
            barrier.wait().await;
            let r = c.create_sub(&s, &t).await;
            created.store(true, Ordering::SeqCst);
            r
        }
    });
    let h2 = tokio::spawn({
        let (mut c, s, t, barrier, created) = (host.cl(), s.clone(), t.clone(), barrier.clone(), created.clone());
        async move {
            barrier.wait().await;
            let mut seen_before_return = false;
            for _ in 0..5000 {
                match c.get_sub(&s).await {
                    Ok(_) => {
                        seen_before_return = !created.load(Ordering::SeqCst);
                        break;
                    }
                    Err(_) => {}
                }
            }
            let ids = c.publish(&t, vec!["m".into()]).await;
            let published_before_return = !created.load(Ordering::SeqCst);
            (seen_before_return, published_before_return, ids)
        }
    });
    let Some(create) = join_within(rep, HANG, &format!("{ctx}: CreateSubscription"), h1).await else { return };
    let Some((seen, pub_before, ids)) = join_within(rep, HANG, &format!("{ctx}: Get/Publish"), h2).await else { return };
    if seen {
        rep.note("GetSubscription saw it before CreateSubscription returned");
    }
    if pub_before {
        rep.note("Publish returned before CreateSubscription returned");
    }
    match (&create, &ids) {
        (Ok(_), Ok(ids)) if ids.len() == 1 => {
            match tokio::time::timeout(Duration::from_secs(3), c.pull(&s, 10, false)).await {
                Ok(Ok(ms)) if ms.len() == 1 && data_of(&ms[0]) == "m" => {}
                Ok(other) => rep.fail(format!("{ctx}: pull gave {other:?}")),
                Err(_) => {
                    let probe = tmo(rep, "Pull(ri)", c.pull(&s, 10, true)).await;
                    let listed = tmo(rep, "ListTopicSubscriptions", c.list_topic_subs(&t)).await;
                    rep.fail(format!(
                        "{ctx}: MESSAGE LOST (C01 strict): GetSubscription saw the subscription, then Publish returned {ids:?} (seen before create returned: {seen}, publish returned before create returned: {pub_before}), but the subscription did not receive it within 3 s; probe {probe:?}; attached: {listed:?}"
                    ));
                }
            }
        }
        other => rep.fail(format!("{ctx}: unexpected results {other:?}")),
    }
    cleanup(rep, &mut c, &t, &[&s]).await;
}

#[tokio::test(flavor = "multi_thread", worker_threads = 8)]
async fn w02_visible_before_attached() {
    let host = Host::start(8).await;
    let rep = Report::new("w02");
    let burn = Burn::start();
    lanes!(host, rep, 12, scale(600), w02_round);
    burn.stop();
    host.dispose().await;
    rep.finish();
}

// ---------------------------------------------------------------------------------------
// W03 (C16): a StreamingPull control message carrying acks and deadline modifications is
// applied in two steps (api/subscriber.rs:557 acknowledge, :576 modify), each a round trip
// to the subscription actor. A stream that is abandoned in between leaves the acks applied
// and the modifications not: neither "completed" nor "never received".
// ---------------------------------------------------------------------------------------

async fn w03_round(host: &Arc<Host>, rep: &Arc<Report>, lane: usize, round: usize) {
    let project = format!("w03-{lane}-{round}");
    let t = tn(&project, "t");
    let s = sn(&project, "s");
    let ctx = format!("w03 {lane}/{round}");
    let mut c = host.ctl();
    if !setup(rep, &mut c, &t, &[&s]).await {
        return;
    }
    if !matches!(tmo(rep, "Publish", c.publish(&t, vec!["m1".into(), "m2".into()])).await, Some(Ok(_))) {
        rep.fail(format!("{ctx}: publish failed"));
        return;
    }
    let mut sc = host.cl();
    let (tx, mut stream) = match tmo(rep, "open", sc.open_stream(&s, 10)).await {
        Some(Ok(p)) => p,
        other => {
            rep.fail(format!("{ctx}: open: {:?}", other.map(|r| r.map(|_| ()))));
            return;
        }
    };
    let mut acks: HashMap<String, String> = HashMap::new();
    while acks.len() < 2 {
        match tokio::time::timeout(WAKE, stream.message()).await {
            Ok(Ok(Some(r))) => {
                for m in r.received_messages {
                    acks.insert(data_of(&m), m.ack_id.clone());
                }
            }
            other => {
                rep.fail(format!("{ctx}: stream did not deliver both messages: {other:?}"));
                return;
            }
        }
    }
    let (a1, a2) = (acks["m1"].clone(), acks["m2"].clone());
    // Keep the subscription actor busy so that a round trip to it takes a while.
    let stop = Arc::new(AtomicBool::new(false));
    let spam_n = [0usize, 4, 12][round % 3];
    let mut spam = vec![];
    for _ in 0..spam_n {
        let (mut c, s, stop) = (host.cl(), s.clone(), stop.clone());
        spam.push(tokio::spawn(async move {
            while !stop.load(Ordering::Relaxed) {
                let _ = c.ack(&s, vec![format!("{}", 9_000_000 + rnd(1000))]).await;
            }
        }));
    }
    if spam_n > 0 {
        tokio::time::sleep(Duration::from_millis(2)).await;
    }
    let req = StreamingPullRequest {
        ack_ids: vec![a1.clone()],
        modify_deadline_ack_ids: vec![a2.clone()],
        modify_deadline_seconds: vec![0],
        ..Default::default()
    };
    let _ = tx.send(req).await;
    spin_delay(rnd(if spam_n > 0 { 1500 } else { 400 })).await;
    drop(stream);
    drop(tx);
    stop.store(true, Ordering::Relaxed);
    for h in spam {
        let _ = h.await;
    }
    tokio::time::sleep(Duration::from_millis(200)).await;
    // Was the ack of m1 applied? If not, its delivery a1 is still outstanding and a nack
    // brings m1 back. (The same pull also returns m2 if the nack of the control message
    // was applied and nobody has taken m2 since.)
    let _ = tmo(rep, "ModifyAckDeadline", c.modack(&s, vec![a1.clone()], 0)).await;
    let p1 = match tmo(rep, "Pull(ri)", c.pull(&s, 10, true)).await {
        Some(Ok(ms)) => ms,
        other => {
            rep.fail(format!("{ctx}: pull: {other:?}"));
            return;
        }
    };
    let p1d: Vec<String> = p1.iter().map(data_of).collect();
    let ack_applied = !p1d.iter().any(|d| d == "m1");
    let m2_in_backlog = p1d.iter().any(|d| d == "m2");
    // Is the delivery a2 of m2 still outstanding (the nack was NOT applied)? Then a nack
    // brings m2 back now. If the nack was applied, a2 is stale: m2 was either in the
    // backlog (seen above) or the stream itself pulled it again before it was dropped.
    let _ = tmo(rep, "ModifyAckDeadline", c.modack(&s, vec![a2.clone()], 0)).await;
    let p2 = match tmo(rep, "Pull(ri)", c.pull(&s, 10, true)).await {
        Some(Ok(ms)) => ms,
        other => {
            rep.fail(format!("{ctx}: pull: {other:?}"));
            return;
        }
    };
    let p2d: Vec<String> = p2.iter().map(data_of).collect();
    let a2_still_outstanding = !m2_in_backlog && p2d.iter().any(|d| d == "m2");
    let nack_applied = !a2_still_outstanding;
    rep.note(&format!("ack_applied={ack_applied} nack_applied={nack_applied}"));
    if ack_applied && !nack_applied {
        rep.fail(format!(
            "{ctx}: HALF APPLIED (C16): control message {{ack m1, nack m2}} on an abandoned stream: the ack was applied (a later nack of delivery {a1} brought nothing back: {p1d:?}), the nack was not (delivery {a2} of m2 was still outstanding 200 ms later: a unary nack of it brought m2 back: {p2d:?}); spam={spam_n}"
        ));
    }
    if !ack_applied && nack_applied {
        rep.fail(format!("{ctx}: nack applied but ack not: p1 {p1d:?} p2 {p2d:?}"));
    }
    cleanup(rep, &mut c, &t, &[&s]).await;
}

#[tokio::test(flavor = "multi_thread", worker_threads = 8)]
async fn w03_stream_control_half_applied_on_abandon() {
    let host = Host::start(8).await;
    let rep = Report::new("w03");
    lanes!(host, rep, 6, scale(250), w03_round);
    host.dispose().await;
    rep.finish();
}

// ---------------------------------------------------------------------------------------
// W04 (C02, sequential): ack ids are a per-actor counter starting at 1, so an ack id of a
// deleted subscription is a valid ack id of a later subscription with the same name.
// ---------------------------------------------------------------------------------------

#[tokio::test(flavor = "multi_thread", worker_threads = 8)]
async fn w04_ack_id_of_previous_incarnation() {
    let host = Host::start(2).await;
    let rep = Report::new("w04");
    let mut c = host.cl();
    for round in 0..5 {
        let project = format!("w04-{round}");
        let (t, s) = (tn(&project, "t"), sn(&project, "s"));
        if !setup(&rep, &mut c, &t, &[&s]).await {
            break;
        }
        let _ = tmo(&rep, "Publish", c.publish(&t, vec!["old".into()])).await;
        let old = match tmo(&rep, "Pull", c.pull(&s, 10, false)).await {
            Some(Ok(ms)) if ms.len() == 1 => ms[0].ack_id.clone(),
            other => {
                rep.fail(format!("pull old: {other:?}"));
                break;
            }
        };
        let _ = tmo(&rep, "DeleteSubscription", c.delete_sub(&s)).await;
        let _ = tmo(&rep, "CreateSubscription", c.create_sub(&s, &t)).await;
        let _ = tmo(&rep, "Publish", c.publish(&t, vec!["new".into()])).await;
        let new = match tmo(&rep, "Pull", c.pull(&s, 10, false)).await {
            Some(Ok(ms)) if ms.len() == 1 => ms[0].ack_id.clone(),
            other => {
                rep.fail(format!("pull new: {other:?}"));
                break;
            }
        };
        // A consumer of the old subscription acknowledges what it got from it.
        let r = tmo(&rep, "Acknowledge", c.ack(&s, vec![old.clone()])).await;
        // Is the new delivery still outstanding? A nack brings it back if so.
        let _ = tmo(&rep, "ModifyAckDeadline", c.modack(&s, vec![new.clone()], 0)).await;
        let back = tmo(&rep, "Pull(ri)", c.pull(&s, 10, true)).await;
        match back {
            Some(Ok(ms)) if ms.len() == 1 => rep.note("stale ack id had no effect"),
            other => rep.fail(format!(
                "round {round}: STALE ACK ID EFFECTIVE (C02): ack id {old:?} issued by the deleted subscription acknowledged (-> {r:?}) the delivery {new:?} of the re-created subscription of the same name: after a nack of that delivery the message did not come back ({other:?})"
            )),
        }
        cleanup(&rep, &mut c, &t, &[&s]).await;
        rep.round_done();
    }
    host.dispose().await;
    rep.finish();
}

// ---------------------------------------------------------------------------------------
// W05 (C10-ish): ListTopicSubscriptions looks the topic up (api/publisher.rs:192) and then
// asks its actor (:194). A complete DeleteTopic in between: the actor of the deleted topic
// answers OK with an empty list although the topic had subscriptions for all its life
// (neither "before the deletion" nor "after it", which would be NOT_FOUND).
// W07: ListSubscriptions snapshots the project (subscription_manager.rs:118) and then asks
// every subscription for its info (api/subscriber.rs:168). A DeleteSubscription of any of
// them in between fails the whole listing.
// Both are recorded as notes only.
// ---------------------------------------------------------------------------------------

async fn w05_round(host: &Arc<Host>, rep: &Arc<Report>, lane: usize, round: usize) {
    let project = format!("w05-{lane}-{round}");
    let t = tn(&project, "t");
    let subs: Vec<String> = (0..3).map(|i| sn(&project, &format!("s{i}"))).collect();
    let ctx = format!("w05 {lane}/{round}");
    let mut c = host.cl();
    let refs: Vec<&str> = subs.iter().map(|s| s.as_str()).collect();
    if !setup(rep, &mut c, &t, &refs).await {
        return;
    }
    let barrier = Arc::new(Barrier::new(3));
    let h1 = tokio::spawn({
        let (mut c, t, barrier) = (host.cl(), t.clone(), barrier.clone());
        async move {
            barrier.wait().await;
            spin_delay(rnd(120)).await;
            c.list_topic_subs(&t).await
        }
    });
    let h3 = tokio::spawn({
        let (mut c, project, barrier) = (host.cl(), project.clone(), barrier.clone());
        async move {
            barrier.wait().await;
            spin_delay(rnd(120)).await;
            c.list_subs(&project).await
        }
    });
    let h2 = tokio::spawn({
        let (mut c, t, s0, barrier) = (host.cl(), t.clone(), subs[0].clone(), barrier.clone());
        async move {
            barrier.wait().await;
            spin_delay(rnd(120)).await;
            if round % 2 == 0 {
                c.delete_topic(&t).await
            } else {
                c.delete_sub(&s0).await
            }
        }
    });
    let l = join_within(rep, HANG, &format!("{ctx}: ListTopicSubscriptions"), h1).await;
    let ls = join_within(rep, HANG, &format!("{ctx}: ListSubscriptions"), h3).await;
    let d = join_within(rep, HANG, &format!("{ctx}: delete"), h2).await;
    if !matches!(d, Some(Ok(()))) {
        rep.fail(format!("{ctx}: delete: {d:?}"));
    }
    if round % 2 == 0 {
        match l {
            Some(Ok(l)) if l.len() == 3 => rep.note("DeleteTopic: list full"),
            Some(Ok(l)) => rep.note(&format!("DeleteTopic: ListTopicSubscriptions OK with {} of 3 (answered by the deleted topic)", l.len())),
            Some(Err(e)) => rep.note(&format!("DeleteTopic: list {:?}", e.code())),
            None => {}
        }
        match ls {
            Some(Ok(l)) if l.len() == 3 => {}
            other => rep.note(&format!("DeleteTopic: ListSubscriptions {:?}", other.map(|r| r.map(|l| l.len()).map_err(|e| e.code())))),
        }
    } else {
        match l {
            Some(Ok(l)) if l.len() == 3 || l.len() == 2 => {}
            other => rep.note(&format!("DeleteSubscription: ListTopicSubscriptions {other:?}")),
        }
        match ls {
            Some(Ok(l)) if l.len() == 3 || l.len() == 2 => rep.note("DeleteSubscription: ListSubscriptions OK"),
            Some(Ok(l)) => rep.fail(format!("{ctx}: ListSubscriptions returned {} subscriptions", l.len())),
            Some(Err(e)) => rep.note(&format!("DeleteSubscription of a sibling: whole ListSubscriptions failed {:?}", e.code())),
            None => {}
        }
    }
    cleanup(rep, &mut c, &t, &refs).await;
}

#[tokio::test(flavor = "multi_thread", worker_threads = 8)]
async fn w05_listing_vs_delete() {
    let host = Host::start(8).await;
    let rep = Report::new("w05");
    let burn = Burn::start();
    lanes!(host, rep, 8, scale(400), w05_round);
    burn.stop();
    host.dispose().await;
    rep.finish();
}

// ---------------------------------------------------------------------------------------
// W06 (C06/C16): a blocked Pull that is woken consumes the one wake-up
// (api/subscriber.rs:305) and then sends its pull request to the actor (:283). If the
// mailbox is full, that send waits; a consumer abandoned right there has swallowed the
// wake-up without pulling, and the other waiting consumers sleep on while the message sits
// in the backlog.
// ---------------------------------------------------------------------------------------

async fn w06_round(host: &Arc<Host>, rep: &Arc<Report>, lane: usize, round: usize) {
    let project = format!("w06-{lane}-{round}");
    let t = tn(&project, "t");
    let s = sn(&project, "s");
    let ctx = format!("w06 {lane}/{round}");
    let mut c = host.ctl();
    if !setup(rep, &mut c, &t, &[&s]).await {
        return;
    }
    let n = 4;
    let mut pullers = vec![];
    for _ in 0..n {
        let (mut c, s) = (host.cl(), s.clone());
        pullers.push(tokio::spawn(async move { c.pull(&s, 1, false).await }));
        tokio::time::sleep(Duration::from_millis(3)).await;
    }
    tokio::time::sleep(Duration::from_millis(30)).await;
    // Fill the mailbox of the subscription actor with requests that never notify.
    let stop = Arc::new(AtomicBool::new(false));
    let mut spam = vec![];
    // (Each request keeps the actor busy for a while: thousands of unknown ack ids.)
    let heavy: Vec<String> = (0..20_000u64).map(|i| format!("{}", 9_000_000 + i)).collect();
    for _ in 0..40 {
        let (mut c, s, stop, heavy) = (host.cl(), s.clone(), stop.clone(), heavy.clone());
        spam.push(tokio::spawn(async move {
            while !stop.load(Ordering::Relaxed) {
                let _ = c.ack(&s, heavy.clone()).await;
            }
        }));
    }
    tokio::time::sleep(Duration::from_millis(5)).await;
    let t_pub = Instant::now();
    let publ = tokio::spawn({
        let (mut c, t) = (host.ctl(), t.clone());
        async move { c.publish(&t, vec!["m".into()]).await }
    });
    // Abandon all but one consumer at about the time the woken one is sending its request.
    let keep = rnd(n as u64) as usize;
    let publ = if round % 2 == 0 {
        // Abandon relative to the moment the publish was issued.
        spin_delay(50 + rnd(700)).await;
        for (i, h) in pullers.iter().enumerate() {
            if i != keep {
                h.abort();
            }
        }
        join_within(rep, HANG, "Publish", publ).await
    } else {
        // Abandon relative to the moment the publish returned.
        let r = join_within(rep, HANG, "Publish", publ).await;
        spin_delay(rnd(250)).await;
        for (i, h) in pullers.iter().enumerate() {
            if i != keep {
                h.abort();
            }
        }
        r
    };
    if !matches!(publ, Some(Ok(_))) {
        rep.fail(format!("{ctx}: publish failed: {publ:?}"));
    }
    tokio::time::sleep(Duration::from_millis(100)).await;
    stop.store(true, Ordering::Relaxed);
    for h in spam {
        let _ = h.await;
    }
    let mut kept = pullers.remove(keep);
    match tokio::time::timeout(Duration::from_secs(3), &mut kept).await {
        Ok(Ok(Ok(ms))) if ms.len() == 1 => rep.note("kept consumer got the message"),
        Ok(other) => rep.fail(format!("{ctx}: kept consumer: {other:?}")),
        Err(_) => {
            // Still waiting. Is the message sitting in the backlog, or leased to an
            // abandoned consumer (legitimate: it comes back after the deadline)? A second
            // publish wakes the consumer; it pulls one message: "m" if m was available
            // all the time, "n" if m is leased.
            let waited = t_pub.elapsed();
            let _ = tmo(rep, "Publish", c.publish(&t, vec!["n".into()])).await;
            match tokio::time::timeout(Duration::from_secs(3), &mut kept).await {
                Ok(Ok(Ok(ms))) if ms.len() == 1 && data_of(&ms[0]) == "m" => rep.fail(format!(
                    "{ctx}: LOST WAKE-UP (C06): a blocked Pull kept waiting for {waited:?} while message m was available; only the next publish woke it, and it then received m (so m was in the backlog all along, not leased)"
                )),
                Ok(Ok(Ok(ms))) if ms.len() == 1 && data_of(&ms[0]) == "n" => rep.note("message leased to an abandoned consumer"),
                Ok(other) => rep.fail(format!("{ctx}: kept consumer after second publish: {other:?}")),
                Err(_) => {
                    kept.abort();
                    rep.fail(format!("{ctx}: kept consumer not woken by a second publish either"))
                }
            }
        }
    }
    for h in pullers {
        h.abort();
    }
    cleanup(rep, &mut c, &t, &[&s]).await;
}

#[tokio::test(flavor = "multi_thread", worker_threads = 8)]
async fn w06_swallowed_wakeup_with_full_mailbox() {
    let host = Host::start(16).await;
    let rep = Report::new("w06");
    lanes!(host, rep, 3, scale(120), w06_round);
    host.dispose().await;
    rep.finish();
}
